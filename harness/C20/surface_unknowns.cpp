// @static_init Surface.cxx SurfaceComp.cxx SurfaceCharge.cxx NameDouble.cxx Parser.cxx Utils.cxx
// @id C20.surface_unknowns_wired
// @engine B
// @entry vfh_C20_surface_unknowns
// @shared_state_watch
// @tier Q
// @reach surface.setup_done
// @funcs Phreeqc::setup_surface; Phreeqc::find_surface_charge_unknown
// @bounds the routine that creates the unknowns of a surface calculation, for one surface with 1..3 site types (Goe_uni, Goe_tri, Goe_x) on one charge plane structure; electrostatic model over {none, DDL, CCM, CD_MUSIC} (case split); site amounts symbolic
// @oracle site balance and charge law are set up for every site type: each site type gets its own mass-balance unknown with its amount; all site types of the surface share one set of potential unknowns (one for DDL / CCM, three planes for CD-MUSIC, none without electrostatics) and each site type's unknown points at them; for CD-MUSIC the plane-0 charge unknown lists every site type of the surface exactly once - the list over which the formal charges of the site types are summed into sigma_0
// @stubs Phreeqc::element_store, master_bsearch (fixed tables), string_hsave (returns the argument), error_msg, warning_msg, sformatf
// @outside related phases / kinetics; the equations built on these unknowns (C20.potential_factor, C20.dl_charge_rows)
#include "Phreeqc.h"
#include "Surface.h"
#include "vf.h"
#include <new>
#include <string.h>
#include <string>

static const char *SITE[3] = {"Goe_uni", "Goe_tri", "Goe_x"};
static const char *PSI[3] = {"Goe_psi", "Goe_psib", "Goe_psid"};
static class element g_e[8]; static class master g_m[8]; static class species g_s[8];
static int g_errs = 0;
static std::string g_names[64]; static int g_nn = 0;
const char *Phreeqc::string_hsave(const char *str) { if (g_nn >= 64) vf_fail("names"); g_names[g_nn] = str; return g_names[g_nn++].c_str(); }
class element *Phreeqc::element_store(const char *element)
{
	for (int i = 0; i < 3; i++) if (!strcmp(element, SITE[i])) return &g_e[i];
	if (!strcmp(element, "H")) return &g_e[6];
	if (!strcmp(element, "O")) return &g_e[7];
	vf_fail("unknown element"); return 0;
}
class master *Phreeqc::master_bsearch(const char *cptr)
{
	for (int i = 0; i < 3; i++) if (!strcmp(cptr, PSI[i])) return &g_m[3 + i];
	vf_fail("unknown master"); return 0;
}
void Phreeqc::error_msg(const char *err_str, bool stop) { g_errs++; vf_event_s("error_msg", err_str); }
int Phreeqc::warning_msg(const char *err_str) { return OK; }
char *Phreeqc::sformatf(const char *format, ...) { static char b[4] = "msg"; return b; }

extern "C" void vfh_C20_surface_unknowns(void)
{
	Phreeqc *p = (Phreeqc *) vf_raw(sizeof(Phreeqc));
	new (&p->x) std::vector<class unknown *>();
	new (&p->use) cxxUse();
	static class unknown U[16];
	for (int i = 0; i < 16; i++) p->x.push_back(&U[i]);
	p->count_unknowns = 0;
	for (int i = 0; i < 3; i++) { g_e[i].name = SITE[i]; g_e[i].master = &g_m[i]; g_m[i].elt = &g_e[i]; g_m[i].type = SURF; g_m[i].s = &g_s[i]; g_m[i].in = FALSE; }
	for (int i = 0; i < 3; i++) { g_e[3 + i].name = PSI[i]; g_m[3 + i].elt = &g_e[3 + i]; g_m[3 + i].type = SURF_PSI + i; g_m[3 + i].s = &g_s[3 + i]; g_m[3 + i].in = FALSE; }
	g_e[6].name = "H"; g_e[6].master = &g_m[6]; g_m[6].type = AQ; g_m[6].elt = &g_e[6];
	g_e[7].name = "O"; g_e[7].master = &g_m[7]; g_m[7].type = AQ; g_m[7].elt = &g_e[7];
	int nsites = (int) vf_int("site_types", 1, 3), model = (int) vf_int("electrostatic_model", 0, 3);
	cxxSurface surf;
	surf.Set_type(model == 0 ? cxxSurface::NO_EDL : model == 1 ? cxxSurface::DDL : model == 2 ? cxxSurface::CCM : cxxSurface::CD_MUSIC);
	double amt[3];
	for (int k = 0; k < nsites; k++)
	{
		cxxSurfaceComp c;
		std::string f = std::string(SITE[k]) + "OH";
		c.Set_formula(f.c_str()); c.Set_master_element(SITE[k]); c.Set_charge_name("Goe");
		amt[k] = vf_double("site_amount", 1e-6, 1e-2);
		c.Get_totals()[SITE[k]] = amt[k]; c.Get_totals()["H"] = amt[k]; c.Get_totals()["O"] = amt[k];
		surf.Get_surface_comps().push_back(c);
	}
	cxxSurfaceCharge ch; ch.Set_name("Goe"); ch.Set_grams(1.0); ch.Set_specific_area(100.0); ch.Set_mass_water(0.5);
	surf.Get_surface_charges().push_back(ch);
	p->use.Set_surface_ptr(&surf);
	int rc = p->setup_surface();
	vf_reach("surface.setup_done");
	vf_check("surface.rc", rc == OK && g_errs == 0);
	int planes = model == 0 ? 0 : model == 3 ? 3 : 1;
	vf_check("surface.number_of_unknowns", p->count_unknowns == nsites + planes);
	class unknown *site_u[3] = {0, 0, 0}, *psi0 = 0;
	for (int i = 0; i < p->count_unknowns; i++)
	{
		if (p->x[i]->type == SURFACE) for (int k = 0; k < nsites; k++) if (p->x[i]->master.size() == 1 && p->x[i]->master[0] == &g_m[k]) site_u[k] = p->x[i];
		if (p->x[i]->type == SURFACE_CB) psi0 = p->x[i];
	}
	for (int k = 0; k < nsites; k++)
	{
		vf_check("surface.site_type_has_its_balance_unknown", site_u[k] != 0);
		if (!site_u[k]) return;
		vf_close("surface.site_amount", site_u[k]->moles, amt[k], 0, 0);
		vf_check("surface.site_points_at_shared_potential", site_u[k]->potential_unknown == psi0 && (planes > 0) == (psi0 != 0));
		if (model == 3)
			vf_check("surface.cd_music_planes_shared", site_u[k]->potential_unknown1 != 0 && site_u[k]->potential_unknown2 != 0 &&
				 site_u[k]->potential_unknown1 == site_u[0]->potential_unknown1 && site_u[k]->potential_unknown2 == site_u[0]->potential_unknown2);
	}
	if (model == 3 && psi0)
	{
		vf_check("surface.plane0_lists_every_site_type_once", (int) psi0->comp_unknowns.size() == nsites);
		for (int k = 0; k < nsites; k++)
		{
			int hits = 0;
			for (size_t j = 0; j < psi0->comp_unknowns.size(); j++) if (psi0->comp_unknowns[j] == site_u[k]) hits++;
			vf_check("surface.plane0_lists_every_site_type_once", hits == 1);
		}
	}
}
