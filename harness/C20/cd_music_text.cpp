// @static_init ALL
// @id C20.cd_music_charge_distribution_text
// @engine B
// @entry vfh_C20_cd_music_text
// @shared_state_watch
// @tier Q
// @opts max_steps=60000000 budget_s=600
// @reach cd_music.read
// @funcs Phreeqc::read_surface_species; Phreeqc::parse_eq
// @bounds one SURFACE_SPECIES reaction with a -cd_music line read by the real input reader into a really constructed engine; the line has three numbers (dz0 dz1 dz2) or five (a b c f z: charge a, b, c placed on the planes plus the charge z of the central ion split as f on plane 0 and 1-f on plane 1); 4 concrete lines with non-symmetric values (case split)
// @oracle the charge distribution of a CD-MUSIC surface species is the one the text prescribes (PHREEQC 3 manual, SURFACE_SPECIES -cd_music): dz0 = a + f z, dz1 = b + (1 - f) z, dz2 = c; with three numbers f = z = 0; the total charge moved to the planes is a + b + c + z; the values stored with the species and with its reaction (used in the mass-action exponents of the plane potentials) are the same
// @stubs PHRQ_io::error_msg / warning_msg / output_msg / echo_msg (events)
// @outside the electrostatic terms built from these values (C20.potential_factor), the other options of SURFACE_SPECIES
#include "Phreeqc.h"
#include "vf.h"
#include <new>
#include <sstream>
#include <string.h>

static int g_err = 0;
void PHRQ_io::error_msg(const char *err_str, bool stop) { g_err++; vf_event_s("error_msg", err_str); }
void PHRQ_io::warning_msg(const char *err_str) { vf_event_s("warning_msg", err_str); }
void PHRQ_io::output_msg(const char *str) {}
void PHRQ_io::echo_msg(const char *str) {}

extern "C" void vfh_C20_cd_music_text(void)
{
	PHRQ_io io;
	Phreeqc *p = new Phreeqc(&io);
	p->do_initialize();
	static const char *LINE[4] = {" -cd_music -1 -6 0 0.25 5\n", " -cd_music 0.5 -1.5 0.25\n", " -cd_music 1 0 0 0.75 -2\n", " -cd_music -1 -5 0 0.3 5\n"};
	static const double A[4][5] = {{-1, -6, 0, 0.25, 5}, {0.5, -1.5, 0.25, 0, 0}, {1, 0, 0, 0.75, -2}, {-1, -5, 0, 0.3, 5}};
	int k = (int) vf_int("line", 0, 3);
	std::string text = std::string("SurfOH + H+ = SurfOH2+\n log_k 7.0\n") + LINE[k] + "END\n";
	std::istringstream is(text);
	io.push_istream(&is, false);
	int rv = p->read_surface_species();
	io.pop_istream();
	vf_reach("cd_music.read");
	vf_check("cd_music.block_read", (rv == KEYWORD || rv == EOF) && g_err == 0 && p->input_error == 0);
	class species *s = p->s_search("SurfOH2+");
	vf_check("cd_music.species_stored", s != NULL);
	if (!s) return;
	double want[3] = {A[k][0] + A[k][3] * A[k][4], A[k][1] + (1 - A[k][3]) * A[k][4], A[k][2]};
	for (int j = 0; j < 3; j++)
	{
		vf_close("cd_music.plane_charge_as_the_text_prescribes", s->dz[j], want[j], 1e-13, 1e-15);
		vf_check("cd_music.reaction_carries_the_same_values", s->rxn.dz[j] == s->dz[j]);
	}
	vf_close("cd_music.total_charge_moved", s->dz[0] + s->dz[1] + s->dz[2], A[k][0] + A[k][1] + A[k][2] + A[k][4], 1e-13, 1e-15);
}
