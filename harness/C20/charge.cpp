// @static_init NameDouble.cxx Surface.cxx SurfaceComp.cxx SurfaceCharge.cxx Utils.cxx
// @id C20.potential_factor
// @engine B
// @entry vfh_C20_potential_factor
// @shared_state_watch
// @tier Q
// @reach potential.done
// @funcs Phreeqc::add_potential_factor
// @bounds a surface-complexation reaction written with one surface master species and up to three dissolved reactants - an aqueous ion, H+ and e- (each present or absent by case split) - with symbolic charges in [-4,4] and coefficients in [-3,3]; electrostatic models DDL and CCM; NO_EDL and CD_MUSIC as controls
// @oracle electrostatic mass action: the intrinsic constant is multiplied by exp(-dz F psi / RT) where dz is the charge the reaction moves from solution to the surface, i.e. the sum of charge x coefficient over ALL dissolved reactants (ions, H+, e-); with the psi master species defined as exp(-F psi / 2RT) its coefficient in the mass-action expression is -2 dz; models without this factor add no term
// @stubs Phreeqc::find_surface_charge_unknown (returns the psi unknown), error_msg, sformatf, output_msg
// @outside CD-MUSIC (add_cd_music_factors), rewriting of the reaction to master species (tidy), the solve
// @id C20.dl_charge_rows
// @engine B
// @entry vfh_C20_dl_rows
// @shared_state_watch
// @tier Q
// @reach rows.done
// @funcs Phreeqc::mb_for_species_aq; Phreeqc::store_mb_unknowns
// @bounds one dissolved species of kind {aqueous ion, H+, H2O, e-} (case split) with symbolic charge in [-4,4], a surface with explicit diffuse layer (Borkovec or Donnan) or none, models DDL and CD_MUSIC
// @oracle with an explicit diffuse layer, the (surface + diffuse layer) charge-balance row receives charge x diffuse-layer moles of every charged dissolved species - aqueous ions and H+ alike - so that the ion excess of the layer balances the surface charge; water, e- and uncharged species contribute nothing; without a diffuse layer nothing is added
// @stubs none besides message sinks
// @outside calc_all_g / Donnan integration that produce the diffuse-layer moles
#include "Phreeqc.h"
#include "Surface.h"
#include "vf.h"
#include <new>
#include <string.h>

static class unknown g_psi_unknown; static class master g_psi_master; static class species g_psi_species;
class unknown *Phreeqc::find_surface_charge_unknown(std::string &str_ptr, int plane) { return &g_psi_unknown; }
void Phreeqc::error_msg(const char *err_str, bool stop) { vf_event_s("error_msg", err_str); vf_assume(0); }
char *Phreeqc::sformatf(const char *format, ...) { static char b[4] = "msg"; return b; }
void Phreeqc::output_msg(const char *str) {}

extern "C" void vfh_C20_potential_factor(void)
{
	Phreeqc *p = (Phreeqc *) vf_raw(sizeof(Phreeqc));
	new (&p->trxn) reaction_temp();
	static class species prod, surf, ion, hplus, eminus;
	static class master surf_master; static class element surf_elt;
	p->s_hplus = &hplus; p->s_eminus = &eminus;
	hplus.type = HPLUS; hplus.z = 1.0; eminus.type = EMINUS; eminus.z = -1.0;
	ion.type = AQ; ion.z = vf_double("ion_charge", -4, 4);
	surf.type = SURF; surf.z = vf_double("surface_master_charge", -2, 2); surf.primary = &surf_master;
	surf_elt.name = "Hfo_w"; surf_master.elt = &surf_elt;
	prod.type = SURF;
	g_psi_master.s = &g_psi_species; g_psi_species.name = "Hfo_psi"; g_psi_species.type = SURF_PSI;
	new (&g_psi_unknown.master) std::vector<class master *>(); g_psi_unknown.master.push_back(&g_psi_master);
	int model = (int) vf_int("surface_model", 0, 3);    /* 0 DDL, 1 CCM, 2 NO_EDL, 3 CD_MUSIC */
	cxxSurface sf;
	sf.Set_type(model == 0 ? cxxSurface::DDL : model == 1 ? cxxSurface::CCM : model == 2 ? cxxSurface::NO_EDL : cxxSurface::CD_MUSIC);
	p->use.surface_ptr = &sf;
	int has_ion = (int) vf_int("has_ion", 0, 1), has_h = (int) vf_int("has_Hplus", 0, 1), has_e = (int) vf_int("has_eminus", 0, 1);
	p->trxn.token.resize(8);
	int n = 0; double dz = 0;
	p->trxn.token[n].name = "Hfo_wOX"; p->trxn.token[n].s = &prod; p->trxn.token[n].coef = -1; n++;
	p->trxn.token[n].name = "Hfo_wOH"; p->trxn.token[n].s = &surf; p->trxn.token[n].coef = 1; n++;
	if (has_ion) { double c = vf_double("ion_coef", -3, 3); p->trxn.token[n].s = &ion; p->trxn.token[n].coef = c; p->trxn.token[n].name = "Me"; n++; dz += ion.z * c; }
	if (has_h) { double c = vf_double("Hplus_coef", -3, 3); p->trxn.token[n].s = &hplus; p->trxn.token[n].coef = c; p->trxn.token[n].name = "H+"; n++; dz += 1.0 * c; }
	if (has_e) { double c = vf_double("eminus_coef", -3, 3); p->trxn.token[n].s = &eminus; p->trxn.token[n].coef = c; p->trxn.token[n].name = "e-"; n++; dz += -1.0 * c; }
	p->count_trxn = n;
	int rc = p->add_potential_factor();
	vf_reach("potential.done");
	vf_check("potential.rc", rc == OK);
	if (model <= 1)
	{
		vf_check("potential.one_term_added", (int) p->count_trxn == n + 1 && p->trxn.token[n].s == &g_psi_species);
		vf_close("potential.psi_coefficient", p->trxn.token[n].coef, -2.0 * dz, 1e-12, 1e-12);
	}
	else
		vf_check("potential.no_term_for_model", (int) p->count_trxn == n);
}

extern "C" void vfh_C20_dl_rows(void)
{
	Phreeqc *p = (Phreeqc *) vf_raw(sizeof(Phreeqc));
	new (&p->mb_unknowns) std::vector<class unknown_list>();
	new (&p->s) std::vector<class species *>();
	new (&p->x) std::vector<class unknown *>();
	new (&p->elt_list) std::vector<class elt_list>();
	new (&p->s_diff_layer) std::vector<std::map<std::string, cxxSpeciesDL> >();
	static class species sp; static class unknown ucb, ucb1, ucb2;
	int kind = (int) vf_int("species_kind", 0, 3);       /* AQ, HPLUS, H2O, EMINUS */
	sp.type = kind; sp.z = vf_double("charge", -4, 4);
	p->s.push_back(&sp);
	p->s_diff_layer.resize(1);
	p->s_diff_layer[0]["Hfo"] = cxxSpeciesDL();
	int dl = (int) vf_int("dl_type", 0, 2), cd = (int) vf_int("cd_music", 0, 1);
	cxxSurface sf;
	sf.Set_type(cd ? cxxSurface::CD_MUSIC : cxxSurface::DDL);
	cxxSurfaceCharge ch; ch.Set_name("Hfo"); sf.Get_surface_charges().push_back(ch);
	p->use.surface_ptr = &sf;
	p->dl_type_x = dl == 0 ? cxxSurface::NO_DL : dl == 1 ? cxxSurface::BORKOVEK_DL : cxxSurface::DONNAN_DL;
	ucb.type = SURFACE_CB; ucb.surface_charge = "Hfo"; ucb1.type = SURFACE_CB1; ucb2.type = SURFACE_CB2;
	p->x.push_back(&ucb); p->x.push_back(&ucb1); p->x.push_back(&ucb2);
	p->count_unknowns = 3; p->count_elts = 0; p->state = REACTION;
	int rc = p->mb_for_species_aq(0);
	vf_reach("rows.done");
	vf_check("rows.rc", rc == OK);
	class unknown *row = cd ? &ucb2 : &ucb;
	int found = 0; double coef = 0; bool src_ok = true;
	for (size_t i = 0; i < p->mb_unknowns.size(); i++)
		if (p->mb_unknowns[i].unknown == row || p->mb_unknowns[i].unknown == &ucb || p->mb_unknowns[i].unknown == &ucb2)
		{
			found++; coef = p->mb_unknowns[i].coef;
			src_ok = src_ok && p->mb_unknowns[i].unknown == row && p->mb_unknowns[i].source == p->s_diff_layer[0]["Hfo"].Get_g_moles_address();
		}
	bool dissolved_charged_carrier = (kind == AQ || kind == HPLUS);
	if (dl != 0 && dissolved_charged_carrier)
	{
		/* a charge of exactly zero adds nothing (coefficient 0) */
		vf_check("rows.dl_charge_entry", (found == 1 && src_ok) || (found == 0 && sp.z > -1e-8 && sp.z < 1e-8));
		if (found == 1) vf_close("rows.dl_charge_coefficient", coef, sp.z, 1e-12, 0);
	}
	else
		vf_check("rows.no_dl_charge_entry", found == 0);
}
