// @static_init Surface.cxx SurfaceCharge.cxx NameDouble.cxx Utils.cxx
// @id C20.diffuse_layer_integral_pieces
// @engine B
// @entry vfh_C20_dl_integration
// @shared_state_watch
// @tier Q
// @opts budget_s=300
// @reach dl.done
// @funcs Phreeqc::calc_all_g
// @bounds the driver of the Borkovec-Westall diffuse-layer integration (calc_all_g) for one charged surface and one dissolved species of charge +1 or -1 (case split); the integration limit xd = exp(-2 la(psi) ln 10) is a symbolic real in [1e-10,1e3] (exp is replaced by that symbol), so every rung of the decade ladder is reached; the numerical quadrature of one piece (qromb_midpnt) is replaced by a recorder returning an arbitrary value
// @oracle the surface excess g of a species is the integral from xd to 1: whatever the potential, the pieces handed to the quadrature tile that interval exactly - the first piece starts at 1, each piece starts where the previous one ended, the last piece ends at xd, no decade is integrated twice and none is skipped - and g is the sum of the pieces
// @stubs exp (returns the symbolic limit), qromb_midpnt (recorder), g_function (arbitrary value), output_msg, sformatf
// @outside the quadrature itself (Romberg iteration on an improper integral, floating point), the Donnan alternative (C20.dl_charge_rows)
#include "Phreeqc.h"
#include "Surface.h"
#include "vf.h"
#include <new>
#include <string.h>

static int g_n = 0; static double g_x1[24], g_x2[24], g_val[24];
LDBLE Phreeqc::qromb_midpnt(cxxSurfaceCharge *charge_ptr, LDBLE x1, LDBLE x2)
{
	double v = vf_double("piece_value", -50, 50);
	if (g_n < 24) { g_x1[g_n] = x1; g_x2[g_n] = x2; g_val[g_n] = v; g_n++; }
	return v;
}
LDBLE Phreeqc::g_function(LDBLE x_value) { return 1.0; }
static double g_xd;
extern "C" double exp(double x) { return g_xd; }        /* the integration limit itself is the symbolic input */
void Phreeqc::output_msg(const char *str) { }
char *Phreeqc::sformatf(const char *format, ...) { static char b[4] = "msg"; return b; }

extern "C" void vfh_C20_dl_integration(void)
{
	Phreeqc *p = (Phreeqc *) vf_raw(sizeof(Phreeqc));
	new (&p->x) std::vector<class unknown *>();
	new (&p->s_x) std::vector<class species *>();
	new (&p->use) cxxUse();
	static cxxSurface sf; static cxxSurfaceCharge ch;
	ch.Set_name("Hfo"); ch.Set_grams(600.0); ch.Set_specific_area(0.1);
	sf.Get_surface_charges().push_back(ch); sf.Set_only_counter_ions(false);
	p->use.Set_surface_ptr(&sf);
	static class unknown u; static class master m; static class species psi, ion;
	double la = vf_double("la_psi", -4, 4);
	g_xd = vf_double("integration_limit_xd", 1e-10, 1e3);
	psi.la = la; m.s = &psi;
	u.type = SURFACE_CB; u.surface_charge = "Hfo"; new (&u.master) std::vector<class master *>(); u.master.push_back(&m);
	p->x.push_back(&u); p->count_unknowns = 1;
	ion.type = AQ; ion.z = vf_int("ion_charge_sign", 0, 1) ? 1.0 : -1.0; ion.name = "ion";
	p->s_x.push_back(&ion);
	p->convergence_tolerance = 1e-8; p->debug_diffuse_layer = FALSE; p->LOG_10 = 2.302585092994046;
	p->eps_r = 78.5; p->tk_x = 298.15;
	p->calc_all_g();
	vf_reach("dl.done");
	double xd = p->xd_global;
	/* the ladder is the sequence of pieces up to the one that ends at xd */
	int last = -1;
	for (int k = 0; k < g_n && last < 0; k++) if (g_x2[k] == xd) last = k;
	vf_check("dl.integration_reaches_the_limit", last >= 0);
	if (last < 0) return;
	vf_check("dl.first_piece_starts_at_one", g_x1[0] == 1.0);
	double sum = 0;
	for (int k = 0; k <= last; k++)
	{
		if (k > 0) vf_check("dl.pieces_are_contiguous", g_x1[k] == g_x2[k - 1]);
		vf_check("dl.pieces_run_towards_the_limit", g_x1[k] > g_x2[k] || (xd >= 1.0 && k == 0));
		sum += g_val[k];
	}
	if (g_n == last + 1) vf_close("dl.g_is_the_sum_of_the_pieces", sf.Get_surface_charges()[0].Get_g_map()[ion.z].Get_g(), sum, 1e-12, 0);
}
