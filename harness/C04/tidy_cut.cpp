// @id C04.tidy_cut_independent
// @engine B
// @entry vfh_C04_tidy_cut
// @shared_state_watch
// @tier Q
// @reach tidy.compared
// @funcs Phreeqc::tidy_model; Phreeqc::get_input_errors
// @bounds one simulation whose keyword counts are: one arbitrary keyword K1 of the 80 read once (quick) or two arbitrary keywords K1<=K2 (thorough), all others zero; simulation number 0 or 1; pitzer/sit model on or off; tidied twice from the same state - once as a later simulation of a call (keyword counts as read) and once as the first simulation of a new call, where IPhreeqc::do_run forces keycount[SELECTED_OUTPUT]=1 to rewrite the headings; all case split
// @oracle where the text is cut must not matter: the two runs perform the same tidy steps (bit mask of the 27 tidy_*/update_*/reset routines invoked and the error count), the only permitted difference being one extra tidy_punch in the forced run, and that only when this simulation read nothing tidy_punch resolves names against (no master-species, species, phases or database keyword) - re-resolving an unchanged list against an unchanged database is idempotent. Hence whenever this simulation changed the database tables or the selected-output definitions, tidy_punch runs in both
// @stubs every tidy_* / update_* routine called from tidy_model, compute_gfw, reset_last_model, pitzer_tidy, sit_tidy (each records its bit); error_msg (counted); element_store (fixed element)
// @outside what each tidy routine does; idempotence of tidy_punch itself; keywords that change species tables without a keyword count (none known)
#include "Phreeqc.h"
#include "cxxKinetics.h"
#include "vf.h"
#include <new>
#include <string.h>
#ifndef VF_TIER
#define VF_TIER 1
#endif

#include "../common/tidy_model_stubs.inc"

static bool defines_names(int k, int sim)
{
	switch (k)
	{
	case Keywords::KEY_SOLUTION_MASTER_SPECIES: case Keywords::KEY_SOLUTION_SPECIES: case Keywords::KEY_PHASES:
	case Keywords::KEY_EXCHANGE_MASTER_SPECIES: case Keywords::KEY_EXCHANGE_SPECIES:
	case Keywords::KEY_SURFACE_MASTER_SPECIES: case Keywords::KEY_SURFACE_SPECIES:
		return true;
	case Keywords::KEY_DATABASE:
		return sim == 0;
	}
	return false;
}

extern "C" void vfh_C04_tidy_cut(void)
{
	int k1 = (int) vf_int("keyword_1", 0, Keywords::KEY_COUNT_KEYWORDS - 1);
#if VF_TIER >= 2
	int k2 = (int) vf_int("keyword_2", 0, Keywords::KEY_COUNT_KEYWORDS - 1);
	vf_assume(k1 <= k2);
#else
	int k2 = k1;
#endif
	int sim = (int) vf_int("simulation", 0, 1), model = (int) vf_int("activity_model", 0, 2);
	unsigned mask[2]; int errs[2];
	for (int run = 0; run < 2; run++)
	{
		Phreeqc *p = mk(sim, model == 1, model == 2);
		p->keycount[k1]++; if (k2 != k1) p->keycount[k2]++;
		if (run == 1) p->keycount[Keywords::KEY_SELECTED_OUTPUT] = 1;      /* IPhreeqc::do_run, first simulation of a call */
		g_mask = 0; g_errs = 0; g_n = 0;
		p->tidy_model();
		mask[run] = g_mask; errs[run] = g_errs + p->input_error;
	}
	vf_reach("tidy.compared");
	bool names_changed = defines_names(k1, sim) || defines_names(k2, sim);
	bool punch_changed = k1 == Keywords::KEY_SELECTED_OUTPUT || k2 == Keywords::KEY_SELECTED_OUTPUT ||
		k1 == Keywords::KEY_USER_PUNCH || k2 == Keywords::KEY_USER_PUNCH;
	unsigned diff = mask[0] ^ mask[1];
	vf_check("tidy.same_steps_apart_from_punch", (diff & ~(1u << PUNCH_BIT)) == 0);
	vf_check("tidy.same_errors", errs[0] == errs[1] && errs[0] == 0);
	vf_check("tidy.punch_resolved_in_both_when_tables_or_definitions_changed",
		!(names_changed || punch_changed) || ((mask[0] >> PUNCH_BIT) & 1u) == 1u);
	vf_check("tidy.forced_run_resolves_punch", ((mask[1] >> PUNCH_BIT) & 1u) == 1u);
	vf_check("tidy.only_extra_punch_in_forced_run", diff == 0 || ((mask[1] >> PUNCH_BIT) & 1u) == 1u);
}
