// @id C04.tidy_cut_independent
// @engine B
// @entry vfh_C04_tidy_cut
// @shared_state_watch
// @tier Q
// @reach tidy.compared
// @funcs Phreeqc::tidy_model; Phreeqc::get_input_errors
// @bounds one simulation whose keyword counts are: one arbitrary keyword K1 of the 80 read once (quick) or two arbitrary keywords K1<=K2 (thorough), all others zero; simulation number 0 or 1; pitzer/sit model on or off; tidied twice from the same state - once as a later simulation of a call (keyword counts as read) and once as the first simulation of a new call, where IPhreeqc::do_run forces keycount[SELECTED_OUTPUT]=1 to rewrite the headings; all case split
// @oracle where the text is cut must not matter: the two runs perform the same tidy steps (bit mask of the 27 tidy_*/update_*/reset routines invoked and the error count), the only permitted difference being one extra tidy_punch in the forced run, and that only when this simulation read nothing tidy_punch resolves names against (no master-species, species, phases or database keyword) - re-resolving an unchanged list against an unchanged database is idempotent. Hence whenever this simulation changed the database tables or the selected-output definitions, tidy_punch runs in both
// @stubs every tidy_* / update_* routine called from tidy_model, compute_gfw, reset_last_model, pitzer_tidy, sit_tidy (each records its bit); error_msg (counted); element_store (fixed element)
// @outside what each tidy routine does; idempotence of tidy_punch itself; keywords that change species tables without a keyword count (none known)
// @id C08.every_block_is_validated
// @also C04
// @engine B
// @entry vfh_C08_blocks_validated
// @shared_state_watch
// @tier Q
// @reach tidy.compared
// @funcs Phreeqc::tidy_model
// @bounds one simulation that contains exactly one data block out of 21 kinds (species and master-species blocks, PHASES, NAMED_EXPRESSIONS, ISOTOPES, ISOTOPE_RATIOS, ISOTOPE_ALPHAS, CALCULATE_VALUES, PITZER, SIT, the reactant blocks, INVERSE_MODELING, SOLUTION), as first or later simulation (case split); the real tidy_model with every tidy routine replaced by a recorder
// @oracle bad input is reported, not used: the routine that checks a block (tidy_species for the species blocks, tidy_phases, tidy_logk, tidy_master_isotope, tidy_isotope_ratios / tidy_isotope_alphas - also when only the CALCULATE_VALUES they refer to changed -, pitzer_tidy, sit_tidy, the reactant tidies, tidy_inverse, tidy_isotopes) runs in the simulation that reads the block, whatever else the simulation contains; an unchecked block would be used by the next calculation (for ISOTOPE_ALPHAS: a null pointer)
// @stubs as C04.tidy_cut_independent
#include "Phreeqc.h"
#include "cxxKinetics.h"
#include "vf.h"
#include <new>
#include <string.h>
#ifndef VF_TIER
#define VF_TIER 1
#endif

#include "../common/tidy_model_stubs.inc"

static bool defines_names(int k, int sim)
{
	switch (k)
	{
	case Keywords::KEY_SOLUTION_MASTER_SPECIES: case Keywords::KEY_SOLUTION_SPECIES: case Keywords::KEY_PHASES:
	case Keywords::KEY_EXCHANGE_MASTER_SPECIES: case Keywords::KEY_EXCHANGE_SPECIES:
	case Keywords::KEY_SURFACE_MASTER_SPECIES: case Keywords::KEY_SURFACE_SPECIES:
		return true;
	case Keywords::KEY_DATABASE:
		return sim == 0;
	}
	return false;
}

extern "C" void vfh_C04_tidy_cut(void)
{
	int k1 = (int) vf_int("keyword_1", 0, Keywords::KEY_COUNT_KEYWORDS - 1);
#if VF_TIER >= 2
	int k2 = (int) vf_int("keyword_2", 0, Keywords::KEY_COUNT_KEYWORDS - 1);
	vf_assume(k1 <= k2);
#else
	int k2 = k1;
#endif
	int sim = (int) vf_int("simulation", 0, 1), model = (int) vf_int("activity_model", 0, 2);
	unsigned mask[2]; int errs[2];
	for (int run = 0; run < 2; run++)
	{
		Phreeqc *p = mk(sim, model == 1, model == 2);
		p->keycount[k1]++; if (k2 != k1) p->keycount[k2]++;
		if (run == 1) p->keycount[Keywords::KEY_SELECTED_OUTPUT] = 1;      /* IPhreeqc::do_run, first simulation of a call */
		g_mask = 0; g_errs = 0; g_n = 0;
		p->tidy_model();
		mask[run] = g_mask; errs[run] = g_errs + p->input_error;
	}
	vf_reach("tidy.compared");
	bool names_changed = defines_names(k1, sim) || defines_names(k2, sim);
	bool punch_changed = k1 == Keywords::KEY_SELECTED_OUTPUT || k2 == Keywords::KEY_SELECTED_OUTPUT ||
		k1 == Keywords::KEY_USER_PUNCH || k2 == Keywords::KEY_USER_PUNCH;
	unsigned diff = mask[0] ^ mask[1];
	vf_check("tidy.same_steps_apart_from_punch", (diff & ~(1u << PUNCH_BIT)) == 0);
	vf_check("tidy.same_errors", errs[0] == errs[1] && errs[0] == 0);
	vf_check("tidy.punch_resolved_in_both_when_tables_or_definitions_changed",
		!(names_changed || punch_changed) || ((mask[0] >> PUNCH_BIT) & 1u) == 1u);
	vf_check("tidy.forced_run_resolves_punch", ((mask[1] >> PUNCH_BIT) & 1u) == 1u);
	vf_check("tidy.only_extra_punch_in_forced_run", diff == 0 || ((mask[1] >> PUNCH_BIT) & 1u) == 1u);
}

/* every data block is validated by its tidy routine in the simulation that reads it */
extern "C" void vfh_C08_blocks_validated(void)
{
	struct Row { int key; int step; int needs_model; };      /* step numbers: harness/common/tidy_model_stubs.inc */
	static const Row T[] = {
		{Keywords::KEY_SOLUTION_SPECIES, 1, 0}, {Keywords::KEY_SOLUTION_MASTER_SPECIES, 1, 0}, {Keywords::KEY_EXCHANGE_SPECIES, 1, 0},
		{Keywords::KEY_EXCHANGE_MASTER_SPECIES, 1, 0}, {Keywords::KEY_SURFACE_SPECIES, 1, 0}, {Keywords::KEY_SURFACE_MASTER_SPECIES, 1, 0},
		{Keywords::KEY_PHASES, 2, 0}, {Keywords::KEY_NAMED_EXPRESSIONS, 0, 0}, {Keywords::KEY_ISOTOPES, 3, 0},
		{Keywords::KEY_ISOTOPE_RATIOS, 16, 0}, {Keywords::KEY_ISOTOPE_ALPHAS, 17, 0}, {Keywords::KEY_CALCULATE_VALUES, 16, 0}, {Keywords::KEY_CALCULATE_VALUES, 17, 0},
		{Keywords::KEY_PITZER, 18, 1}, {Keywords::KEY_SIT, 19, 2},
		{Keywords::KEY_EQUILIBRIUM_PHASES, 8, 0}, {Keywords::KEY_SOLID_SOLUTIONS, 9, 0}, {Keywords::KEY_EXCHANGE, 10, 0}, {Keywords::KEY_GAS_PHASE, 7, 0},
		{Keywords::KEY_INVERSE_MODELING, 6, 0}, {Keywords::KEY_SOLUTION, 15, 0},
	};
	const int n = (int) (sizeof T / sizeof T[0]);
	int r = (int) vf_int("block", 0, n - 1), sim = (int) vf_int("simulation", 0, 1);
	Phreeqc *p = mk(sim, T[r].needs_model == 1, T[r].needs_model == 2);
	p->keycount[T[r].key] = 1;
	g_mask = 0; g_errs = 0; g_n = 0;
	p->tidy_model();
	vf_reach("tidy.compared");
	vf_check("tidy.block_validated_in_the_simulation_that_reads_it", ((g_mask >> T[r].step) & 1u) == 1u);
}
