// @id C04.entry_equiv
// @also C09
// @engine B
// @entry vfh_C04_entry_equiv
// @shared_state_watch
// @tier Q
// @reach entry.compared
// @funcs IPhreeqc::RunString; IPhreeqc::RunFile; IPhreeqc::RunAccumulated; IPhreeqc::AccumulateLine; IPhreeqc::check_database
// @bounds one fixed 3-line input text delivered three ways to three fresh instances (real constructor); symbolic: database loaded or not, previous-call leftovers (input_error, io_error_count, UpdateComponents), the outcome of the run (returns / reports k errors / aborts with IPhreeqcStop / throws std::exception), ClearAccumulated flag; each combination is one path (case split)
// @oracle the three entry points perform the same sequence of driver steps with the same arguments (open files, reset the two error counters to 0, hand the identical text to the run, close files, collect errors, pop input streams), return the same error count, leave the same wrapper state (DatabaseLoaded, UpdateComponents, counters, error text); RunString/RunFile clear the accumulated lines, RunAccumulated keeps them until the next AccumulateLine
// @stubs IPhreeqc::do_run, open_output_files, close_output_files, update_errors (logged with their arguments); Phreeqc engine (events); iostream/file model
// @outside what the engine does with the text (parser, tidy, persistence of definitions between calls): not encodable
#include "../common/engine_stubs.inc"
#include <string.h>
#include <exception>
struct Boom : public std::exception { const char *what() const noexcept { return "boom"; } };

static char g_log[3][2048]; static int g_len[3]; static int g_cur = 0;
static int g_outcome = 0, g_nerr = 0;
static void lg(const char *s) { int n = (int) strlen(s); if (g_len[g_cur] + n + 2 < 2048) { memcpy(g_log[g_cur] + g_len[g_cur], s, n); g_len[g_cur] += n; g_log[g_cur][g_len[g_cur]++] = '|'; g_log[g_cur][g_len[g_cur]] = 0; } }
static void lgi(const char *s, long v) { char b[96]; snprintf(b, sizeof b, "%s=%ld", s, v); lg(b); }

void IPhreeqc::open_output_files(const char *sz_routine) { lg("open_output_files"); }
int IPhreeqc::close_output_files(void) { lg("close_output_files"); return 0; }
void IPhreeqc::update_errors(void) { lg("update_errors"); }
void IPhreeqc::do_run(const char *sz_routine, std::istream *pis, PFN_PRERUN_CALLBACK pfn_pre, PFN_POSTRUN_CALLBACK pfn_post, void *cookie)
{
	char buf[256];
	lg("do_run");
	lgi("input_error", this->PhreeqcPtr->input_error);
	lgi("io_error_count", this->io_error_count);
	lgi("callbacks", (pfn_pre != 0) + (pfn_post != 0) + (cookie != 0));
	vf_stream_content((void *) pis, buf, sizeof buf);
	lg(buf);
	this->PhreeqcPtr->phrq_io->push_istream(pis, false);
	if (g_outcome == 1) this->PhreeqcPtr->input_error = g_nerr;
	if (g_outcome == 2) { this->PhreeqcPtr->input_error = g_nerr; throw IPhreeqcStop(); }
	if (g_outcome == 3) throw Boom();
	/* UpdateComponents is deliberately not touched here: the three entry points must agree on it */
}
void Phreeqc::error_msg(const char *err_str, bool stop)
{
	lg("error_msg"); lg(err_str ? (strncmp(err_str, "Run", 3) == 0 ? strchr(err_str, ':') : err_str) : "");
	if (input_error <= 0) input_error = 1;
	if (stop) throw IPhreeqcStop();
}

static const char *TEXT = "SOLUTION 1\nEND\nDUMP; -all\n";

static void finish(IPhreeqc *ip, int rc, int threw)
{
	lgi("rc", rc); lgi("threw", threw);
	lgi("input_error", ip->PhreeqcPtr->input_error);
	lgi("DatabaseLoaded", ip->DatabaseLoaded); lgi("UpdateComponents", ip->UpdateComponents);
	lgi("istreams", (long) ip->PhreeqcPtr->phrq_io->istream_list.size());
}

extern "C" void vfh_C04_entry_equiv(void)
{
	new (&IPhreeqc::Instances) std::map<size_t, IPhreeqc*>();
	IPhreeqc::InstancesIndex = 0;
	int loaded = (int) vf_int("database_loaded", 0, 1);
	int old_err = (int) vf_int("previous_input_error", 0, 1) * 7;
	int old_upd = (int) vf_int("previous_UpdateComponents", 0, 1);
	g_outcome = (int) vf_int("run_outcome", 0, 3);
	g_nerr = (g_outcome == 1 || g_outcome == 2) ? 2 : 0;
	int clear_flag = (int) vf_int("ClearAccumulated", 0, 1);
	vf_file("vf_input.pqi", TEXT);

	int rc[3] = {0, 0, 0}, threw[3] = {0, 0, 0};
	std::string acc[3];
	for (int k = 0; k < 3; k++)
	{
		g_cur = k; g_len[k] = 0; g_log[k][0] = 0;
		IPhreeqc *ip = new IPhreeqc();
		ip->DatabaseLoaded = loaded != 0;
		ip->PhreeqcPtr->input_error = old_err; ip->io_error_count = old_err;
		ip->UpdateComponents = old_upd != 0;
		ip->StringInput = "OLD LINE\n"; ip->ClearAccumulated = clear_flag != 0;
		if (!clear_flag && k == 2) ip->StringInput = "";      /* so that the accumulated text is exactly TEXT */
		try
		{
			if (k == 0) rc[k] = ip->RunString(TEXT);
			else if (k == 1) rc[k] = ip->RunFile("vf_input.pqi");
			else
			{
				if (!clear_flag) { /* buffer empty */ }
				ip->AccumulateLine("SOLUTION 1"); ip->AccumulateLine("END"); ip->AccumulateLine("DUMP; -all");
				rc[k] = ip->RunAccumulated();
			}
		}
		catch (const std::exception &) { threw[k] = 1; }
		catch (...) { threw[k] = 2; }
		finish(ip, rc[k], threw[k]);
		acc[k] = ip->GetAccumulatedLines();
	}
	vf_reach("entry.compared");
	vf_check("RunString==RunFile.trace", strcmp(g_log[0], g_log[1]) == 0);
	vf_check("RunString==RunAccumulated.trace", strcmp(g_log[0], g_log[2]) == 0);
	vf_check("trace.nonempty", g_len[0] > 40);
	vf_check("rc.same", rc[0] == rc[1] && rc[1] == rc[2]);
	vf_check("RunString.clears_accumulated", acc[0].size() == 0);
	vf_check("RunFile.clears_accumulated", acc[1].size() == 0);
	vf_check("RunAccumulated.keeps_text", acc[2] == TEXT);
	/* the run starts from zeroed error counters whatever the previous call left */
	vf_check("counters.zeroed", loaded == 0 || strstr(g_log[0], "do_run|input_error=0|io_error_count=0|") != 0);
	vf_check("text.delivered", loaded == 0 || strstr(g_log[0], TEXT) != 0);
	vf_check("rc.is_error_count", threw[0] || rc[0] == ((loaded == 0) ? 1 : g_nerr));
}
