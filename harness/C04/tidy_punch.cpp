// @static_init SelectedOutput.cpp UserPunch.cpp Utils.cxx
// @id C04.tidy_punch_rebinds
// @also C05
// @engine B
// @entry vfh_C04_tidy_punch
// @shared_state_watch
// @tier Q
// @reach punch.tidied
// @funcs Phreeqc::tidy_punch
// @bounds two stored SELECTED_OUTPUT definitions (user numbers 1 and 5), each newly defined in this simulation or carried over from an earlier one (case split), each naming one total, molality, activity, equilibrium phase, saturation index and gas; every name currently resolves to a database entry or to none (case split per kind); the bindings stored from the previous tidy are stale (they point at the tables of before the model change)
// @oracle whenever tidy_punch runs - tidy_model calls it when the database tables or the definitions changed - every name of every stored definition is bound to what the database now holds (or to nothing when it holds none), for carried-over definitions exactly as for new ones, so that a SELECTED_OUTPUT defined before a database addition reports the new species no matter where the input is cut into calls; headings are written only for new definitions, which are then marked as stored; the punch stream switch ends up as pr.punch says
// @stubs Phreeqc::master_bsearch, s_search, phase_bsearch (the current tables), fpunchf_heading, punch_flush, warning_msg, sformatf
// @outside the heading text; USER_PUNCH headings
#include "Phreeqc.h"
#include "SelectedOutput.h"
#include "UserPunch.h"
#include "vf.h"
#include <new>
#include <string.h>

static class master g_m; static class species g_s; static class phase g_p;
static int g_have_master = 1, g_have_species = 1, g_have_phase = 1, g_headings = 0;
class master *Phreeqc::master_bsearch(const char *cptr) { return g_have_master ? &g_m : NULL; }
class species *Phreeqc::s_search(const char *name) { return g_have_species ? &g_s : NULL; }
class phase *Phreeqc::phase_bsearch(const char *cptr, int *j, int print) { *j = 0; return g_have_phase ? &g_p : NULL; }
void Phreeqc::fpunchf_heading(const char *name) { g_headings++; }
void Phreeqc::punch_flush(void) { }
int Phreeqc::warning_msg(const char *err_str) { return OK; }
char *Phreeqc::sformatf(const char *format, ...) { static char b[4] = "msg"; return b; }

static void define(SelectedOutput &so, int n, bool new_def)
{
	static int stale;
	so.Set_n_user(n); so.Set_new_def(new_def);
	so.Set_sim(false); so.Set_state(false); so.Set_soln(false); so.Set_dist(false); so.Set_time(false); so.Set_step(false);
	so.Set_ph(false); so.Set_pe(false); so.Set_rxn(false); so.Set_temp(false); so.Set_alk(false); so.Set_mu(false);
	so.Set_water(false); so.Set_charge_balance(false); so.Set_percent_error(false);
	so.Get_totals().push_back(std::make_pair(std::string("Tr"), (void *) &stale));
	so.Get_molalities().push_back(std::make_pair(std::string("TrCl"), (void *) &stale));
	so.Get_activities().push_back(std::make_pair(std::string("TrCl"), (void *) &stale));
	so.Get_pure_phases().push_back(std::make_pair(std::string("Trsalt"), (void *) &stale));
	so.Get_si().push_back(std::make_pair(std::string("Trsalt"), (void *) &stale));
	so.Get_gases().push_back(std::make_pair(std::string("Tr(g)"), (void *) &stale));
}
static bool bound(SelectedOutput &so)
{
	void *wm = g_have_master ? (void *) &g_m : NULL, *ws = g_have_species ? (void *) &g_s : NULL, *wp = g_have_phase ? (void *) &g_p : NULL;
	return so.Get_totals()[0].second == wm && so.Get_molalities()[0].second == ws && so.Get_activities()[0].second == ws &&
	       so.Get_pure_phases()[0].second == wp && so.Get_si()[0].second == wp && so.Get_gases()[0].second == wp;
}

extern "C" void vfh_C04_tidy_punch(void)
{
	Phreeqc *p = (Phreeqc *) vf_raw(sizeof(Phreeqc));
	new (&p->SelectedOutput_map) std::map<int, SelectedOutput>();
	new (&p->UserPunch_map) std::map<int, UserPunch>();
	PHRQ_io io;
	p->phrq_io = &io;
	int nd1 = (int) vf_int("definition_1_is_new", 0, 1), nd5 = (int) vf_int("definition_5_is_new", 0, 1);
	g_have_master = (int) vf_int("element_in_database", 0, 1); g_have_species = (int) vf_int("species_in_database", 0, 1);
	g_have_phase = (int) vf_int("phase_in_database", 0, 1);
	p->pr.punch = (int) vf_int("print_selected_output", 0, 1);
	io.Set_punch_on(p->pr.punch == TRUE);
	define(p->SelectedOutput_map[1], 1, nd1 != 0);
	define(p->SelectedOutput_map[5], 5, nd5 != 0);
	int rc = p->tidy_punch();
	vf_reach("punch.tidied");
	vf_check("punch.rc", rc == OK);
	vf_check("punch.definition_1_bound_to_current_tables", bound(p->SelectedOutput_map[1]));
	vf_check("punch.definition_5_bound_to_current_tables", bound(p->SelectedOutput_map[5]));
	vf_check("punch.headings_only_for_new_definitions", (g_headings > 0) == (nd1 || nd5));
	vf_check("punch.definitions_marked_stored", !p->SelectedOutput_map[1].Get_new_def() && !p->SelectedOutput_map[5].Get_new_def());
	vf_check("punch.stream_switch_follows_print_option", io.Get_punch_on() == (p->pr.punch == TRUE));
}
