// @static_init ALL
// @id C17.on_gosub_fall_through
// @engine B
// @entry vfh_C17_on_gosub
// @shared_state_watch
// @tier Q
// @opts max_steps=60000000 budget_s=600
// @reach basic.ran
// @funcs PBasic::basic_run; PBasic::cmdon; PBasic::cmdreturn; PBasic::cmdnext
// @bounds a FOR loop over selector values lo..hi (lo in -1..1, hi in 1..4, case split) whose body is ON i GOSUB 100, 200 or ON i GOTO (case split) with two targets, each subroutine adding a distinct weight to a counter; real tokenizer and executor
// @oracle ON k GOSUB/GOTO a, b transfers to the k-th target for k in 1..2 and otherwise falls through to the next statement without any other effect: the counter ends as the sum of the weights of the selectors in range, the program ends without error (in particular the enclosing FOR/NEXT still matches after a fall-through)
// @stubs PHRQ_io::error_msg / warning_msg / output_msg
// @id C08.basic_number_text_fits
// @also C17
// @engine B
// @entry vfh_C08_number_text
// @shared_state_watch
// @tier Q
// @opts max_steps=60000000 budget_s=600
// @reach basic.ran
// @funcs PBasic::basic_run; PBasic::numtostr; PBasic::strfactor
// @bounds a$ = STR$(v) followed by SAVE VAL(a$) for v over {1e300, -1e300, 1e260, 1.5e255, 1e20, 123456, -7, 0.5, 1.25e-300, 0} (case split), normal and high precision; real tokenizer and executor; every load and store is bounds-checked by the engine and a violation is confirmed under AddressSanitizer
// @oracle any number a BASIC program can compute is turned into text without writing outside the 256-character string buffers of the interpreter (no crash, no memory error, no BASIC error), and the text converts back to the number within the print precision (integers below 1e15 exactly)
// @stubs PHRQ_io::error_msg / warning_msg / output_msg
#include "Phreeqc.h"
#include "PBasic.h"
#include "vf.h"
#include <sstream>
#include <string.h>
#include <stdio.h>

static int g_err = 0, g_warn = 0;
void PHRQ_io::error_msg(const char *err_str, bool stop) { g_err++; vf_event_s("error_msg", err_str); }
void PHRQ_io::warning_msg(const char *err_str) { g_warn++; vf_event_s("warning_msg", err_str); }
void PHRQ_io::output_msg(const char *str) {}

struct Interp { PHRQ_io io; Phreeqc *p; PBasic *b; void *ln, *vb, *lp; };
static int run(Interp &I, const std::string &prog)
{
	I.p = new Phreeqc(&I.io);
	I.p->do_initialize();
	I.b = new PBasic(I.p, &I.io);
	I.ln = I.vb = I.lp = 0;
	int rc = I.b->basic_compile(prog.c_str(), &I.ln, &I.vb, &I.lp);
	char cmd[] = "run";
	if (rc == 0) rc = I.b->basic_run(cmd, I.ln, I.vb, I.lp);
	vf_reach("basic.ran");
	return rc;
}

extern "C" void vfh_C17_on_gosub(void)
{
	int lo = (int) vf_int("first_selector", -1, 1), hi = (int) vf_int("last_selector", 1, 4), gosub = (int) vf_int("gosub", 0, 1);
	std::ostringstream os;
	os << "10 t = 0\n20 FOR i = " << lo << " TO " << hi << "\n";
	if (gosub) os << "30 ON i GOSUB 100, 200\n";
	else os << "30 ON i GOTO 100, 200\n";
	os << "40 NEXT i\n50 SAVE t\n60 END\n";
	if (gosub) os << "100 t = t + 1\n110 RETURN\n200 t = t + 10\n210 RETURN\n";
	else os << "100 t = t + 1\n110 GOTO 40\n200 t = t + 10\n210 GOTO 40\n";
	Interp I;
	int rc = run(I, os.str());
	vf_check("on.no_error", rc == 0 && g_err == 0);
	double want = 0;
	for (int i = lo; i <= hi; i++) want += i == 1 ? 1 : i == 2 ? 10 : 0;
	vf_check("on.counter_is_sum_of_selected_targets", I.p->rate_moles == want);
}

extern "C" void vfh_C08_number_text(void)
{
	static const char *TXT[10] = {"1e300", "-1e300", "1e260", "1.5e255", "1e20", "123456", "-7", "0.5", "1.25e-300", "0"};
	static const double VAL[10] = {1e300, -1e300, 1e260, 1.5e255, 1e20, 123456, -7, 0.5, 1.25e-300, 0};
	int k = (int) vf_int("value", 0, 9), hp = (int) vf_int("high_precision", 0, 1);
	std::ostringstream os;
	os << "10 a$ = STR$(" << TXT[k] << ")\n20 SAVE VAL(a$)\n30 END\n";
	Interp I;
	I.p = 0;
	std::string prog = os.str();
	/* run() constructs the engine; precision is an engine setting */
	I.p = new Phreeqc(&I.io);
	I.p->do_initialize();
	I.p->high_precision = hp != 0;
	I.b = new PBasic(I.p, &I.io);
	I.ln = I.vb = I.lp = 0;
	int rc = I.b->basic_compile(prog.c_str(), &I.ln, &I.vb, &I.lp);
	char cmd[] = "run";
	if (rc == 0) rc = I.b->basic_run(cmd, I.ln, I.vb, I.lp);
	vf_reach("basic.ran");
	vf_check("number_text.no_error", rc == 0 && g_err == 0);
	double got = I.p->rate_moles, v = VAL[k];
	if (v == 0 || (v > -1e15 && v < 1e15 && v == (double) (long) v)) vf_check("number_text.integers_exact", got == v);
	else vf_close("number_text.converts_back_within_print_precision", got, v, 1e-4, 0);
}
