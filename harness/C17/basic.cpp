// @static_init PBasic.cpp Utils.cxx
// @id C17.arithmetic
// @engine B
// @entry vfh_C17_arith
// @shared_state_watch
// @tier Q
// @opts max_steps=30000000
// @reach basic.ran
// @funcs PBasic::basic_compile; PBasic::basic_run; PBasic::expr; PBasic::term; PBasic::factor; PBasic::cmdsave
// @bounds the real tokenizer, compiler and interpreter run one program whose numeric literals are symbolic reals in [-100,100] (x, y != 0, z): assignment, + - * /, unary minus, parentheses, ^2, nested precedence
// @oracle the value delivered by SAVE equals the expression evaluated with the standard precedence (unary minus, ^, * /, + -; left to right), rtol 1e-12
// @stubs PHRQ_io::error_msg / warning_msg / output_msg; Phreeqc object really constructed
// @outside functions that read chemistry (MOL, SI, ...), IEEE rounding
// @id C17.compare_logic
// @engine B
// @entry vfh_C17_logic
// @shared_state_watch
// @tier Q
// @opts max_steps=30000000
// @reach basic.ran
// @funcs PBasic::basic_run; PBasic::relexpr; PBasic::andexpr; PBasic::cmdif
// @bounds symbolic reals a, b in [-100,100] (all orderings incl. a = b), comparison operator over {<, <=, =, >=, >, <>} and connective over {AND, OR, AND NOT} by case split, inside IF ... THEN ... ELSE
// @oracle IF takes the THEN branch exactly when the relation holds mathematically (in particular <= and >= hold at equality, <> does not); AND / OR / NOT combine truth values as in standard BASIC
// @id C17.for_next
// @engine B
// @entry vfh_C17_for
// @shared_state_watch
// @tier Q
// @opts max_steps=40000000
// @reach basic.ran
// @funcs PBasic::basic_run; PBasic::cmdfor; PBasic::cmdnext
// @bounds FOR i = first TO last STEP s with integer first, last in -2..3 and s in {-2,-1,1,2} (case split: 6 x 6 x 4 programs), body counts the trips and accumulates i
// @oracle trip count and accumulated sum equal those of the reference loop (ascending: while i <= last; descending: while i >= last; zero trips when already past the limit; a loop whose start equals its limit runs once)
// @id C17.string_arrays
// @engine B
// @entry vfh_C17_strings
// @shared_state_watch
// @tier Q
// @opts max_steps=40000000
// @reach basic.ran
// @funcs PBasic::basic_run; PBasic::cmdlet; PBasic::cmddim
// @bounds string array of 4 elements; assignment a$(i) = a$(j) + "x" for all i, j in 0..3 (case split), then every element is read back
// @oracle only element i changes and it holds the old a$(j) followed by "x" (the left-hand side is fixed before the right-hand side is evaluated)
// @id C17.nested_for_early_exit
// @engine B
// @entry vfh_C17_nested_for
// @shared_state_watch
// @tier Q
// @opts max_steps=60000000
// @reach basic.ran
// @funcs PBasic::basic_run; PBasic::cmdfor; PBasic::cmdnext; PBasic::cmdgoto
// @bounds two nested FOR loops (outer 1..3, inner 1..5) where the inner loop is left early by IF ... THEN GOTO when its counter reaches k (k in 1..6 by case split; 6 = never) and the outer loop is then closed with NEXT <outer variable>; a WHILE/WEND around a FOR with the same early exit
// @oracle control flow is that of standard BASIC: NEXT v closes the loop of variable v (abandoning inner loops that were left early), so the outer loop runs all its iterations; the accumulated value equals that of the same program written in C++
// @stubs PHRQ_io::error_msg / warning_msg (counted)
// @outside GOSUB/RETURN, ON GOTO
// @id C17.string_functions
// @also C08
// @engine B
// @entry vfh_C17_string_functions
// @shared_state_watch
// @tier Q
// @opts max_steps=60000000
// @reach basic.ran
// @funcs PBasic::basic_run; PBasic::strfactor; PBasic::factor
// @bounds the real interpreter runs one program that applies a string function to the 5-character text "abcde" and punches the result: MID$(s, i), MID$(s, i, n), LTRIM/RTRIM/TRIM of a padded copy, PAD(s, n), INSTR(s, t), LEN, STR$ and CHR$/ASC round trip; start i in -1..8 and count n in 0..8 (case split)
// @oracle no input makes the interpreter throw: every program returns normally (no C++ exception leaves basic_run - RunString would pass it on to the caller and abort the process); MID$ returns the at most n characters starting at position max(i,1), the empty string when that position is beyond the end; the trims remove exactly the blanks on their side; PAD extends to n characters and never shortens; INSTR returns the 1-based position or 0
// @stubs PHRQ_io::error_msg / warning_msg (counted); Phreeqc::fpunchf_user (captures the cell)
// @outside chemistry functions; string length limits of the interpreter (256 characters per token)
// @id C05.user_punch_text
// @also C17
// @engine B
// @entry vfh_C05_user_punch
// @shared_state_watch
// @tier Q
// @opts max_steps=40000000
// @reach basic.ran
// @funcs PBasic::basic_run; PBasic::cmdpunch
// @bounds PUNCH of one string of length 0..26 (case split) and of one symbolic number, high_precision on/off, first or later item of the row
// @oracle the text cell handed to the selected-output sinks renders the complete string (never truncated), right-aligned in the block's column width (12, or 20 with high precision), followed by one tab; numbers use %12.4e / %20.12e
#include "Phreeqc.h"
#include "PBasic.h"
#include "vf.h"
#include <sstream>
#include <string.h>
#include <stdio.h>

static int g_err = 0, g_warn = 0;
void PHRQ_io::error_msg(const char *err_str, bool stop) { g_err++; vf_event_s("error_msg", err_str); }
void PHRQ_io::warning_msg(const char *err_str) { g_warn++; vf_event_s("warning_msg", err_str); }
void PHRQ_io::output_msg(const char *str) {}

static char g_cell[8][128]; static char g_fmt[8][32]; static int g_ncell = 0; static double g_num[8];
void Phreeqc::fpunchf_user(int user_index, const char *format, char *d)
{
	if (g_ncell < 8) { snprintf(g_cell[g_ncell], 128, format, d); strncpy(g_fmt[g_ncell], format, 31); g_ncell++; }
}
void Phreeqc::fpunchf_user(int user_index, const char *format, double d)
{
	if (g_ncell < 8) { g_cell[g_ncell][0] = 0; g_num[g_ncell] = d; strncpy(g_fmt[g_ncell], format, 31); g_ncell++; }
}

struct Interp { PHRQ_io io; Phreeqc *p; PBasic *b; void *ln, *vb, *lp; };
static int run(Interp &I, const std::string &prog)
{
	I.p = new Phreeqc(&I.io);
	I.p->do_initialize();
	I.b = new PBasic(I.p, &I.io);
	I.ln = I.vb = I.lp = 0;
	int rc = I.b->basic_compile(prog.c_str(), &I.ln, &I.vb, &I.lp);
	char cmd[] = "run";
	if (rc == 0) rc = I.b->basic_run(cmd, I.ln, I.vb, I.lp);
	vf_reach("basic.ran");
	return rc;
}

extern "C" void vfh_C17_arith(void)
{
	double x = vf_double("x", -100, 100), y = vf_double("y", -100, 100), z = vf_double("z", -100, 100);
	vf_assume(y > 0.01 || y < -0.01);
	std::ostringstream os; os.precision(17);
	os << "10 a = " << x << "\n20 b = " << y << "\n30 c = " << z << "\n";
	os << "40 d = (a + b) * c - a / b + a ^ 2 - (b - c) * 2\n";
	os << "50 e = -a * b + c - -b\n";
	os << "60 f = a - b - c\n70 g = a / b * c\n";
	os << "80 SAVE d + 1000 * e + 1000000 * f\n";
	Interp I;
	int rc = run(I, os.str());
	vf_check("arith.no_error", rc == 0 && g_err == 0);
	double d = (x + y) * z - x / y + x * x - (y - z) * 2, e = -x * y + z - -y, f = x - y - z;
	vf_close("arith.saved_value", I.p->rate_moles, d + 1000 * e + 1000000 * f, 1e-12, 1e-9);
	std::ostringstream os2; os2.precision(17);
	os2 << "10 a = " << x << "\n20 b = " << y << "\n30 c = " << z << "\n40 SAVE a / b * c\n";
	Interp J;
	rc = run(J, os2.str());
	vf_close("arith.left_to_right", J.p->rate_moles, x / y * z, 1e-12, 1e-12);
}

extern "C" void vfh_C17_logic(void)
{
	static const char *OPS[6] = {"<", "<=", "=", ">=", ">", "<>"};
	double a = vf_double("a", -100, 100), b = vf_double("b", -100, 100);
	int op = (int) vf_int("relation", 0, 5), con = (int) vf_int("connective", 0, 2);
	std::ostringstream os; os.precision(17);
	os << "10 a = " << a << "\n20 b = " << b << "\n";
	os << "30 IF a " << OPS[op] << " b THEN r = 1 ELSE r = 2\n";
	os << "40 IF (a " << OPS[op] << " b) " << (con == 0 ? "AND" : con == 1 ? "OR" : "AND NOT") << " (a > 0) THEN s = 1 ELSE s = 2\n";
	os << "50 SAVE r * 10 + s\n";
	Interp I;
	int rc = run(I, os.str());
	vf_check("logic.no_error", rc == 0 && g_err == 0);
	bool rel = op == 0 ? a < b : op == 1 ? a <= b : op == 2 ? a == b : op == 3 ? a >= b : op == 4 ? a > b : a != b;
	bool pos = a > 0;
	bool both = con == 0 ? (rel && pos) : con == 1 ? (rel || pos) : (rel && !pos);
	vf_close("logic.if_then_else", I.p->rate_moles, (rel ? 1 : 2) * 10 + (both ? 1 : 2), 0, 0);
}

extern "C" void vfh_C17_for(void)
{
	static const int STEPS[4] = {-2, -1, 1, 2};
	int first = (int) vf_int("first", -2, 3), last = (int) vf_int("last", -2, 3), s = STEPS[vf_int("step_case", 0, 3)];
	char prog[256];
	snprintf(prog, sizeof prog, "10 n = 0\n20 t = 0\n30 lo = %d\n40 FOR i = lo TO %d STEP %d\n50 n = n + 1\n60 t = t + i\n70 NEXT i\n80 SAVE n * 1000 + t\n", first, last, s);
	Interp I;
	int rc = run(I, prog);
	vf_check("for.no_error", rc == 0 && g_err == 0);
	int n = 0, t = 0;
	for (int i = first; s > 0 ? i <= last : i >= last; i += s) { n++; t += i; }
	vf_close("for.trips_and_sum", I.p->rate_moles, n * 1000 + t, 0, 0);
}

extern "C" void vfh_C17_strings(void)
{
	int i = (int) vf_int("target", 0, 3), j = (int) vf_int("source", 0, 3);
	char prog[512];
	snprintf(prog, sizeof prog,
		 "10 DIM a$(4)\n20 a$(0) = \"p\"\n30 a$(1) = \"q\"\n40 a$(2) = \"r\"\n50 a$(3) = \"s\"\n"
		 "60 a$(%d) = a$(%d) + \"x\"\n70 PUNCH a$(0), a$(1), a$(2), a$(3)\n", i, j);
	Interp I;
	int rc = run(I, prog);
	vf_check("strings.no_error", rc == 0 && g_err == 0 && g_ncell == 4);
	static const char *OLD[4] = {"p", "q", "r", "s"};
	for (int k = 0; k < 4 && k < g_ncell; k++)
	{
		char want[8];
		if (k == i) snprintf(want, sizeof want, "%sx", OLD[j]); else snprintf(want, sizeof want, "%s", OLD[k]);
		const char *got = g_cell[k];
		while (*got == ' ') got++;
		char trimmed[128]; strncpy(trimmed, got, 127); trimmed[127] = 0;
		char *tab = strchr(trimmed, '\t'); if (tab) *tab = 0;
		vf_check("strings.element_value", strcmp(trimmed, want) == 0);
	}
}

extern "C" void vfh_C05_user_punch(void)
{
	int len = (int) vf_int("string_length", 0, 26), hp = (int) vf_int("high_precision", 0, 1);
	double v = vf_double("value", -1e6, 1e6);
	char s[32];
	for (int k = 0; k < len; k++) s[k] = (char) ('A' + k);
	s[len] = 0;
	std::ostringstream os; os.precision(17);
	os << "10 PUNCH \"" << s << "\", " << v << "\n";
	PHRQ_io io;
	Interp I;
	I.p = new Phreeqc(&I.io);
	I.p->do_initialize();
	I.p->high_precision = hp != 0;
	I.p->current_selected_output = NULL;
	I.b = new PBasic(I.p, &I.io);
	I.ln = I.vb = I.lp = 0;
	std::string prog = os.str();
	int rc = I.b->basic_compile(prog.c_str(), &I.ln, &I.vb, &I.lp);
	char cmd[] = "run";
	if (rc == 0) rc = I.b->basic_run(cmd, I.ln, I.vb, I.lp);
	vf_reach("basic.ran");
	vf_check("punch.no_error", rc == 0 && g_err == 0 && g_ncell == 2);
	int width = hp ? 20 : 12;
	const char *cell = g_cell[0];
	size_t n = strlen(cell);
	vf_check("punch.text_ends_with_tab", n > 0 && cell[n - 1] == '\t');
	vf_check("punch.text_complete", strstr(cell, s) != 0);
	vf_check("punch.text_width", (int) n == (len > width ? len : width) + 1);
	vf_check("punch.number_format", strcmp(g_fmt[1], hp ? "%20.12e\t" : "%12.4e\t") == 0);
	vf_close("punch.number_value", g_num[1], v, 0, 0);
}

static void cell_text(int k, char *out, size_t n)
{
	const char *got = g_cell[k];
	while (*got == ' ') got++;
	strncpy(out, got, n - 1); out[n - 1] = 0;
	char *tab = strchr(out, '\t'); if (tab) *tab = 0;
}

extern "C" void vfh_C17_string_functions(void)
{
	int fn = (int) vf_int("function", 0, 5);
	int i = (fn <= 1 || fn == 3) ? (int) vf_int("position_or_width", -1, 8) : 1;
	int n = fn == 1 ? (int) vf_int("count", 0, 8) : 0;
	std::ostringstream os;
	os << "10 s$ = \"abcde\"\n";
	switch (fn)
	{
	case 0: os << "20 PUNCH \"[\" + MID$(s$, " << i << ") + \"]\"\n"; break;
	case 1: os << "20 PUNCH \"[\" + MID$(s$, " << i << ", " << n << ") + \"]\"\n"; break;
	case 2: os << "20 t$ = \"  \" + s$ + \"   \"\n30 PUNCH \"[\" + LTRIM(t$) + \"]\", \"[\" + RTRIM(t$) + \"]\", \"[\" + TRIM(t$) + \"]\"\n"; break;
	case 3: os << "20 PUNCH \"[\" + PAD(s$, " << i << ") + \"]\"\n"; break;
	case 4: os << "20 PUNCH INSTR(s$, \"cd\"), INSTR(s$, \"x\"), LEN(s$), LEN(\"\")\n"; break;
	default: os << "20 PUNCH \"[\" + CHR$(ASC(\"b\")) + STR$(12) + \"]\"\n"; break;
	}
	Interp I;
	int rc = -99;
	bool threw = false;
	try { rc = run(I, os.str()); } catch (...) { threw = true; }
	vf_check("strings.no_exception_leaves_the_interpreter", !threw);
	if (threw) return;
	vf_check("strings.no_error", rc == 0 && g_err == 0);
	char got[128], want[128];
	static const char *S = "abcde";
	if (fn == 0 || fn == 1)
	{
		int start = i < 1 ? 1 : i, len = 5;
		int cnt = fn == 0 ? len : n;
		want[0] = '['; int w = 1;
		for (int k = start - 1; k < len && k < start - 1 + cnt; k++) want[w++] = S[k];
		want[w++] = ']'; want[w] = 0;
		cell_text(0, got, sizeof got);
		vf_check("strings.mid", g_ncell == 1 && strcmp(got, want) == 0);
	}
	else if (fn == 2)
	{
		cell_text(0, got, sizeof got); vf_check("strings.ltrim", strcmp(got, "[abcde   ]") == 0);
		/* the punched cell is right-aligned: leading blanks of the value itself cannot be told from the alignment; compare the tail */
		vf_check("strings.rtrim", strstr(g_cell[1], "[  abcde]") != 0);
		cell_text(2, got, sizeof got); vf_check("strings.trim", strcmp(got, "[abcde]") == 0);
	}
	else if (fn == 3)
	{
		int width = i > 5 ? i : 5;
		want[0] = '['; for (int k = 0; k < width; k++) want[1 + k] = k < 5 ? S[k] : ' '; want[1 + width] = ']'; want[2 + width] = 0;
		vf_check("strings.pad", g_ncell == 1 && strstr(g_cell[0], want) != 0);
	}
	else if (fn == 4)
		vf_check("strings.instr_len", g_ncell == 4 && g_num[0] == 3 && g_num[1] == 0 && g_num[2] == 5 && g_num[3] == 0);
	else
	{
		cell_text(0, got, sizeof got);
		vf_check("strings.chr_asc_str", strncmp(got, "[b", 2) == 0 && strstr(got, "12") != 0);
	}
}

extern "C" void vfh_C17_nested_for(void)
{
	int k = (int) vf_int("inner_exit_at", 1, 6), shape = (int) vf_int("outer_construct", 0, 1);
	std::ostringstream os;
	os << "10 total = 0\n";
	if (shape == 0) os << "20 FOR i = 1 TO 3\n"; else os << "15 i = 1\n20 WHILE i <= 3\n";
	os << "30 FOR j = 1 TO 5\n40 IF j = " << k << " THEN GOTO 70\n50 total = total + 10 * i + j\n60 NEXT j\n70 total = total + 1000\n";
	if (shape == 0) os << "80 NEXT i\n"; else os << "75 i = i + 1\n80 WEND\n";
	os << "90 SAVE total\n";
	Interp I;
	int rc = -99; bool threw = false;
	try { rc = run(I, os.str()); } catch (...) { threw = true; }
	vf_check("nested.no_error", !threw && rc == 0 && g_err == 0);
	double want = 0;
	for (int i = 1; i <= 3; i++) { for (int j = 1; j <= 5; j++) { if (j == k) break; want += 10 * i + j; } want += 1000; }
	if (!threw) vf_close("nested.accumulated_value", I.p->rate_moles, want, 0, 0);
}
