// @id C01.species_list_once_per_element
// @engine B
// @entry vfh_C01_species_list
// @shared_state_watch
// @tier Q
// @reach species_list.built
// @funcs Phreeqc::build_model; Phreeqc::build_species_list; Phreeqc::add_elt_list; Phreeqc::is_special; Phreeqc::trxn_add; Phreeqc::trxn_copy
// @bounds the real driver of the model set-up (build_model: species selection loop, second half "list of species for summing and printing", final sort) over a table of 7 species: H+, H2O, OH- (made of H+/H2O/e- only), Ca+2 (primary master, no redox states), Fe+2 (secondary master of Fe(2)), FeOH+ and FeCO3 (complexes whose composition is given by a secondary-master list); which of the four non-trivial species are in the model is a case split (16 subsets); element coefficients and the master species' coefficients are symbolic reals in [0.25,4]; no phases, no surfaces
// @oracle the list used to sum species into element totals (and to print the distribution of species) contains, for every species in the model, exactly one entry per element of that species' own composition that is not H/O/e-, pointing at the master species of the element's valence state, with coefficient = master coefficient x stoichiometric coefficient; species made only of H+, H2O and e- get the single H+ entry with coefficient 0; nothing else is in the list. Hence species molalities weighted by stoichiometry add up to the element totals (each species counted once per element)
// @stubs every other routine build_model calls: inout (model membership as chosen), write_mass_action_eqn_x, write_mb_eqn_x and write_mb_for_species_list (put the species' own element list into the work list, as the real routines do after rewriting to the current master species), mb_for_species_*, build_mb_sums, build_jacobian_sums, compute_gfw, the build_* routines for phases/exchange/surface/gas/solid solutions, save_model, error_msg, warning_msg, sformatf, output_msg
// @outside the rewriting of reactions to the current master species, the mass-balance and Jacobian sums (stubbed), surface and exchange species
#include "Phreeqc.h"
#include "vf.h"
#include <new>
#include <string.h>

enum { SP_H, SP_W, SP_OH, SP_CA, SP_FE2, SP_FEOH, SP_FECO3, SP_CO3, SP_E, N_SP };
static const char *SN[N_SP] = {"H+", "H2O", "OH-", "Ca+2", "Fe+2", "FeOH+", "FeCO3", "CO3-2", "e-"};
enum { EL_H, EL_O, EL_CA, EL_FE2, EL_C4, EL_E, N_EL };
static const char *EN[N_EL] = {"H", "O", "Ca", "Fe(2)", "C(4)", "E"};
static class species g_s[N_SP]; static class element g_e[N_EL]; static class master g_m[N_EL];
static int g_in[N_SP]; static int g_errs = 0;

void Phreeqc::error_msg(const char *err_str, bool stop) { g_errs++; vf_event_s("error_msg", err_str); }
int Phreeqc::warning_msg(const char *err_str) { return OK; }
char *Phreeqc::sformatf(const char *format, ...) { static char b[4] = "msg"; return b; }
void Phreeqc::output_msg(const char *str) { }
int Phreeqc::inout(void) { return g_in[trxn.token[0].s - g_s]; }
int Phreeqc::write_mass_action_eqn_x(int stop) { return OK; }
static int own_composition(Phreeqc *p)
{
	class species *sp = p->trxn.token[0].s;
	p->count_elts = 0;
	return p->add_elt_list(sp->next_elt, 1.0);
}
int Phreeqc::write_mb_eqn_x(void) { return own_composition(this); }
int Phreeqc::write_mb_for_species_list(int n) { return own_composition(this); }
int Phreeqc::mb_for_species_aq(int n) { return OK; }
int Phreeqc::mb_for_species_ex(int n) { return OK; }
int Phreeqc::mb_for_species_surf(int n) { return OK; }
int Phreeqc::build_mb_sums(void) { return OK; }
int Phreeqc::build_jacobian_sums(int k) { return OK; }
int Phreeqc::compute_gfw(const char *string, LDBLE *gfw) { *gfw = 18.0; return OK; }
int Phreeqc::build_solution_phase_boundaries(void) { return OK; }
int Phreeqc::build_pure_phases(void) { return OK; }
int Phreeqc::build_min_exch(void) { return OK; }
int Phreeqc::build_min_surface(void) { return OK; }
int Phreeqc::build_gas_phase(void) { return OK; }
int Phreeqc::build_ss_assemblage(void) { return OK; }
int Phreeqc::save_model(void) { return OK; }

static void rxn(class species &sp, int n, const int *who, const double *coef)
{
	sp.rxn_s.token.clear();
	class rxn_token t;
	t.s = &sp; t.coef = 1; t.name = sp.name; sp.rxn_s.token.push_back(t);
	for (int i = 0; i < n; i++) { t.s = &g_s[who[i]]; t.coef = coef[i]; t.name = g_s[who[i]].name; sp.rxn_s.token.push_back(t); }
	t.s = NULL; t.coef = 0; t.name = NULL; sp.rxn_s.token.push_back(t);
}
static void elts(std::vector<class elt_list> &v, int n, const int *el, const double *coef)
{
	class elt_list e;
	v.clear();
	for (int i = 0; i < n; i++) { e.elt = &g_e[el[i]]; e.coef = coef[i]; v.push_back(e); }
	e.elt = NULL; e.coef = 0; v.push_back(e);
}

extern "C" void vfh_C01_species_list(void)
{
	Phreeqc *p = (Phreeqc *) vf_raw(sizeof(Phreeqc));
	new (&p->s) std::vector<class species *>();
	new (&p->s_x) std::vector<class species *>();
	new (&p->phases) std::vector<class phase *>();
	new (&p->species_list) std::vector<class species_list>();
	new (&p->elt_list) std::vector<class elt_list>();
	new (&p->trxn) reaction_temp();
	new (&p->sum_species_map_db) std::map<std::string, std::vector<std::string> >();
	new (&p->sum_species_map) std::map<std::string, std::vector<std::string> >();
	new (&p->sum_mb1) std::vector<class list1>();
	new (&p->sum_mb2) std::vector<class list2>();
	new (&p->sum_jacob0) std::vector<class list0>();
	new (&p->sum_jacob1) std::vector<class list1>();
	new (&p->sum_jacob2) std::vector<class list2>();
	new (&p->sum_delta) std::vector<class list2>();
	p->dl_type_x = cxxSurface::NO_DL; p->pitzer_model = FALSE; p->sit_model = FALSE;

	double mc_ca = vf_double("master_coef_Ca", 0.25, 4), mc_fe = vf_double("master_coef_Fe2", 0.25, 4), mc_c = vf_double("master_coef_C4", 0.25, 4);
	double nu_feoh = vf_double("Fe_in_FeOH", 0.25, 4), nu_fe_c = vf_double("Fe_in_FeCO3", 0.25, 4), nu_c = vf_double("C_in_FeCO3", 0.25, 4);
	for (int i = 0; i < N_SP; i++) { g_s[i].name = SN[i]; g_s[i].type = AQ; g_in[i] = 1; }
	g_s[SP_H].type = HPLUS; g_s[SP_W].type = H2O; g_s[SP_E].type = EMINUS;
	for (int i = 0; i < N_EL; i++) { g_e[i].name = EN[i]; g_e[i].master = g_e[i].primary = &g_m[i]; g_m[i].elt = &g_e[i]; g_m[i].coef = 1.0; g_m[i].primary = TRUE; }
	g_m[EL_H].s = &g_s[SP_H]; g_m[EL_O].s = &g_s[SP_W]; g_m[EL_CA].s = &g_s[SP_CA]; g_m[EL_FE2].s = &g_s[SP_FE2]; g_m[EL_C4].s = &g_s[SP_CO3]; g_m[EL_E].s = &g_s[SP_E];
	g_m[EL_CA].coef = mc_ca; g_m[EL_FE2].coef = mc_fe; g_m[EL_C4].coef = mc_c;
	g_m[EL_FE2].primary = FALSE; g_m[EL_C4].primary = FALSE;
	g_s[SP_H].primary = &g_m[EL_H]; g_s[SP_W].primary = &g_m[EL_O]; g_s[SP_CA].primary = &g_m[EL_CA]; g_s[SP_E].primary = &g_m[EL_E];
	g_s[SP_FE2].secondary = &g_m[EL_FE2]; g_s[SP_CO3].secondary = &g_m[EL_C4];
	p->s_hplus = &g_s[SP_H]; p->s_h2o = &g_s[SP_W]; p->s_eminus = &g_s[SP_E];

	static const double one[3] = {1, 1, -1};
	{ int w[1] = {SP_H}; rxn(g_s[SP_H], 1, w, one); int e[1] = {EL_H}; elts(g_s[SP_H].next_elt, 1, e, one); }
	{ int w[1] = {SP_W}; rxn(g_s[SP_W], 1, w, one); int e[2] = {EL_H, EL_O}; double c[2] = {2, 1}; elts(g_s[SP_W].next_elt, 2, e, c); }
	{ int w[2] = {SP_W, SP_H}; double c[2] = {1, -1}; rxn(g_s[SP_OH], 2, w, c); int e[2] = {EL_H, EL_O}; elts(g_s[SP_OH].next_elt, 2, e, one); }
	{ int w[1] = {SP_CA}; rxn(g_s[SP_CA], 1, w, one); int e[1] = {EL_CA}; elts(g_s[SP_CA].next_elt, 1, e, one); }
	{ int w[1] = {SP_FE2}; rxn(g_s[SP_FE2], 1, w, one); int e[1] = {EL_FE2}; elts(g_s[SP_FE2].next_elt, 1, e, one); elts(g_s[SP_FE2].next_secondary, 1, e, one); }
	{ int w[3] = {SP_FE2, SP_W, SP_H}; rxn(g_s[SP_FEOH], 3, w, one); int e[3] = {EL_FE2, EL_H, EL_O}; double c[3] = {nu_feoh, 1, 1};
	  elts(g_s[SP_FEOH].next_elt, 3, e, c); elts(g_s[SP_FEOH].next_secondary, 3, e, c); }
	{ int w[2] = {SP_FE2, SP_CO3}; rxn(g_s[SP_FECO3], 2, w, one); int e[3] = {EL_FE2, EL_C4, EL_O}; double c[3] = {nu_fe_c, nu_c, 3};
	  elts(g_s[SP_FECO3].next_elt, 3, e, c); elts(g_s[SP_FECO3].next_secondary, 3, e, c); }
	{ int w[1] = {SP_CO3}; rxn(g_s[SP_CO3], 1, w, one); int e[2] = {EL_C4, EL_O}; double c[2] = {1, 3}; elts(g_s[SP_CO3].next_elt, 2, e, c); }
	{ int w[1] = {SP_E}; rxn(g_s[SP_E], 1, w, one); int e[1] = {EL_E}; elts(g_s[SP_E].next_elt, 1, e, one); }
	static const int ORDER[7] = {SP_CA, SP_FE2, SP_FECO3, SP_FEOH, SP_H, SP_W, SP_OH};      /* the table is kept in name order */
	for (int i = 0; i < 7; i++) p->s.push_back(&g_s[ORDER[i]]);
	g_in[SP_CA] = (int) vf_int("Ca_in_model", 0, 1); g_in[SP_FE2] = (int) vf_int("Fe2_in_model", 0, 1);
	g_in[SP_FEOH] = (int) vf_int("FeOH_in_model", 0, 1); g_in[SP_FECO3] = (int) vf_int("FeCO3_in_model", 0, 1);

	int rc = p->build_model();
	vf_reach("species_list.built");
	vf_check("species_list.rc", rc == OK && g_errs == 0);
	/* expected entries: (species, master species, coefficient) */
	struct Want { int sp, ms; double coef; } want[12]; int nw = 0;
	if (g_in[SP_CA]) { want[nw].sp = SP_CA; want[nw].ms = SP_CA; want[nw].coef = mc_ca * 1.0; nw++; }
	if (g_in[SP_FE2]) { want[nw].sp = SP_FE2; want[nw].ms = SP_FE2; want[nw].coef = mc_fe * 1.0; nw++; }
	if (g_in[SP_FECO3]) { want[nw].sp = SP_FECO3; want[nw].ms = SP_FE2; want[nw].coef = mc_fe * nu_fe_c; nw++;
	                       want[nw].sp = SP_FECO3; want[nw].ms = SP_CO3; want[nw].coef = mc_c * nu_c; nw++; }
	if (g_in[SP_FEOH]) { want[nw].sp = SP_FEOH; want[nw].ms = SP_FE2; want[nw].coef = mc_fe * nu_feoh; nw++; }
	want[nw].sp = SP_H; want[nw].ms = SP_H; want[nw].coef = 0; nw++;
	want[nw].sp = SP_W; want[nw].ms = SP_H; want[nw].coef = 0; nw++;
	want[nw].sp = SP_OH; want[nw].ms = SP_H; want[nw].coef = 0; nw++;
	vf_check("species_list.entry_count", (int) p->species_list.size() == nw);
	for (int k = 0; k < nw; k++)
	{
		int hits = 0; double coef = -1;
		for (size_t i = 0; i < p->species_list.size(); i++)
			if (p->species_list[i].s == &g_s[want[k].sp] && p->species_list[i].master_s == &g_s[want[k].ms]) { hits++; coef = p->species_list[i].coef; }
		vf_check("species_list.one_entry_per_species_and_element", hits == 1);
		vf_close("species_list.coefficient", coef, want[k].coef, 1e-12, 0);
	}
	vf_check("species_list.model_species", (int) p->s_x.size() == 3 + g_in[SP_CA] + g_in[SP_FE2] + g_in[SP_FEOH] + g_in[SP_FECO3]);
}
