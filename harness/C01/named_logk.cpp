// @id C01.named_logk
// @engine B
// @entry vfh_C01_named_logk
// @shared_state_watch
// @tier Q
// @reach logk.tidied
// @funcs Phreeqc::tidy_logk; Phreeqc::add_logks; Phreeqc::select_log_k_expression; Phreeqc::add_other_logk
// @bounds three NAMED_EXPRESSIONS a, b = own + cb*a, c = own + c1*b + c2*a stored in the table in an arbitrary order (6 permutations, case split) so that the recursive evaluation is exercised; per expression the terms logK_T0, delta_h, A1, A3 (quick: A3 only for expression a and the species) and delta_v are symbolic in [-100,100] (A1/A3 may be zero or not: analytical expression chosen or not), the other terms 0; coefficients from two fixed sets {2,-1.5,0.5,3} / {-0.5,3,1,-2} (keeps the arithmetic linear); tidy_logk is run twice, the first time from arbitrary 'done' marks (what an earlier tidy, or none, left behind); then one species with -add_logk c is resolved
// @oracle the constant the database text prescribes: after every tidy, for every term j, a = sel(a_text), b = sel(b_text) + cb*a, c = sel(c_text) + c1*b + c2*a, where sel keeps the analytical expression if the text gives one and log K/delta H otherwise (exact real arithmetic, tolerance 1e-9); the result of the second tidy equals the first (idempotent re-tidy when another simulation adds named expressions); the species constant is sel(species_text) + cs*c
// @stubs Phreeqc::error_msg, sformatf (no error is expected: counted)
// @opts presplit=0
// @outside reading the text into log_k_original (read_named_logk), more than three expressions, circular definitions
#include "Phreeqc.h"
#include "vf.h"
#include <new>
#include <string.h>
#ifndef VF_TIER
#define VF_TIER 1
#endif

static int g_errs = 0;
void Phreeqc::error_msg(const char *err_str, bool stop) { g_errs++; vf_event_s("error_msg", err_str); }
char *Phreeqc::sformatf(const char *format, ...) { static char b[4] = "msg"; return b; }

static const int IDX[5] = {logK_T0, delta_h, T_A1, T_A3, delta_v};
static void text(class logk *l, const char *pre, double out[MAX_LOG_K_INDICES])
{
	static const char *N[5] = {"logK_T0", "delta_h", "A1", "A3", "delta_v"};
	char nm[32];
	for (int j = 0; j < MAX_LOG_K_INDICES; j++) out[j] = 0.0;
	for (int k = 0; k < 5; k++)
	{
#if VF_TIER < 2
		/* quick: the second analytical coefficient is symbolic for expression a and for the species only */
		if (IDX[k] == T_A3 && strcmp(pre, "a") != 0 && strcmp(pre, "species") != 0) continue;
#endif
		strcpy(nm, pre); strcat(nm, "_"); strcat(nm, N[k]);
		out[IDX[k]] = vf_double(nm, -100, 100);
	}
	if (l) for (int j = 0; j < MAX_LOG_K_INDICES; j++) { l->log_k_original[j] = out[j]; l->log_k[j] = 12345.0 + j; /* stale */ }
}
static void sel(const double in[MAX_LOG_K_INDICES], double out[MAX_LOG_K_INDICES])
{
	bool analytic = in[T_A1] != 0.0 || in[T_A3] != 0.0;
	for (int j = 0; j < MAX_LOG_K_INDICES; j++) out[j] = in[j];
	if (analytic) { out[logK_T0] = 0.0; out[delta_h] = 0.0; }
	else { for (int j = T_A1; j <= T_A6; j++) out[j] = 0.0; }
}

extern "C" void vfh_C01_named_logk(void)
{
	Phreeqc *p = (Phreeqc *) vf_raw(sizeof(Phreeqc));
	new (&p->logk) std::vector<class logk *>();
	new (&p->logk_map) std::map<std::string, class logk *>();
	class logk *L[3];
	static const char *NM[3] = {"a", "b", "c"};
	double T[3][MAX_LOG_K_INDICES], S[3][MAX_LOG_K_INDICES], R[3][MAX_LOG_K_INDICES];
	for (int i = 0; i < 3; i++) { L[i] = new logk; L[i]->name = NM[i]; text(L[i], NM[i], T[i]); sel(T[i], S[i]); p->logk_map[NM[i]] = L[i]; }
	/* coefficients from two fixed sets (products of two symbolic reals would make every query nonlinear) */
	int cset = (int) vf_int("coefficient_set", 0, 1);
	double cb = cset ? -0.5 : 2.0, c1 = cset ? 3.0 : -1.5, c2 = cset ? 1.0 : 0.5;
	class name_coef nc;
	nc.name = "A"; nc.coef = cb; L[1]->add_logk.push_back(nc);          /* names are matched case-insensitively */
	nc.name = "b"; nc.coef = c1; L[2]->add_logk.push_back(nc);
	nc.name = "a"; nc.coef = c2; L[2]->add_logk.push_back(nc);
	static const int PERM[6][3] = {{0, 1, 2}, {0, 2, 1}, {1, 0, 2}, {1, 2, 0}, {2, 0, 1}, {2, 1, 0}};
	int perm = (int) vf_int("table_order", 0, 5);
	for (int i = 0; i < 3; i++) p->logk.push_back(L[PERM[perm][i]]);
	L[0]->done = (int) vf_int("stale_done_a", 0, 1); L[1]->done = (int) vf_int("stale_done_b", 0, 1); L[2]->done = (int) vf_int("stale_done_c", 0, 1);
	for (int j = 0; j < MAX_LOG_K_INDICES; j++)
	{
		R[0][j] = S[0][j];
		R[1][j] = S[1][j] + cb * R[0][j];
		R[2][j] = S[2][j] + c1 * R[1][j] + c2 * R[0][j];
	}
	for (int round = 0; round < 2; round++)
	{
		p->tidy_logk();
		for (int k = 0; k < 5; k++)
		{
			int j = IDX[k];
			vf_close(round ? "logk.a_second_tidy" : "logk.a", L[0]->log_k[j], R[0][j], 1e-9, 1e-9);
			vf_close(round ? "logk.b_second_tidy" : "logk.b", L[1]->log_k[j], R[1][j], 1e-9, 1e-9);
			vf_close(round ? "logk.c_second_tidy" : "logk.c", L[2]->log_k[j], R[2][j], 1e-9, 1e-9);
		}
		vf_check("logk.untouched_terms_zero", L[2]->log_k[T_A2] == 0.0 && L[2]->log_k[T_A6] == 0.0 && L[1]->log_k[T_A4] == 0.0);
	}
	vf_reach("logk.tidied");
	/* a species whose constant adds the named expression c (check_species_input) */
	double st[MAX_LOG_K_INDICES], ss[MAX_LOG_K_INDICES], sk[MAX_LOG_K_INDICES];
	text(NULL, "species", st); sel(st, ss);
	double cs = cset ? -2.0 : 3.0;
	std::vector<class name_coef> add; nc.name = "C"; nc.coef = cs; add.push_back(nc);
	for (int j = 0; j < MAX_LOG_K_INDICES; j++) sk[j] = 777.0;
	p->select_log_k_expression(st, sk);
	vf_check("logk.species_add_ok", p->add_other_logk(sk, add) == OK);
	for (int k = 0; k < 5; k++)
		vf_close("logk.species", sk[IDX[k]], ss[IDX[k]] + cs * R[2][IDX[k]], 1e-9, 1e-9);
	vf_check("logk.no_errors", g_errs == 0);
}
