// @id C01.k_calc
// @engine B
// @entry vfh_C01_k_calc
// @shared_state_watch
// @tier Q
// @reach k_calc.returned
// @funcs Phreeqc::k_calc
// @bounds 9 log-K coefficients in [-1e6,1e6]; T in [273.15,573.15] K; P in [1e5,1e8] Pa; no loops
// @oracle van 't Hoff + 6-term analytical expression + pressure term (PHREEQC manual eq. for log K(T,P)), tolerance 1e-9 abs + 1e-9 rel
// @outside database text -> coefficient parsing; IEEE rounding
#include "Phreeqc.h"
#include "vf.h"
#include <math.h>

extern "C" void vfh_C01_k_calc(void)
{
	Phreeqc *p = (Phreeqc *) vf_raw(sizeof(Phreeqc));
	p->LOG_10 = 2.302585092994046;   /* the constructor computes log(10.0) */
	double lk[MAX_LOG_K_INDICES];
	for (int i = 0; i < MAX_LOG_K_INDICES; i++) lk[i] = 0.0;
	double logk0 = lk[logK_T0] = vf_double("logK_T0", -1e6, 1e6);
	double dh    = lk[delta_h] = vf_double("delta_h", -1e6, 1e6);
	double a1 = lk[T_A1] = vf_double("A1", -1e6, 1e6);
	double a2 = lk[T_A2] = vf_double("A2", -1e6, 1e6);
	double a3 = lk[T_A3] = vf_double("A3", -1e6, 1e6);
	double a4 = lk[T_A4] = vf_double("A4", -1e6, 1e6);
	double a5 = lk[T_A5] = vf_double("A5", -1e6, 1e6);
	double a6 = lk[T_A6] = vf_double("A6", -1e6, 1e6);
	double dv = lk[delta_v] = vf_double("delta_v", -1e6, 1e6);
	double T = vf_double("T", 273.15, 573.15);
	double P = vf_double("P", 1e5, 1e8);

	double impl = p->k_calc(lk, T, P);

	const double R = 8.3147e-3;        /* kJ/(K mol) as used by PHREEQC */
	const double ln10 = 2.302585092994046;
	/* van 't Hoff: dH/(ln10 R) (1/298.15 - 1/T) == dH (T-298.15)/(ln10 R T 298.15); written without
	   constant-only subexpressions so the compiler folds nothing and equality is exact over the reals */
	double ref = logk0 + dh * (T - 298.15) / (ln10 * (R * (T * 298.15)))
	    + a1 + a2 * T + a3 / T + a4 * log10(T) + a5 / (T * T) + a6 * T * T;
	if (P > 101325.0)
		ref -= dv * 1e-9 * (P - 101325.0) / (ln10 * (R * T));
	vf_reach("k_calc.returned");
	vf_close("k_calc.logK(T,P)", impl, ref, 1e-9, 1e-9);
}
