// @static_init ALL
// @id C01.named_expression_text
// @engine B
// @entry vfh_C01_read_named
// @shared_state_watch
// @tier Q
// @opts max_steps=30000000
// @reach named.read
// @funcs Phreeqc::read_named_logk; Phreeqc::read_analytical_expression_only; Phreeqc::logk_store; Phreeqc::logk_copy2orig
// @bounds one NAMED_EXPRESSIONS entry read by the real input reader into a really constructed engine: the temperature dependence is given either as -analytical_expression or as -ln_alpha1000 with 1..6 coefficients, the k-th coefficient (k in 1..6, case split) being the only non-zero one among those given, or all six given; optionally preceded by a log_k line
// @oracle the stored expression is the one the text prescribes: -analytical_expression stores the six coefficients A1..A6 of log10 K as written (missing ones 0); -ln_alpha1000 gives 1000 ln(alpha) with the same six-term form, so every one of the six stored log10 coefficients is the written one divided by 1000 ln(10); a log_k line is kept next to the expression; the copy used to restore the definition in later runs equals the stored one
// @stubs PHRQ_io::error_msg / warning_msg / output_msg / echo_msg (events)
// @outside evaluation of the expression (C01.k_calc, C01.named_logk)
#include "Phreeqc.h"
#include "vf.h"
#include <new>
#include <sstream>
#include <string.h>

static int g_err = 0;
void PHRQ_io::error_msg(const char *err_str, bool stop) { g_err++; vf_event_s("error_msg", err_str); }
void PHRQ_io::warning_msg(const char *err_str) { vf_event_s("warning_msg", err_str); }
void PHRQ_io::output_msg(const char *str) {}
void PHRQ_io::echo_msg(const char *str) {}

extern "C" void vfh_C01_read_named(void)
{
	PHRQ_io io;
	Phreeqc *p = new Phreeqc(&io);
	p->do_initialize();
	int alpha = (int) vf_int("given_as_ln_alpha1000", 0, 1);
	int k = (int) vf_int("nonzero_coefficient", 0, 6);       /* 0: all six non-zero */
	int with_logk = (int) vf_int("log_k_line", 0, 1);
	static const char *COEF[7] = {"12.5 0.25 -3000 4.5 250000 -1.5e-05", "12.5", "0 0.25", "0 0 -3000", "0 0 0 4.5", "0 0 0 0 250000", "0 0 0 0 0 -1.5e-05"};
	static const double VAL[6] = {12.5, 0.25, -3000, 4.5, 250000, -1.5e-05};
	std::string text = "Xfrac\n";
	if (with_logk) text += " log_k -1.25\n";
	text += std::string(alpha ? " -ln_alpha1000 " : " -analytical_expression ") + COEF[k] + "\nEND\n";
	std::istringstream is(text);
	io.push_istream(&is, false);
	int rv = p->read_named_logk();
	io.pop_istream();
	vf_reach("named.read");
	vf_check("named.block_read", (rv == KEYWORD || rv == EOF) && g_err == 0 && p->input_error == 0);
	class logk *l = p->logk_search("Xfrac");
	vf_check("named.stored", l != NULL);
	if (!l) return;
	const double scale = alpha ? 1000.0 * 2.302585092994046 : 1.0;
	for (int i = 0; i < 6; i++)
	{
		double want = (k == 0 || k == i + 1) ? VAL[i] / scale : 0.0;
		vf_close("named.coefficient_as_the_text_prescribes", l->log_k[T_A1 + i], want, 1e-13, 0);
		vf_check("named.copy_for_later_runs_equals_stored", l->log_k_original[T_A1 + i] == l->log_k[T_A1 + i]);
	}
	vf_close("named.log_k_line_kept", l->log_k[logK_T0], with_logk ? -1.25 : 0.0, 0, 0);
}
