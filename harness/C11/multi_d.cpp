// @static_init NameDouble.cxx Solution.cxx Utils.cxx
// @id C11.mcd_transfer_conserves
// @engine B
// @entry vfh_C11_mcd_transfer
// @shared_state_watch
// @tier Q
// @opts budget_s=300
// @reach mcd.done
// @funcs Phreeqc::multi_D; Phreeqc::fill_m_s
// @bounds multicomponent diffusion step of a 2-cell column (+2 boundary cells) with first/last boundary condition each constant or closed (case split: 1..3 active interfaces); across every active interface the species fluxes are arbitrary: NO3-, Na+, HCO3-, Cl- with symbolic amounts in [0,0.2] mol (what find_J computes); cell 1 holds Cl, N(5), Na, C(4), Ca; cell 2 holds either the same totals or only Cl, Na, Ca (so N and C arrive in a cell that has names starting with the same letter: Na, Ca); all amounts symbolic >= 1 mol (no negative-concentration repair)
// @oracle only dissolved mass is moved: for every element (all valence states of an element summed: N = N + N(5) + N(-3) ..., but Na is not N and Ca is not C), the amount in a cell changes by exactly formula coefficient x (flux in - flux out) over its active interfaces, total H and total O likewise, elements that are in no moving species are untouched, boundary cells are untouched, and with closed boundaries the column inventory of every element is constant (relative 1e-9)
// @stubs Phreeqc::find_J (environment: fills ct[icell].J_ij with the symbolic fluxes), get_elts_in_species (formula table for the four species), error_msg, warning_msg, sformatf
// @outside find_J itself (Vinograd-McBain fluxes, 900 lines of floating point), stagnant zones, electro-migration (dV_dcell), the implicit solver
// @id C06.transport_state_per_instance
// @engine B
// @entry vfh_C06_mcd_state
// @tier Q
// @opts budget_s=300 watch=1 confirm=stress:harness/C06/stress_transport.cpp
// @reach mcd.done
// @funcs Phreeqc::multi_D; Phreeqc::fill_m_s
// @bounds the same multicomponent-diffusion step as C11.mcd_transfer_conserves, executed with every store monitored: a store to a process-wide mutable object of the library (a namespace-scope or static variable that is not a harness object, not a constant, not a vtable) while no mutex is held is reported (Eraser-style lock discipline: holds or fails for any number of threads)
// @oracle engine state is per instance (C06): the transport step writes only to the instance it runs on, to memory that instance owns, or to shared objects under a lock. A reported store is confirmed by running 6 threads x 6 multicomponent-diffusion TRANSPORT runs, one instance per thread, against the library built from the same IR, and comparing every result with the single-threaded reference (harness/C06/stress_transport.cpp)
// @stubs as C11.mcd_transfer_conserves
// @outside stores through pointers held in shared variables (the pointed-to heap blocks), reads of shared state, the other transport routines
#include "Phreeqc.h"
#include "Solution.h"
#include "cxxMix.h"
#include "vf.h"
#include <new>
#include <string.h>

static class element g_el[6];
static const char *EL[6] = {"N", "O", "Na", "H", "C", "Cl"};
enum { E_N, E_O, E_NA, E_H, E_C, E_CL };
static const char *SP[4] = {"NO3-", "Na+", "HCO3-", "Cl-"};
static const double NU[4][6] = {{1, 3, 0, 0, 0, 0}, {0, 0, 1, 0, 0, 0}, {0, 3, 0, 1, 1, 0}, {0, 0, 0, 0, 0, 1}};
static double g_flux[4];
static Phreeqc *g_p;
static int g_errs = 0, g_interfaces = 0, g_seen[4];

void Phreeqc::error_msg(const char *err_str, bool stop) { g_errs++; vf_event_s("error_msg", err_str); }
int Phreeqc::warning_msg(const char *err_str) { g_errs++; vf_event_s("warning_msg", err_str); return OK; }
char *Phreeqc::sformatf(const char *format, ...) { static char b[4] = "msg"; return b; }
int Phreeqc::get_elts_in_species(const char **t_ptr, LDBLE coef)
{
	int k = -1;
	for (int i = 0; i < 4; i++) if (!strcmp(*t_ptr, SP[i])) k = i;
	if (k < 0) vf_fail("unknown species in get_elts_in_species stub");
	for (int e = 0; e < 6; e++)
	{
		if (NU[k][e] == 0) continue;
		if (count_elts + 1 >= elt_list.size()) elt_list.resize(count_elts + 2);
		elt_list[count_elts].elt = &g_el[e];
		elt_list[count_elts].coef = NU[k][e] * coef;
		count_elts++;
	}
	return OK;
}
LDBLE Phreeqc::find_J(int icell, int jcell, LDBLE mixf, LDBLE DDt, int stagnant)
{
	/* the environment: some amount of every species crosses the interface icell -> jcell */
	g_interfaces++;
	if (icell >= 0 && icell < 4) g_seen[icell] = 1;
	class J_ij *J = (class J_ij *) PHRQ_malloc(4 * sizeof(class J_ij));
	if (J == NULL) vf_fail("malloc");
	for (int j = 0; j < 4; j++) { J[j].name = SP[j]; J[j].tot1 = g_flux[j]; J[j].tot2 = g_flux[j]; J[j].tot_stag = 0; J[j].charge = 0; }
	g_p->ct[icell].J_ij = J; g_p->ct[icell].J_ij_count_spec = 4;
	return 0;          /* no interlayer diffusion */
}

static double elsum(cxxSolution &s, const char *el)
{
	size_t n = strlen(el);
	double t = 0;
	for (cxxNameDouble::iterator it = s.Get_totals().begin(); it != s.Get_totals().end(); it++)
	{
		const char *k = it->first.c_str();
		if (strncmp(k, el, n) == 0 && (k[n] == 0 || k[n] == '(')) t += it->second;
	}
	return t;
}

static int g_watch = 0;
static void mcd_step(void);
extern "C" void vfh_C11_mcd_transfer(void) { g_watch = 0; mcd_step(); }
extern "C" void vfh_C06_mcd_state(void) { g_watch = 1; mcd_step(); }
static void mcd_step(void)
{
	Phreeqc *p = (Phreeqc *) vf_raw(sizeof(Phreeqc));
	new (&p->Rxn_solution_map) std::map<int, cxxSolution>();
	new (&p->Rxn_mix_map) std::map<int, cxxMix>();
	new (&p->elt_list) std::vector<class elt_list>();
	new (&p->use) cxxUse();
	for (int e = 0; e < 6; e++) g_el[e].name = EL[e];
	p->count_cells = 2; p->all_cells = 4; p->implicit = FALSE; p->nmix = 1;
	p->bcon_first = (int) vf_int("bcon_first", 1, 2);        /* 1 constant, 2 closed */
	p->bcon_last = (int) vf_int("bcon_last", 1, 2);
	int sparse = (int) vf_int("cell2_lacks_N_and_C", 0, 1);
	for (int j = 0; j < 4; j++) g_flux[j] = 0;
	g_flux[0] = vf_double("flux_NO3", 0, 0.2); g_flux[1] = vf_double("flux_Na", 0, 0.2);
	g_flux[2] = vf_double("flux_HCO3", 0, 0.2); g_flux[3] = vf_double("flux_Cl", 0, 0.2);
	g_p = p;
	new (&p->cell_J_ij) std::map<int, std::map<std::string, J_ij_save> >();
	p->ct = (struct CT *) vf_raw(4 * sizeof(struct CT));
	p->count_moles_added = 8;
	p->moles_added = (struct MOLES_ADDED *) vf_raw(8 * sizeof(struct MOLES_ADDED));
	p->dV_dcell = 0;
	static const char *KEYS[5] = {"Cl", "N(5)", "Na", "C(4)", "Ca"};
	static const char *VN[4][5] = {{"b0_Cl", "b0_N5", "b0_Na", "b0_C4", "b0_Ca"}, {"c1_Cl", "c1_N5", "c1_Na", "c1_C4", "c1_Ca"},
		{"c2_Cl", "c2_N5", "c2_Na", "c2_C4", "c2_Ca"}, {"b3_Cl", "b3_N5", "b3_Na", "b3_C4", "b3_Ca"}};
	double before[4][8], h0[4], o0[4];
	static const char *ELS[7] = {"N", "Na", "C", "Ca", "Cl", "H", "O"};
	for (int c = 0; c < 4; c++)
	{
		cxxSolution s; s.Set_n_user(c); s.Set_n_user_end(c);
		for (int k = 0; k < 5; k++)
		{
			if (c == 2 && sparse && (k == 1 || k == 3)) continue;
			s.Get_totals()[KEYS[k]] = vf_double(VN[c][k], 1, 10);
		}
		h0[c] = 111.0 + c; o0[c] = 55.5 + c;
		s.Set_total_h(h0[c]); s.Set_total_o(o0[c]);
		p->Rxn_solution_map[c] = s;
		for (int e = 0; e < 5; e++) before[c][e] = elsum(p->Rxn_solution_map[c], ELS[e]);
	}

	if (g_watch) vf_watch_shared_state(1);
	int rc = p->multi_D(1.0, 1, 0);
	vf_watch_shared_state(0);
	vf_reach("mcd.done");
	vf_check("mcd.rc", rc == OK && g_errs == 0);
	int act[3];       /* interface i between cells i and i+1 */
	act[0] = p->bcon_first == 1; act[1] = 1; act[2] = p->bcon_last == 1;
	vf_check("mcd.interfaces_visited", g_interfaces == act[0] + act[1] + act[2]);
	static const int SPEL[5][2] = {{0, E_N}, {1, E_NA}, {2, E_C}, {-1, -1}, {3, E_CL}};   /* element -> the species that carries it */
	double inventory_before[5] = {0, 0, 0, 0, 0}, inventory_after[5] = {0, 0, 0, 0, 0};
	for (int c = 0; c < 4; c++)
	{
		cxxSolution &s = p->Rxn_solution_map[c];
		double net = (c == 0 || c == 3) ? 0.0 : (double) (act[c - 1] - act[c]);   /* flux in - flux out, in units of the flux */
		for (int e = 0; e < 5; e++)
		{
			double moved = SPEL[e][0] < 0 ? 0.0 : g_flux[SPEL[e][0]] * net;
			double after = elsum(s, ELS[e]);
			vf_close(c == 0 || c == 3 ? "mcd.boundary_cells_untouched" :
			         e == 3 ? "mcd.element_not_moving_untouched" : "mcd.element_change_equals_net_flux", after, before[c][e] + moved, 1e-9, 1e-12);
			if (c == 1 || c == 2) { inventory_before[e] += before[c][e]; inventory_after[e] += after; }
		}
		double dh = g_flux[2] * net, dox = (3 * g_flux[0] + 3 * g_flux[2]) * net;
		vf_close("mcd.total_H_change_equals_net_flux", s.Get_total_h(), h0[c] + dh, 1e-9, 1e-12);
		vf_close("mcd.total_O_change_equals_net_flux", s.Get_total_o(), o0[c] + dox, 1e-9, 1e-12);
	}
	if (!act[0] && !act[2])
		for (int e = 0; e < 5; e++)
			vf_close("mcd.closed_column_inventory_constant", inventory_after[e], inventory_before[e], 1e-9, 0);
}
