// @static_init NameDouble.cxx Solution.cxx Utils.cxx
// @id C11.implicit_diffusion_conserves
// @engine B
// @entry vfh_C11_implicit
// @shared_state_watch
// @tier Q
// @opts max_steps=40000000 budget_s=400
// @reach implicit.done
// @funcs Phreeqc::diffuse_implicit; Phreeqc::fill_m_s
// @bounds one implicit multicomponent-diffusion step (diffuse_implicit) of a column of 2..3 cells plus the two boundary cells, without stagnant zones, electrical field or fixed current; first and last boundary condition each constant, closed or flux (3 x 3, case split); four diffusing species Na+, Cl-, CO2, B(OH)3; the interface coefficients b_ij (what find_J computes) and the concentrations of the two ions are concrete numbers (their flux correction for electro-neutrality is a quotient of concentrations), the concentrations of the two neutral species are symbolic in [0,0.1] in every cell, the element totals of every solution (Na, Cl, C, B, total H, total O) are symbolic in [1,10] mol (no negative-concentration repair)
// @oracle only dissolved mass is moved and nothing is lost at an interface: for every cell of the column and every element (Na, Cl, C, B, H, O) the amount after the step is the amount before + formula coefficient x (species flux in - species flux out) over the interfaces that are open, the species fluxes being the ones the step itself reports; boundary solutions are untouched; with both ends closed the column inventory of every element is constant; and for a neutral species the new concentrations solve the implicit scheme c_new - c_old = mixf(left) (c_new(left) - c_new) + mixf(right) (c_new(right) - c_new) with the reported flux -mixf (c_new(right) - c_new) (relative 1e-9)
// @stubs Phreeqc::find_J (environment: sets the interface coefficients b_ij, charge numbers and water masses), get_elts_in_species (formula table for the four species), error_msg, warning_msg, sformatf
// @outside find_J itself, stagnant zones (full LU solver), electro-migration (dV_dcell, fix_current), thermal diffusion, the repair of negative amounts (moles_from_redox_states / donnan layer)
#include "Phreeqc.h"
#include "Solution.h"
#include "cxxMix.h"
#include "Surface.h"
#include "vf.h"
#include <new>
#include <string.h>

#define NSP 4
#define NEL 6
static class element g_el[NEL];
static const char *EL[NEL] = {"Na", "Cl", "C", "O", "B", "H"};
enum { VE_NA, VE_CL, VE_C, VE_O, VE_B, VE_H };
static const char *SP[NSP] = {"Na+", "Cl-", "CO2", "B(OH)3"};
static const double ZZ[NSP] = {1, -1, 0, 0};
static const double NU[NSP][NEL] = {{1, 0, 0, 0, 0, 0}, {0, 1, 0, 0, 0, 0}, {0, 0, 1, 2, 0, 0}, {0, 0, 0, 3, 1, 3}};
static Phreeqc *g_p;
static int g_errs = 0;

void Phreeqc::error_msg(const char *err_str, bool stop) { g_errs++; vf_event_s("error_msg", err_str); }
int Phreeqc::warning_msg(const char *err_str) { g_errs++; vf_event_s("warning_msg", err_str); return OK; }
char *Phreeqc::sformatf(const char *format, ...) { static char b[4] = "msg"; return b; }
int Phreeqc::get_elts_in_species(const char **t_ptr, LDBLE coef)
{
	int k = -1;
	for (int i = 0; i < NSP; i++) if (!strcmp(*t_ptr, SP[i])) k = i;
	if (k < 0) vf_fail("unknown species in get_elts_in_species stub");
	for (int e = 0; e < NEL; e++)
	{
		if (NU[k][e] == 0) continue;
		if (count_elts + 1 >= elt_list.size()) elt_list.resize(count_elts + 2);
		elt_list[count_elts].elt = &g_el[e];
		elt_list[count_elts].coef = NU[k][e] * coef;
		count_elts++;
	}
	return OK;
}
static double bij(int icell, int cp) { return 0.30 + 0.125 * icell + 0.0625 * cp; }
LDBLE Phreeqc::find_J(int icell, int jcell, LDBLE mixf, LDBLE DDt, int stagnant)
{
	/* the environment: interface properties between icell and jcell */
	struct CT *c = &g_p->ct[icell];
	if (c->J_ij == NULL) { c->J_ij = (class J_ij *) PHRQ_malloc(NSP * sizeof(class J_ij)); c->J_ij_size = NSP; }
	if (c->v_m == NULL) { c->v_m = (struct V_M *) PHRQ_malloc(NSP * sizeof(struct V_M)); c->v_m_size = NSP; }
	if (c->J_ij == NULL || c->v_m == NULL) vf_fail("malloc");
	for (int j = 0; j < NSP; j++)
	{
		c->J_ij[j].name = SP[j]; c->J_ij[j].tot1 = c->J_ij[j].tot2 = c->J_ij[j].tot_stag = 0; c->J_ij[j].charge = ZZ[j];
		c->v_m[j].z = ZZ[j]; c->v_m[j].b_ij = bij(icell, j); c->v_m[j].zc = 0; c->v_m[j].grad = c->v_m[j].D = c->v_m[j].c = c->v_m[j].Dz = c->v_m[j].Dzc = 0;
	}
	c->kgw = 1.0; g_p->ct[jcell].kgw = 1.0;
	c->J_ij_count_spec = NSP;
	return 0;
}

extern "C" void vfh_C11_implicit(void)
{
	Phreeqc *p = (Phreeqc *) vf_raw(sizeof(Phreeqc));
	new (&p->Rxn_solution_map) std::map<int, cxxSolution>();
	new (&p->Rxn_mix_map) std::map<int, cxxMix>();
	new (&p->Rxn_surface_map) std::map<int, cxxSurface>();
	new (&p->elt_list) std::vector<class elt_list>();
	new (&p->use) cxxUse();
	new (&p->cell_data) std::vector<class cell_data>();
	new (&p->dif_els_names) std::set<std::string>();
	new (&p->neg_moles) std::map<int, std::map<std::string, double> >();
	new (&p->els) std::map<std::string, double>();
	new (&p->cell_J_ij) std::map<int, std::map<std::string, J_ij_save> >();
	for (int e = 0; e < NEL; e++) g_el[e].name = EL[e];
	g_p = p;
	int cells = (int) vf_int("cells", 2, 3);
	int nall = cells + 2;
	p->count_cells = cells; p->all_cells = nall; p->implicit = TRUE; p->nmix = 1; p->mixrun = 1;
	p->bcon_first = (int) vf_int("bcon_first", 1, 3);        /* 1 constant, 2 closed, 3 flux */
	p->bcon_last = (int) vf_int("bcon_last", 1, 3);
	p->cell_data.resize(nall + 1);
	p->heat_nmix = 0; p->dV_dcell = 0; p->fix_current = 0; p->find_current = 0; p->current_x = 0;
	p->default_Dw = 1e-9; p->multi_Dpor = 0.3; p->multi_Dn = 1.0; p->min_dif_LM = -12.0;
	p->Ct2 = 0; p->l_tk_x2 = 0; p->A = 0; p->LU = 0; p->mixf = 0; p->mixf_stag = 0; p->mixf_comp_size = 0;
	p->ct = (struct CT *) vf_raw(nall * sizeof(struct CT));
	p->current_cells = (struct CURRENT_CELLS *) vf_raw(nall * sizeof(struct CURRENT_CELLS));
	p->sol_D = (class sol_D *) vf_raw(nall * sizeof(class sol_D));
	p->count_moles_added = 8;
	p->moles_added = (struct MOLES_ADDED *) vf_raw(8 * sizeof(struct MOLES_ADDED));
	static const double ION[5] = {0.10, 0.06, 0.03, 0.02, 0.01};
	static const char *CN[5][2] = {{"c0_CO2", "c0_BOH3"}, {"c1_CO2", "c1_BOH3"}, {"c2_CO2", "c2_BOH3"}, {"c3_CO2", "c3_BOH3"}, {"c4_CO2", "c4_BOH3"}};
	static const char *TN[5][6] = {{"t0_Na", "t0_Cl", "t0_C", "t0_O", "t0_B", "t0_H"}, {"t1_Na", "t1_Cl", "t1_C", "t1_O", "t1_B", "t1_H"},
		{"t2_Na", "t2_Cl", "t2_C", "t2_O", "t2_B", "t2_H"}, {"t3_Na", "t3_Cl", "t3_C", "t3_O", "t3_B", "t3_H"}, {"t4_Na", "t4_Cl", "t4_C", "t4_O", "t4_B", "t4_H"}};
	double cold[5][NSP], before[5][NEL];
	for (int c = 0; c < nall; c++)
	{
		class sol_D *sd = &p->sol_D[c];
		sd->count_spec = NSP; sd->count_exch_spec = 0; sd->tk_x = 298.15; sd->viscos_0 = 0.89; sd->viscos = 0.89; sd->exch_total = 0; sd->x_max = 0;
		sd->spec = (class spec *) vf_raw(NSP * sizeof(class spec)); sd->spec_size = NSP;
		for (int j = 0; j < NSP; j++)
		{
			sd->spec[j].name = SP[j]; sd->spec[j].aq_name = SP[j]; sd->spec[j].z = ZZ[j]; sd->spec[j].Dwt = 1e-9; sd->spec[j].Dw = 1e-9;
			cold[c][j] = sd->spec[j].c = j < 2 ? ION[c] : vf_double(CN[c][j - 2], 0, 0.1);
		}
		p->ct[c].v_m = 0; p->ct[c].J_ij = 0; p->ct[c].m_s = 0; p->ct[c].v_m_il = 0; p->ct[c].J_ij_il = 0;
		p->ct[c].v_m_size = p->ct[c].J_ij_size = p->ct[c].m_s_size = 0;
		p->ct[c].kgw = 1.0; p->ct[c].dl_s = 0; p->ct[c].Dz2c = p->ct[c].Dz2c_stag = p->ct[c].J_ij_sum = 0; p->ct[c].count_m_s = 0; p->ct[c].J_ij_count_spec = 0;
		p->current_cells[c].dif = p->current_cells[c].ele = p->current_cells[c].R = 0;
		p->cell_data[c].potV = 0; p->cell_data[c].temp = 25; p->cell_data[c].mid_cell_x = c;
		cxxSolution s; s.Set_n_user(c); s.Set_n_user_end(c);
		static const int KEYED[4] = {VE_NA, VE_CL, VE_C, VE_B};
		for (int k = 0; k < 4; k++) s.Get_totals()[EL[KEYED[k]]] = before[c][KEYED[k]] = vf_double(TN[c][KEYED[k]], 1, 10);
		before[c][VE_O] = vf_double(TN[c][VE_O], 1, 10); before[c][VE_H] = vf_double(TN[c][VE_H], 1, 10);
		s.Set_total_o(before[c][VE_O]); s.Set_total_h(before[c][VE_H]);
		p->Rxn_solution_map[c] = s;
	}

	p->diffuse_implicit(1.0, 0);
	vf_reach("implicit.done");
	vf_check("implicit.no_messages", g_errs == 0);

	int c1 = cells + 1;
	int open[5];     /* interface i lies between cells i and i+1 */
	for (int i = 0; i <= cells; i++) open[i] = 1;
	if (p->bcon_first == 2) open[0] = 0;
	if (p->bcon_last == 2) open[cells] = 0;
	double inv_before[NEL], inv_after[NEL];
	for (int e = 0; e < NEL; e++) inv_before[e] = inv_after[e] = 0;
	for (int c = 0; c <= c1; c++)
	{
		cxxSolution &s = p->Rxn_solution_map[c];
		for (int e = 0; e < NEL; e++)
		{
			double after = e == VE_O ? s.Get_total_o() : e == VE_H ? s.Get_total_h() : s.Get_totals()[EL[e]];
			if (c == 0 || c == c1) { vf_close("implicit.boundary_solutions_untouched", after, before[c][e], 1e-12, 0); continue; }
			double moved = 0;
			for (int j = 0; j < NSP; j++)
			{
				if (NU[j][e] == 0) continue;
				if (open[c - 1]) moved += NU[j][e] * p->ct[c - 1].J_ij[j].tot1;
				if (open[c]) moved -= NU[j][e] * p->ct[c].J_ij[j].tot1;
			}
			vf_close(e == VE_O ? "implicit.total_O_change_equals_net_flux" : e == VE_H ? "implicit.total_H_change_equals_net_flux" : "implicit.element_change_equals_net_flux",
			         after, before[c][e] + moved, 1e-9, 1e-12);
			inv_before[e] += before[c][e]; inv_after[e] += after;
		}
	}
	if (!open[0] && !open[cells])
		for (int e = 0; e < NEL; e++) vf_close("implicit.closed_column_inventory_constant", inv_after[e], inv_before[e], 1e-9, 0);
	/* the implicit scheme for the last (neutral) species: Ct2 still holds its new concentrations */
	const int j = NSP - 1;
	for (int c = 1; c <= cells; c++)
	{
		double left = open[c - 1] ? bij(c - 1, j) * (p->Ct2[c - 1] - p->Ct2[c]) : 0.0;
		double right = open[c] ? bij(c, j) * (p->Ct2[c + 1] - p->Ct2[c]) : 0.0;
		vf_close("implicit.scheme_solved_for_new_concentrations", p->Ct2[c] - cold[c][j], left + right, 1e-9, 1e-12);
		if (open[c]) vf_close("implicit.flux_is_mixf_times_new_gradient", p->ct[c].J_ij[j].tot1, -bij(c, j) * (p->Ct2[c + 1] - p->Ct2[c]), 1e-9, 1e-12);
	}
	vf_close("implicit.boundary_concentrations_kept", p->Ct2[0], cold[0][j], 1e-12, 0);
	vf_close("implicit.boundary_concentrations_kept", p->Ct2[c1], cold[c1][j], 1e-12, 0);
}
