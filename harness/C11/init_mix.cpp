// @id C11.init_mix
// @engine B
// @entry vfh_C11_init_mix
// @tier Q
// @opts timeout_ms=12000 budget_s=330
// @reach init_mix.returned
// @funcs Phreeqc::init_mix
// @bounds single diffusion coefficient branch (multi_D off); quick: 2 cells, flow in {0,1}, boundaries in {constant,closed}^2; thorough: 1..3 cells, flow in {-1,0,1}, boundaries in {constant,closed,flux}^2, cell lengths in [0.05,20] m, dispersivities in [0,5] m, diffc*timest in [0,5] m2, correct_disp on/off, equal or unequal cells (all by case split); ints derived from floor() are mathematical integers
// @oracle (convexity) for every cell the three mixing fractions (lower neighbour, upper neighbour, self) are >= 0 and sum to 1, so a mixed concentration stays inside the range of its neighbours; (closed ends) a closed or flux boundary without flow gives zero weight to the boundary solution; (symmetry) with equal cell lengths and dispersivities the factor i->i+1 equals the factor i+1->i, which makes the column inventory invariant; the returned number of mixes is >= 1 whenever any mixing is defined
// @stubs Phreeqc::warning_msg, Phreeqc::error_msg (events)
// @outside multicomponent diffusion (multi_D, find_J, fill_spec), stagnant zones, the shifting itself (C11.shift); IEEE rounding
#include "Phreeqc.h"
#include "vf.h"
#include <new>
#ifndef VF_TIER
#define VF_TIER 1
#endif

void Phreeqc::error_msg(const char *err_str, bool stop) { vf_event_s("error_msg", err_str); if (stop) vf_assume(0); }
int Phreeqc::warning_msg(const char *err_str) { vf_event_s("warning_msg", err_str); return OK; }

static double frac(cxxMix &m, int n)
{
	std::map<int, LDBLE>::const_iterator it = m.Get_mixComps().find(n);
	return it == m.Get_mixComps().end() ? 0.0 : it->second;
}

extern "C" void vfh_C11_init_mix(void)
{
	Phreeqc *p = (Phreeqc *) vf_raw(sizeof(Phreeqc));
	new (&p->cell_data) std::vector<class cell_data>();
	new (&p->Dispersion_mix_map) std::map<int, cxxMix>();
#if VF_TIER >= 2
	int n = (int) vf_int("count_cells", 1, 3);
	p->ishift = (int) vf_int("ishift", -1, 1);
	p->bcon_first = (int) vf_int("bcon_first", 1, 3);
	p->bcon_last = (int) vf_int("bcon_last", 1, 3);
#else
	int n = 2;
	p->ishift = (int) vf_int("ishift", 0, 1);
	p->bcon_first = (int) vf_int("bcon_first", 1, 2);
	p->bcon_last = (int) vf_int("bcon_last", 1, 2);
#endif
	p->count_cells = n;
	p->correct_disp = (int) vf_int("correct_disp", 0, 1);
	vf_assume(p->ishift != 0 || p->correct_disp == 0);     /* correct_disp is only read when there is flow */
	p->multi_Dflag = FALSE;
	double D = vf_double("diffc_x_timest", 0.0, 5.0);
	p->diffc_tr = D;
	p->timest = 1.0;
#if VF_TIER >= 2
	int equal = (int) vf_int("equal_cells", 0, 1);
#else
	int equal = 0;                                           /* the symmetry obligation runs in the thorough tier */
#endif
	double L0 = 0, a0 = 0;
	for (int i = 0; i <= n + 1; i++)
	{
		class cell_data cd;
		double L = vf_double("length", 0.05, 20.0), a = vf_double("disp", 0.0, 5.0);
		if (i == 0) { L0 = L; a0 = a; }
		if (equal) { L = L0; a = a0; }
		cd.length = L; cd.disp = a;
		p->cell_data.push_back(cd);
	}
	int nmix = p->init_mix();
	vf_reach("init_mix.returned");
	vf_check("init_mix.nmix_nonnegative", nmix >= 0);
	if (nmix == 0) return;      /* no mixing defined: nothing to check */
	for (int i = 1; i <= n; i++)
	{
		std::map<int, cxxMix>::iterator it = p->Dispersion_mix_map.find(i);
		vf_check("mix.defined_for_cell", it != p->Dispersion_mix_map.end());
		if (it == p->Dispersion_mix_map.end()) continue;
		cxxMix &m = it->second;
		double lo = frac(m, i - 1), hi = frac(m, i + 1), self = frac(m, i);
		vf_check("mix.lower_fraction>=0", lo >= 0.0);
		vf_check("mix.upper_fraction>=0", hi >= 0.0);
		vf_check("mix.self_fraction>=0", self >= -1e-12);
		vf_close("mix.fractions_sum_to_1", lo + hi + self, 1.0, 0, 1e-12);
		if (i == 1 && p->bcon_first != 1) vf_check("mix.closed_first_boundary", lo == 0.0);
		if (i == n && p->bcon_last != 1) vf_check("mix.closed_last_boundary", hi == 0.0);
		if (equal && i < n)
		{
			std::map<int, cxxMix>::iterator it2 = p->Dispersion_mix_map.find(i + 1);
			if (it2 != p->Dispersion_mix_map.end())
				vf_close("mix.symmetric_exchange", hi, frac(it2->second, i), 1e-12, 1e-15);
		}
	}
}
