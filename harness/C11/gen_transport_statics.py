#!/usr/bin/env python3
"""Writes extern declarations for the file-scope state of /repo/src/phreeqcpp/transport.cpp (struct V_M, CT, MOLES_ADDED and
the variables ct, moles_added, count_moles_added, dV_dcell, find_current) so that a harness can set it up.
The struct bodies are copied verbatim from the current source: a layout change is picked up on the next run."""
import re, sys
repo, out = sys.argv[1], sys.argv[2]
src = open(repo + '/src/phreeqcpp/transport.cpp').read()
def body(name):
    m = re.search(r'struct\s+%s\b[^{;]*\{(.*?)\n\}\s*([^;]*);' % name, src, re.S)
    if not m:
        raise SystemExit("struct %s not found at file scope in transport.cpp" % name)
    return m.group(1), m.group(2).strip()
w = []
w.append('// GENERATED from %s/src/phreeqcpp/transport.cpp - do not edit' % repo)
for name in ('V_M', 'CT', 'MOLES_ADDED'):
    b, decl = body(name)
    w.append('struct %s\n{%s\n};' % (name, b))
    for d in decl.split(','):
        d = d.split('=')[0].strip()
        if d:
            w.append('extern struct %s %s;' % (name, d))
for ty, var in (('LDBLE', 'dV_dcell'), ('int', 'find_current'), ('int', 'count_moles_added')):
    if not re.search(r'^%s\s+%s\b' % (ty, var), src, re.M):
        raise SystemExit("%s %s not found at file scope in transport.cpp" % (ty, var))
    w.append('extern %s %s;' % (ty, var))
open(out, 'w').write('\n'.join(w) + '\n')
