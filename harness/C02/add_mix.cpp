// @static_init NameDouble.cxx Solution.cxx cxxMix.cxx Utils.cxx
// @id C02.add_mix
// @also C11 C15
// @engine B
// @entry vfh_C02_add_mix
// @shared_state_watch
// @tier Q
// @reach add_mix.done
// @funcs Phreeqc::add_mix; Phreeqc::add_solution
// @bounds MIX of 2 stored solutions; each with 2 element totals, total H, total O, charge balance, water mass in [0.01,100] kg, temperature, pH, pe, ionic strength, water activity, density, pressure, viscosity all symbolic; fractions in [-2,2] (extensive part) resp. (0,2] (intensive part)
// @oracle extensive quantities (element totals, total H, total O, charge, water mass) of the mixture are the sum of fraction_i x value_i, for fractions of any sign; with positive fractions: mixing a solution with itself gives that solution's intensive values (weights sum to 1) and f1+f2 times its extensive values; the result does not depend on the order in which the two solutions are numbered
// @stubs Phreeqc::master_bsearch_primary, master_bsearch, s_search (2-element lookup table), sformatf, error_msg
// @outside the equilibrium solve after mixing; Pitzer gamma guesses
#include "Phreeqc.h"
#include "Solution.h"
#include "cxxMix.h"
#include "vf.h"
#include <new>
#include <string.h>

static class master g_m[2][2];       /* [instance][element] */
static class species g_s[2][2];
static Phreeqc *g_p[2];
static int inst(const Phreeqc *p) { return p == g_p[1] ? 1 : 0; }
class master *Phreeqc::master_bsearch_primary(const char *ptr) { int k = inst(this); return !strcmp(ptr, "Na") ? &g_m[k][0] : !strcmp(ptr, "Cl") ? &g_m[k][1] : 0; }
class master *Phreeqc::master_bsearch(const char *ptr) { int k = inst(this); return !strcmp(ptr, "Na") ? &g_m[k][0] : !strcmp(ptr, "Cl") ? &g_m[k][1] : 0; }
class species *Phreeqc::s_search(const char *name) { return 0; }
char *Phreeqc::sformatf(const char *format, ...) { static char b[4] = "err"; return b; }
void Phreeqc::error_msg(const char *err_str, bool stop) { vf_event_s("error_msg", err_str); if (stop) vf_assume(0); }

struct Sol { double tc, ph, pe, mu, ah2o, dens, patm, visc, visc0, H, O, cb, W, na, cl, la_na; };
static Sol symsol(void)
{
	Sol s;
	s.tc = vf_double("tc", 0, 100); s.ph = vf_double("ph", 0, 14); s.pe = vf_double("pe", -10, 20); s.mu = vf_double("mu", 0, 6);
	s.ah2o = vf_double("ah2o", 0.5, 1); s.dens = vf_double("density", 0.9, 1.5); s.patm = vf_double("patm", 1, 1000);
	s.visc = vf_double("viscosity", 0.1, 5); s.visc0 = vf_double("viscos_0", 0.1, 5);
	s.H = vf_double("total_h", 0, 1e4); s.O = vf_double("total_o", 0, 1e4); s.cb = vf_double("cb", -10, 10);
	s.W = vf_double("mass_water", 0.01, 100); s.na = vf_double("Na", 0, 10); s.cl = vf_double("Cl", 0, 10); s.la_na = vf_double("la_Na", -20, 1);
	return s;
}
static void fill(cxxSolution &x, const Sol &s)
{
	x.Set_tc(s.tc); x.Set_ph(s.ph); x.Set_pe(s.pe); x.Set_mu(s.mu); x.Set_ah2o(s.ah2o); x.Set_density(s.dens); x.Set_patm(s.patm);
	x.Set_viscosity(s.visc); x.Set_viscos_0(s.visc0); x.Set_total_h(s.H); x.Set_total_o(s.O); x.Set_cb(s.cb); x.Set_mass_water(s.W);
	x.Get_totals()["Na"] = s.na; x.Get_totals()["Cl"] = s.cl; x.Get_master_activity()["Na"] = s.la_na;
}
static Phreeqc *mk(int k, const Sol &s1, const Sol &s2)
{
	Phreeqc *p = (Phreeqc *) vf_raw(sizeof(Phreeqc));
	g_p[k] = p;
	new (&p->Rxn_solution_map) std::map<int, cxxSolution>();
	cxxSolution a, b;
	fill(a, s1); fill(b, s2);
	p->Rxn_solution_map[1] = a; p->Rxn_solution_map[2] = b;
	for (int e = 0; e < 2; e++) { g_m[k][e].s = &g_s[k][e]; }
	return p;
}

extern "C" void vfh_C02_add_mix(void)
{
	int variant = (int) vf_int("variant", 0, 2);   /* 0: linearity (any sign), 1: self-mix, 2: order */
	Sol s1 = symsol();
	Sol s2 = variant == 1 ? s1 : symsol();
	double lo = variant == 0 ? -2.0 : 0.001;
	double f1 = vf_double("f1", lo, 2.0), f2 = vf_double("f2", lo, 2.0);
	if (variant == 0) vf_assume(f1 + f2 > 0.01 || f1 + f2 < -0.01);
	Phreeqc *p = mk(0, s1, s2);
	cxxMix mix;
	mix.Add(1, f1); mix.Add(2, f2);
	int rc = p->add_mix(&mix);
	vf_reach("add_mix.done");
	vf_check("add_mix.rc", rc == OK && p->input_error == 0);
	if (variant == 0)
	{
		vf_close("mix.total_h", p->total_h_x, f1 * s1.H + f2 * s2.H, 1e-12, 1e-12);
		vf_close("mix.total_o", p->total_o_x, f1 * s1.O + f2 * s2.O, 1e-12, 1e-12);
		vf_close("mix.cb", p->cb_x, f1 * s1.cb + f2 * s2.cb, 1e-12, 1e-12);
		vf_close("mix.mass_water", p->mass_water_aq_x, f1 * s1.W + f2 * s2.W, 1e-12, 1e-12);
		vf_close("mix.Na", g_m[0][0].total, f1 * s1.na + f2 * s2.na, 1e-12, 1e-12);
		vf_close("mix.Cl", g_m[0][1].total, f1 * s1.cl + f2 * s2.cl, 1e-12, 1e-12);
	}
	else if (variant == 1)
	{	/* S mixed with itself */
		vf_close("self.tc", p->tc_x, s1.tc, 1e-9, 1e-9); vf_close("self.ph", p->ph_x, s1.ph, 1e-9, 1e-9);
		vf_close("self.pe", p->solution_pe_x, s1.pe, 1e-9, 1e-9); vf_close("self.mu", p->mu_x, s1.mu, 1e-9, 1e-9);
		vf_close("self.ah2o", p->ah2o_x, s1.ah2o, 1e-9, 1e-9); vf_close("self.density", p->density_x, s1.dens, 1e-9, 1e-9);
		vf_close("self.patm", p->patm_x, s1.patm, 1e-9, 1e-9); vf_close("self.la", g_s[0][0].la, s1.la_na, 1e-9, 1e-9);
		vf_close("self.total_h", p->total_h_x, (f1 + f2) * s1.H, 1e-12, 1e-12);
		vf_close("self.Na", g_m[0][0].total, (f1 + f2) * s1.na, 1e-12, 1e-12);
		vf_close("self.mass_water", p->mass_water_aq_x, (f1 + f2) * s1.W, 1e-12, 1e-12);
	}
	else
	{	/* same mixture with the two solutions numbered the other way round */
		Phreeqc *q = mk(1, s2, s1);
		cxxMix mix2;
		mix2.Add(1, f2); mix2.Add(2, f1);
		q->add_mix(&mix2);
		vf_close("order.tc", p->tc_x, q->tc_x, 1e-9, 1e-9); vf_close("order.ph", p->ph_x, q->ph_x, 1e-9, 1e-9);
		vf_close("order.mu", p->mu_x, q->mu_x, 1e-9, 1e-9); vf_close("order.density", p->density_x, q->density_x, 1e-9, 1e-9);
		vf_close("order.la", g_s[0][0].la, g_s[1][0].la, 1e-9, 1e-9);
		vf_close("order.total_h", p->total_h_x, q->total_h_x, 1e-12, 1e-12); vf_close("order.cb", p->cb_x, q->cb_x, 1e-12, 1e-12);
		vf_close("order.Na", g_m[0][0].total, g_m[1][0].total, 1e-12, 1e-12); vf_close("order.Cl", g_m[0][1].total, g_m[1][1].total, 1e-12, 1e-12);
		vf_close("order.mass_water", p->mass_water_aq_x, q->mass_water_aq_x, 1e-12, 1e-12);
	}
}
