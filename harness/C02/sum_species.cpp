// @static_init Surface.cxx NameDouble.cxx Utils.cxx
// @id C02.sum_species_totals
// @also C01
// @engine B
// @entry vfh_C02_sum_species
// @shared_state_watch
// @tier Q
// @reach sums.done
// @funcs Phreeqc::sum_species
// @bounds the routine that turns the solved species amounts into the totals that are stored with the solution (sum_species) for a model of seven species - H+, H2O, OH-, Ca+2, HCO3-, an exchange species CaX2 and a surface species SurfOH - with symbolic amounts in [0,10] mol (water 50..60 mol); no surface, a surface without diffuse layer water, a Donnan layer of fixed thickness, or a Donnan layer defined by Debye lengths (the water species then holds bulk + diffuse-layer water: model.cpp reset()); calculation type initial surface / reaction / advection / transport (case split); water masses symbolic
// @oracle the solution keeps exactly its own share: charge balance, alkalinity and carbon are the sums over the dissolved species only (exchange and surface species excluded); total H and total O are the sums over the dissolved species, where in every calculation whose result is stored with the solution (reaction, advection, transport) the water term corresponds to the solution's own mass of water - the water of a diffuse layer, which is stored with the surface, is not counted a second time; every master-species total is the sum of coefficient x amount over the species list and every mass-balance unknown sums its master species
// @stubs calculate_values (isotope ratios), exp as uninterpreted function
// @outside how the species list is built (C01.species_list_once_per_element), the amounts themselves (solver)
#include "Phreeqc.h"
#include "Surface.h"
#include "vf.h"
#include <new>
#include <string.h>

int Phreeqc::calculate_values(void) { return OK; }

enum { Q_H, Q_W, Q_OH, Q_CA, Q_HCO3, Q_CAX2, Q_SURFOH, Q_E, QN };
static class species g_s[QN]; static class master g_m[3]; static class element g_e[3]; static class unknown g_u[2];

extern "C" void vfh_C02_sum_species(void)
{
	Phreeqc *p = (Phreeqc *) vf_raw(sizeof(Phreeqc));
	new (&p->s_x) std::vector<class species *>();
	new (&p->master) std::vector<class master *>();
	new (&p->species_list) std::vector<class species_list>();
	new (&p->x) std::vector<class unknown *>();
	new (&p->use) cxxUse();
	static const char *NM[QN] = {"H+", "H2O", "OH-", "Ca+2", "HCO3-", "CaX2", "SurfOH", "e-"};
	static const int TY[QN] = {HPLUS, H2O, AQ, AQ, AQ, EX, SURF, EMINUS};
	static const double Z[QN] = {1, 0, -1, 2, -1, 0, 0, -1}, HH[QN] = {1, 2, 1, 0, 1, 0, 1, 0}, OO[QN] = {0, 1, 1, 0, 3, 0, 1, 0};
	static const double V_ALK[QN] = {-1, 0, 1, 0, 1, 0, 0, 0}, V_CARB[QN] = {0, 0, 0, 0, 1, 0, 0, 0};
	static const char *MN[QN] = {"n_H", "unused", "n_OH", "n_Ca", "n_HCO3", "n_CaX2", "n_SurfOH", "unused_e"};
	const double gfw = 0.018016;
	int surf = (int) vf_int("surface", 0, 3);       /* 0 none, 1 no diffuse layer water, 2 Donnan fixed thickness, 3 Donnan Debye lengths */
	static const int ST[4] = {INITIAL_SURFACE, REACTION, ADVECTION, TRANSPORT};
	p->state = ST[vf_int("calculation", 0, 3)];
	double w_aq = vf_double("water_of_solution_kg", 0.5, 1.5), w_dl = surf >= 2 ? vf_double("water_of_diffuse_layer_kg", 0.001, 0.3) : 0.0;
	static cxxSurface sf;
	if (surf) { sf.Set_dl_type(surf >= 2 ? cxxSurface::DONNAN_DL : cxxSurface::NO_DL); sf.Set_debye_lengths(surf == 3 ? 1.0 : 0.0); sf.Set_thickness(1e-8); p->use.Set_surface_ptr(&sf); }
	p->mass_water_aq_x = w_aq; p->mass_water_surfaces_x = w_dl; p->mass_water_bulk_x = w_aq + w_dl; p->gfw_water = gfw;
	double n[QN];
	for (int i = 0; i < QN; i++)
	{
		g_s[i].name = NM[i]; g_s[i].type = TY[i]; g_s[i].z = Z[i]; g_s[i].h = HH[i]; g_s[i].o = OO[i]; g_s[i].alk = V_ALK[i]; g_s[i].carbon = V_CARB[i]; g_s[i].co2 = V_CARB[i];
		g_s[i].la = -7.0; g_s[i].lm = -7.0;
		n[i] = (i == Q_W || i == Q_E) ? 0.0 : vf_double(MN[i], 0, 10);
		g_s[i].moles = n[i];
		if (i != Q_E) p->s_x.push_back(&g_s[i]);
	}
	/* the water species holds the water the equations work with (model.cpp, reset(): bulk water when the layer is defined by Debye lengths) */
	n[Q_W] = g_s[Q_W].moles = (surf == 3 ? w_aq + w_dl : w_aq) / gfw;
	g_s[Q_W].la = 0.0;
	p->s_hplus = &g_s[Q_H]; p->s_h2o = &g_s[Q_W]; p->s_eminus = &g_s[Q_E]; p->s_o2 = NULL; p->s_h2 = NULL;
	/* master species Ca, C(4), X; species list as build_model makes it */
	static const char *EN[3] = {"Ca", "C(4)", "X"};
	for (int k = 0; k < 3; k++) { g_e[k].name = EN[k]; g_e[k].primary = &g_m[k]; g_m[k].elt = &g_e[k]; g_m[k].total = 99; g_m[k].total_primary = 99; p->master.push_back(&g_m[k]); }
	g_m[0].s = &g_s[Q_CA]; g_s[Q_CA].primary = &g_m[0]; g_m[1].s = &g_s[Q_HCO3]; g_s[Q_HCO3].primary = &g_m[1]; g_m[2].s = &g_s[Q_CAX2]; g_s[Q_CAX2].primary = &g_m[2];
	double cx = vf_double("X_per_CaX2", 1, 3);
	struct { int sp, ms; double coef; } L[4] = {{Q_CA, Q_CA, 1.0}, {Q_CAX2, Q_CA, 1.0}, {Q_HCO3, Q_HCO3, 1.0}, {Q_CAX2, Q_CAX2, cx}};
	for (int k = 0; k < 4; k++) { class species_list e; e.s = &g_s[L[k].sp]; e.master_s = &g_s[L[k].ms]; e.coef = L[k].coef; p->species_list.push_back(e); }
	g_u[0].type = MB; new (&g_u[0].master) std::vector<class master *>(); g_u[0].master.push_back(&g_m[0]); g_u[0].sum = -1;
	g_u[1].type = EXCH; new (&g_u[1].master) std::vector<class master *>(); g_u[1].master.push_back(&g_m[2]); g_u[1].sum = -1;
	p->x.push_back(&g_u[0]); p->x.push_back(&g_u[1]); p->count_unknowns = 2; p->ph_unknown = NULL; p->pe_unknown = NULL;

	int rc = p->sum_species();
	vf_reach("sums.done");
	vf_check("sums.rc", rc == OK);
	double cb = 0, alk = 0, carbon = 0, hsol = 0, osol = 0;
	for (int i = 0; i < QN; i++)
	{
		if (i == Q_E || TY[i] == EX || TY[i] == SURF) continue;
		cb += Z[i] * n[i]; alk += V_ALK[i] * n[i]; carbon += V_CARB[i] * n[i];
		if (i != Q_W) { hsol += HH[i] * n[i]; osol += OO[i] * n[i]; }
	}
	vf_close("sums.charge_balance_over_dissolved_species", p->cb_x, cb, 1e-12, 1e-15);
	vf_close("sums.alkalinity_over_dissolved_species", p->total_alkalinity, alk, 1e-12, 1e-15);
	vf_close("sums.carbon_over_dissolved_species", p->total_carbon, carbon, 1e-12, 1e-15);
	if (p->state >= REACTION)
	{
		vf_close("sums.total_H_counts_the_solutions_own_water", p->total_h_x, hsol + 2 * w_aq / gfw, 1e-12, 1e-12);
		vf_close("sums.total_O_counts_the_solutions_own_water", p->total_o_x, osol + w_aq / gfw, 1e-12, 1e-12);
	}
	vf_close("sums.master_total_is_sum_over_species_list", g_m[0].total, n[Q_CA] + n[Q_CAX2], 1e-12, 0);
	vf_close("sums.master_total_is_sum_over_species_list", g_m[1].total, n[Q_HCO3], 1e-12, 0);
	vf_close("sums.master_total_is_sum_over_species_list", g_m[2].total, cx * n[Q_CAX2], 1e-12, 0);
	vf_close("sums.unknown_sums_its_master_species", g_u[0].sum, n[Q_CA] + n[Q_CAX2], 1e-12, 0);
	vf_close("sums.unknown_sums_its_master_species", g_u[1].sum, cx * n[Q_CAX2], 1e-12, 0);
	vf_close("sums.element_total", g_m[0].total_primary, n[Q_CA] + n[Q_CAX2], 1e-12, 0);
}
