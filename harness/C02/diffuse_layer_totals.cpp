// @static_init Surface.cxx SurfaceCharge.cxx NameDouble.cxx Utils.cxx
// @id C02.diffuse_layer_totals_stored
// @also C20
// @engine B
// @entry vfh_C02_dl_totals
// @shared_state_watch
// @tier Q
// @opts timeout_ms=60000 budget_s=300
// @reach dl_totals.done
// @funcs Phreeqc::sum_diffuse_layer; Phreeqc::add_elt_list; Phreeqc::elt_list_combine
// @bounds the routine that computes the element totals of one diffuse layer when a surface is stored (sum_diffuse_layer) for a model with one dissolved species (Cl-, molality 0.01) and water; symbolic: the species' surface excess g in [-0.5,5], its diffuse-layer enrichment factor erm_ddl in [0.2,3] (also exactly 1), the masses of water of the solution [0.5,1.5] kg and of the diffuse layer [0.001,0.3] kg
// @oracle what is stored with the surface is what the equations of the step counted in the diffuse layer (eq. 61 of the PHREEQC 2 manual as coded in the mass-balance sums): moles of the species in the layer = moles in solution x erm_ddl x (g + water of the layer / water of the solution), so that solution + stored layer add up to the system total of the step; the layer's water is stored as H2O of its own mass
// @stubs none
// @outside how g is obtained (C20.diffuse_layer_integral_pieces, Donnan)
#include "Phreeqc.h"
#include "Surface.h"
#include "vf.h"
#include <new>
#include <string.h>

extern "C" void vfh_C02_dl_totals(void)
{
	Phreeqc *p = (Phreeqc *) vf_raw(sizeof(Phreeqc));
	new (&p->s_x) std::vector<class species *>();
	new (&p->elt_list) std::vector<class elt_list>();
	new (&p->use) cxxUse();
	static cxxSurface sf; static cxxSurfaceCharge ch;
	static class species cl, w; static class element e_cl, e_h, e_o;
	e_cl.name = "Cl"; e_h.name = "H"; e_o.name = "O";
	double g = vf_double("g", -0.5, 5), w_aq = vf_double("water_of_solution_kg", 0.5, 1.5), w_dl = vf_double("water_of_diffuse_layer_kg", 0.001, 0.3);
	double erm = vf_int("erm_ddl_is_one", 0, 1) ? 1.0 : vf_double("erm_ddl", 0.2, 3);
	cl.name = "Cl-"; cl.type = AQ; cl.z = -1; cl.lm = -2.0; cl.erm_ddl = erm;
	{ class elt_list e; e.elt = &e_cl; e.coef = 1; cl.next_elt.push_back(e); e.elt = NULL; e.coef = 0; cl.next_elt.push_back(e); }
	w.name = "H2O"; w.type = H2O;
	{ class elt_list e; e.elt = &e_h; e.coef = 2; w.next_elt.push_back(e); e.elt = &e_o; e.coef = 1; w.next_elt.push_back(e); e.elt = NULL; e.coef = 0; w.next_elt.push_back(e); }
	p->s_x.push_back(&cl); p->s_h2o = &w;
	ch.Set_name("Hfo"); ch.Set_mass_water(w_dl); ch.Get_g_map()[-1.0].Set_g(g);
	sf.Get_surface_charges().push_back(ch);
	p->use.Set_surface_ptr(&sf);
	p->mass_water_aq_x = w_aq; p->mass_water_bulk_x = w_aq + w_dl; p->gfw_water = 0.018016;
	int rc = p->sum_diffuse_layer(&sf.Get_surface_charges()[0]);
	vf_reach("dl_totals.done");
	vf_check("dl_totals.rc", rc == OK);
	double cl_tot = -1, h_tot = -1, o_tot = -1;
	for (int i = 0; i < p->count_elts; i++)
	{
		if (p->elt_list[i].elt == &e_cl) cl_tot = p->elt_list[i].coef;
		if (p->elt_list[i].elt == &e_h) h_tot = p->elt_list[i].coef;
		if (p->elt_list[i].elt == &e_o) o_tot = p->elt_list[i].coef;
	}
	double molality = 0.01, moles = molality * w_aq;
	vf_close("dl_totals.species_in_the_layer_as_counted_by_the_step", cl_tot, moles * erm * (g + w_dl / w_aq), 1e-9, 1e-15);
	vf_close("dl_totals.water_of_the_layer", o_tot, w_dl / 0.018016, 1e-12, 0);
	vf_close("dl_totals.water_of_the_layer", h_tot, 2 * w_dl / 0.018016, 1e-12, 0);
	vf_check("dl_totals.three_elements", p->count_elts == 3);
}
