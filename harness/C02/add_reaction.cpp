// @static_init NameDouble.cxx Utils.cxx Reaction.cxx
// @id C02.add_reaction
// @engine B
// @entry vfh_C02_add_reaction
// @shared_state_watch
// @tier Q
// @reach reaction.added
// @funcs Phreeqc::add_reaction; cxxReaction::Get_reaction_steps
// @bounds one REACTION block (net stoichiometry Ca 1, C 1, O 3, H c with c symbolic in [-4,4], as reaction_calc derives it from the reactant list) added to the element totals of the system, for reaction step 1..n+1 of "A in n steps" (n in 1..4, case split) or of an explicit list of 1..3 amounts, cumulative and incremental mode, units mol / mmol / umol / nmol, amount A symbolic in [-10,10] (negative: removal), step fraction symbolic in [0,1]; totals before symbolic
// @oracle element totals change by exactly the REACTION stoichiometry: every element of the reaction rises by coefficient x amount of the step x unit factor x step fraction (hydrogen and oxygen in the system totals of H and O), all other totals stay; with "A in n steps" the incremental amounts of the n steps are equal and add up to A, further steps add nothing, and the cumulative amount of step k is the sum of the first k increments
// @stubs Phreeqc::reaction_calc (sets the element list of the block), element_store (table of five elements)
// @outside reaction_calc itself (formula parsing: C15/C17 obligations), the equilibrium calculation that follows
#include "Phreeqc.h"
#include "Reaction.h"
#include "vf.h"
#include <new>
#include <string.h>

enum { VE_CA, VE_C, VE_O, VE_H, VE_NA, VN_EL };
static const char *EN[VN_EL] = {"Ca", "C", "O", "H", "Na"};
static class element g_e[VN_EL]; static class master g_m[VN_EL]; static class species g_s[VN_EL];
static double g_hcoef = 0;
int Phreeqc::reaction_calc(cxxReaction *reaction_ptr)
{
	cxxNameDouble nd;
	nd["Ca"] = 1.0; nd["C"] = 1.0; nd["O"] = 3.0; nd["H"] = g_hcoef;
	reaction_ptr->Set_elementList(nd);
	return OK;
}
class element *Phreeqc::element_store(const char *name)
{
	for (int i = 0; i < VN_EL; i++) if (!strcmp(name, EN[i])) return &g_e[i];
	vf_fail("element_store stub: unknown element");
	return 0;
}

extern "C" void vfh_C02_add_reaction(void)
{
	Phreeqc *p = (Phreeqc *) vf_raw(sizeof(Phreeqc));
	for (int i = 0; i < VN_EL; i++) { g_e[i].name = EN[i]; g_e[i].primary = g_e[i].master = &g_m[i]; g_m[i].elt = &g_e[i]; g_m[i].s = &g_s[i]; g_s[i].name = EN[i]; }
	p->s_hplus = &g_s[VE_H]; p->s_h2o = &g_s[VE_O];
	static const char *TN[VN_EL] = {"tot_Ca", "tot_C", "unused_O", "unused_H", "tot_Na"};
	double before[VN_EL];
	for (int i = 0; i < VN_EL; i++) g_m[i].total = before[i] = vf_double(TN[i], 0, 10);
	double h0 = vf_double("total_H", 100, 120), o0 = vf_double("total_O", 50, 60);
	p->total_h_x = h0; p->total_o_x = o0;
	g_hcoef = vf_double("H_in_reaction", -4, 4);
	static const char *UNITS[4] = {"Mol", "mmol", "umol", "nmol"}; static const double UF[4] = {1.0, 1e-3, 1e-6, 1e-9};
	int u = (int) vf_int("units", 0, 3);
	double frac = vf_double("step_fraction", 0, 1);
	int equal = (int) vf_int("A_in_n_steps", 0, 1);
	cxxReaction r; r.Set_units(UNITS[u]);
	int n; double a[3] = {0, 0, 0};
	if (equal) { n = (int) vf_int("n", 1, 4); a[0] = vf_double("A", -10, 10); r.Get_steps().push_back(a[0]); r.Set_countSteps(n); r.Set_equalIncrements(true); }
	else { n = (int) vf_int("list_length", 1, 3); static const char *NM[3] = {"a1", "a2", "a3"}; for (int i = 0; i < n; i++) { a[i] = vf_double(NM[i], -10, 10); r.Get_steps().push_back(a[i]); } r.Set_equalIncrements(false); }
	vf_check("reaction.number_of_steps", r.Get_reaction_steps() == n);
	int k = (int) vf_int("reaction_step", 1, 5);
	vf_assume(k <= n + 1);
	int incr = (int) vf_int("incremental", 0, 1);
	p->incremental_reactions = incr ? TRUE : FALSE;
	int rc = p->add_reaction(&r, k, frac);
	vf_reach("reaction.added");
	double amount;
	if (equal) amount = incr ? (k <= n ? a[0] / n : 0.0) : (k <= n ? a[0] * k / n : a[0]);
	else amount = a[k <= n ? k - 1 : n - 1];
	double moved = amount * UF[u] * frac;
	vf_check("reaction.rc", rc == OK);
	vf_close("reaction.element_total_change", g_m[VE_CA].total, before[VE_CA] + 1.0 * moved, 1e-12, 1e-15);
	vf_close("reaction.element_total_change", g_m[VE_C].total, before[VE_C] + 1.0 * moved, 1e-12, 1e-15);
	vf_close("reaction.total_O_change", p->total_o_x, o0 + 3.0 * moved, 1e-12, 1e-15);
	vf_close("reaction.total_H_change", p->total_h_x, h0 + g_hcoef * moved, 1e-12, 1e-15);
	vf_check("reaction.other_totals_untouched", g_m[VE_NA].total == before[VE_NA] && g_m[VE_O].total == before[VE_O] && g_m[VE_H].total == before[VE_H]);
	vf_close("reaction.step_amount", p->step_x, amount * UF[u], 1e-12, 1e-18);
}
