// @static_init NameDouble.cxx Surface.cxx SurfaceComp.cxx SurfaceCharge.cxx SSassemblage.cxx SS.cxx SScomp.cxx Exchange.cxx ExchComp.cxx Utils.cxx
// @id C02.add_surface
// @engine B
// @entry vfh_C02_add_surface
// @shared_state_watch
// @tier Q
// @reach add_surface.done
// @funcs Phreeqc::add_surface
// @bounds one stored surface (not new_def) with 1 site type holding 3 element totals (site element, H, Ca) and 1 charge plane with a 2-element diffuse-layer inventory; every amount and charge symbolic in [-10,10]; surface model over {NO_EDL, DDL, CD_MUSIC, CCM} and diffuse-layer option over {none, Borkovec, Donnan} by case split
// @oracle assembling the reaction system adds exactly the surface's own inventory: every element total (incl. total H and total O) grows by the site type's totals plus, when an explicit diffuse layer is stored, the plane's diffuse-layer totals; the system charge grows by the charge the entity stores - the site types' charge balance for a surface without electrostatics, the charge planes' charge balance for every electrostatic model (DDL, CCM, CD-MUSIC)
// @stubs Phreeqc::element_store, surface_get_psi_master (fixed 5-element table), sformatf, error_msg
// @outside the solve; write-back (xsurface_save)
// @id C02.add_ss_assemblage
// @engine B
// @entry vfh_C02_add_ss
// @shared_state_watch
// @tier Q
// @reach add_ss.done
// @funcs Phreeqc::add_ss_assemblage
// @bounds one solid solution with 2 components with formulas over 3 elements (stoichiometric coefficients symbolic in [0.5,3]); component amounts and the element totals already in the system symbolic (totals may be zero or negative, which triggers the pre-dissolution)
// @oracle mass is moved, never created: for every element the growth of the system total equals the sum over components of formula coefficient x (moles before - moles after); no component amount becomes negative; nothing is moved when every element is present
// @stubs Phreeqc::phase_bsearch, get_elts_in_species (appends the phase's formula to elt_list at count_elts, as the real routine does)
// @outside the solve
#include "Phreeqc.h"
#include "Surface.h"
#include "SSassemblage.h"
#include "vf.h"
#include <new>
#include <string.h>

static class element g_el[6]; static class master g_ma[6]; static class species g_sp[6];
static const char *EL[6] = {"H", "O", "Ca", "Hfo_w", "Sr", "C"};
static Phreeqc *g_p;
class element *Phreeqc::element_store(const char *element) { for (int i = 0; i < 6; i++) if (!strcmp(element, EL[i])) return &g_el[i]; return &g_el[5]; }
class master *Phreeqc::surface_get_psi_master(const char *name, int plane) { static class master m; static class species s; m.s = &s; return &m; }
char *Phreeqc::sformatf(const char *format, ...) { static char b[4] = "msg"; return b; }
void Phreeqc::error_msg(const char *err_str, bool stop) { vf_event_s("error_msg", err_str); vf_assume(0); }

static class phase g_ph[2]; static double g_coef[2][3]; static int g_elt[2][3] = {{2, 5, 1}, {4, 5, 1}};   /* CaCO3-like, SrCO3-like over Ca|Sr, C, O */
class phase *Phreeqc::phase_bsearch(const char *cptr, int *j, int print) { *j = !strcmp(cptr, "Strontianite"); return &g_ph[*j]; }
int Phreeqc::get_elts_in_species(const char **t_ptr, LDBLE coef)
{
	int k = (*t_ptr == g_ph[1].formula) ? 1 : 0;
	for (int e = 0; e < 3; e++)
	{
		if (count_elts + 1 >= elt_list.size()) elt_list.resize(count_elts + 2);
		elt_list[count_elts].elt = &g_el[g_elt[k][e]];
		elt_list[count_elts].coef = g_coef[k][e] * coef;
		count_elts++;
	}
	return OK;
}

static Phreeqc *mk(void)
{
	Phreeqc *p = g_p = (Phreeqc *) vf_raw(sizeof(Phreeqc));
	new (&p->master) std::vector<class master *>();
	new (&p->elt_list) std::vector<class elt_list>();
	for (int i = 0; i < 6; i++) { g_el[i].name = EL[i]; g_el[i].primary = g_el[i].master = &g_ma[i]; g_ma[i].s = &g_sp[i]; g_ma[i].total = 0; }
	p->s_hplus = &g_sp[0]; p->s_h2o = &g_sp[1];
	return p;
}

extern "C" void vfh_C02_add_surface(void)
{
	Phreeqc *p = mk();
	int type = (int) vf_int("surface_type", 0, 3);      /* UNKNOWN_DL excluded */
	int dl = (int) vf_int("dl_type", 0, 2);
	cxxSurface surf;
	surf.Set_new_def(false);
	surf.Set_type(type == 0 ? cxxSurface::NO_EDL : type == 1 ? cxxSurface::DDL : type == 2 ? cxxSurface::CD_MUSIC : cxxSurface::CCM);
	surf.Set_dl_type(dl == 0 ? cxxSurface::NO_DL : dl == 1 ? cxxSurface::BORKOVEK_DL : cxxSurface::DONNAN_DL);
	cxxSurfaceComp comp;
	comp.Set_formula("Hfo_wOH"); comp.Set_master_element("Hfo_w"); comp.Set_charge_name("Hfo");
	double t_site = vf_double("sites", 0, 10), t_h = vf_double("comp_H", -10, 10), t_ca = vf_double("comp_Ca", 0, 10);
	comp.Get_totals()["Hfo_w"] = t_site; comp.Get_totals()["H"] = t_h; comp.Get_totals()["Ca"] = t_ca;
	double cb_comp = vf_double("comp_charge_balance", -10, 10), la = vf_double("la", -20, 2);
	comp.Set_charge_balance(cb_comp); comp.Set_la(la);
	surf.Get_surface_comps().push_back(comp);
	cxxSurfaceCharge ch;
	ch.Set_name("Hfo");
	double cb_plane = vf_double("plane_charge_balance", -10, 10), dl_o = vf_double("dl_O", 0, 10), dl_ca = vf_double("dl_Ca", -10, 10);
	ch.Set_charge_balance(cb_plane); ch.Set_la_psi(vf_double("la_psi", -5, 5));
	ch.Get_diffuse_layer_totals()["O"] = dl_o; ch.Get_diffuse_layer_totals()["Ca"] = dl_ca;
	surf.Get_surface_charges().push_back(ch);
	double h0 = p->total_h_x = vf_double("total_h_before", 0, 200), o0 = p->total_o_x = vf_double("total_o_before", 0, 100);
	double cb0 = p->cb_x = vf_double("cb_before", -1, 1), ca0 = g_ma[2].total = vf_double("Ca_before", 0, 10);
	int rc = p->add_surface(&surf);
	vf_reach("add_surface.done");
	vf_check("add_surface.rc", rc == OK);
	bool electrostatic = type != 0, has_dl = electrostatic && dl != 0;
	vf_close("surface.sites", g_ma[3].total, t_site, 0, 1e-12);
	vf_close("surface.total_h", p->total_h_x, h0 + t_h, 0, 1e-12);
	vf_close("surface.total_o", p->total_o_x, o0 + (has_dl ? dl_o : 0.0), 0, 1e-12);
	vf_close("surface.Ca", g_ma[2].total, ca0 + t_ca + (has_dl ? dl_ca : 0.0), 0, 1e-12);
	vf_close("surface.charge", p->cb_x, cb0 + (electrostatic ? cb_plane : cb_comp), 0, 1e-12);
	vf_close("surface.la_restored", g_sp[3].la, la, 0, 0);
}

extern "C" void vfh_C02_add_ss(void)
{
	Phreeqc *p = mk();
	g_ph[0].formula = "CaCO3"; g_ph[1].formula = "SrCO3";
	for (int k = 0; k < 2; k++) for (int e = 0; e < 3; e++) g_coef[k][e] = vf_double("formula_coef", 0.5, 3.0);
	cxxSSassemblage ssa;
	cxxSS ss; ss.Set_name("CaSrCO3");
	double m0[2];
	for (int k = 0; k < 2; k++) { cxxSScomp c; c.Set_name(k ? "Strontianite" : "Aragonite"); m0[k] = vf_double("comp_moles", 0.0, 10.0); c.Set_moles(m0[k]); ss.Get_ss_comps().push_back(c); }
	ssa.Get_SSs()["CaSrCO3"] = ss;
	double t0[6];
	for (int i = 0; i < 6; i++) t0[i] = 0;
	t0[2] = g_ma[2].total = vf_double("Ca_total", -1e-3, 1.0); t0[4] = g_ma[4].total = vf_double("Sr_total", -1e-3, 1.0); t0[5] = g_ma[5].total = vf_double("C_total", -1e-3, 1.0);
	double o0 = p->total_o_x = vf_double("total_o_before", 0, 100);
	int rc = p->add_ss_assemblage(&ssa);
	vf_reach("add_ss.done");
	vf_check("add_ss.rc", rc == OK);
	cxxSS &r = ssa.Get_SSs().begin()->second;
	double d[2];
	for (int k = 0; k < 2; k++) { d[k] = m0[k] - r.Get_ss_comps()[k].Get_moles(); vf_check("ss.moles_nonnegative", r.Get_ss_comps()[k].Get_moles() >= 0.0); vf_check("ss.only_dissolves", d[k] >= 0.0); }
	vf_close("ss.Ca_conserved", g_ma[2].total - t0[2], g_coef[0][0] * d[0], 1e-9, 1e-12);
	vf_close("ss.Sr_conserved", g_ma[4].total - t0[4], g_coef[1][0] * d[1], 1e-9, 1e-12);
	vf_close("ss.C_conserved", g_ma[5].total - t0[5], g_coef[0][1] * d[0] + g_coef[1][1] * d[1], 1e-9, 1e-12);
	vf_close("ss.O_conserved", p->total_o_x - o0, g_coef[0][2] * d[0] + g_coef[1][2] * d[1], 1e-9, 1e-12);
}
