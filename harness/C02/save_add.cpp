// @static_init NameDouble.cxx Surface.cxx SurfaceComp.cxx SurfaceCharge.cxx Exchange.cxx ExchComp.cxx Utils.cxx
// @id C02.surface_save_then_add
// @also C03
// @engine B
// @entry vfh_C02_surface_save_add
// @shared_state_watch
// @tier Q
// @reach surface.saved_and_added
// @funcs Phreeqc::xsurface_save; Phreeqc::add_surface; Phreeqc::elt_list_NameDouble; cxxSurface::Find_comp; cxxSurface::Find_charge
// @bounds the write-back of a solved surface (xsurface_save) followed by its re-use in the next reaction step (add_surface): one site type with two surface species (neutral Hfo_wOH, charged Hfo_wOCa+; moles symbolic in [0,10]) and one charge plane whose charge-balance unknown has an arbitrary solved value f in [-10,10]; the stored entity carries arbitrary stale totals and charges from before the step; surface model over {NO_EDL, DDL, CCM, CD_MUSIC} by case split (CD_MUSIC: sigma0..2, area and grams symbolic); no explicit diffuse layer
// @oracle the saved entity holds the step's result, and re-using it puts exactly that back: site-type totals are the sum over the surface species of moles x formula (Hfo_w, H, O, Ca); without electrostatics the system charge grows by the charge of the surface species; with DDL or CCM by the solved value of the plane's charge-balance unknown; with CD-MUSIC by (sigma0+sigma1+sigma2) x area x grams / F; nothing stale from before the step survives; user number and flags of the saved entity are those of a stored (not newly defined) surface
// @stubs Phreeqc::element_store, surface_get_psi_master (fixed table), sformatf, error_msg
// @outside explicit diffuse layers (sum_diffuse_layer and the g maps), more than one site type, related phases/kinetics
// @id C02.exchange_save_capacity
// @also C03
// @engine B
// @entry vfh_C02_exch_step_save
// @shared_state_watch
// @tier Q
// @reach exchange.step_saved
// @funcs Phreeqc::step_save_exch
// @bounds the intermediate write-back of an exchanger whose amount follows a mineral or kinetic reactant (step_save_exch): 1 exchange site X with master total symbolic in [0,10], an exchanger with 1..3 components (NaX, CaX2, KX; case split) each carrying symbolic stale totals for X and its cation
// @oracle capacity is conserved: after the write-back the exchange-site total summed over all components of the saved exchanger equals the site total of the solved system (or the floor MIN_TOTAL = 1e-25 when that is smaller) - it is put into exactly one component, all other totals are zero; the used exchanger is not modified
// @stubs none beyond the recorders of error_msg
// @outside the equilibration that redistributes the cations afterwards
#include "Phreeqc.h"
#include "Surface.h"
#include "Exchange.h"
#include "vf.h"
#include <new>
#include <string.h>

static class element g_el[6]; static class master g_ma[6]; static class species g_sp[8];
static const char *EL[6] = {"H", "O", "Ca", "Hfo_w", "X", "Na"};
class element *Phreeqc::element_store(const char *element) { for (int i = 0; i < 6; i++) if (!strcmp(element, EL[i])) return &g_el[i]; vf_fail("unknown element"); return 0; }
class master *Phreeqc::surface_get_psi_master(const char *name, int plane) { static class master m; static class species s; m.s = &s; return &m; }
char *Phreeqc::sformatf(const char *format, ...) { static char b[4] = "msg"; return b; }
void Phreeqc::error_msg(const char *err_str, bool stop) { vf_event_s("error_msg", err_str); vf_assume(0); }

static Phreeqc *mk(void)
{
	Phreeqc *p = (Phreeqc *) vf_raw(sizeof(Phreeqc));
	new (&p->master) std::vector<class master *>();
	new (&p->elt_list) std::vector<class elt_list>();
	new (&p->x) std::vector<class unknown *>();
	new (&p->species_list) std::vector<class species_list>();
	new (&p->s_x) std::vector<class species *>();
	new (&p->Rxn_surface_map) std::map<int, cxxSurface>();
	new (&p->Rxn_exchange_map) std::map<int, cxxExchange>();
	new (&p->use) cxxUse();
	for (int i = 0; i < 6; i++) { g_el[i].name = EL[i]; g_el[i].primary = g_el[i].master = &g_ma[i]; g_ma[i].elt = &g_el[i]; g_ma[i].s = &g_sp[i]; g_ma[i].total = 0; }
	p->s_hplus = &g_sp[0]; p->s_h2o = &g_sp[1];
	p->dl_type_x = cxxSurface::NO_DL;
	return p;
}
static void formula(std::vector<class elt_list> &v, int n, const int *el, const double *c)
{
	class elt_list e;
	v.clear();
	for (int i = 0; i < n; i++) { e.elt = &g_el[el[i]]; e.coef = c[i]; v.push_back(e); }
	e.elt = NULL; e.coef = 0; v.push_back(e);
}

extern "C" void vfh_C02_surface_save_add(void)
{
	Phreeqc *p = mk();
	int type = (int) vf_int("surface_type", 0, 3);
	cxxSurface::SURFACE_TYPE T = type == 0 ? cxxSurface::NO_EDL : type == 1 ? cxxSurface::DDL : type == 2 ? cxxSurface::CD_MUSIC : cxxSurface::CCM;
	/* the surface as stored before the step: stale numbers everywhere */
	cxxSurface surf;
	surf.Set_n_user(1); surf.Set_n_user_end(1); surf.Set_new_def(true); surf.Set_type(T); surf.Set_dl_type(cxxSurface::NO_DL);
	surf.Set_solution_equilibria(true); surf.Set_n_solution(7);
	cxxSurfaceComp comp;
	comp.Set_formula("Hfo_wOH"); comp.Set_master_element("Hfo_w"); comp.Set_charge_name("Hfo");
	comp.Get_totals()["Hfo_w"] = vf_double("stale_sites", 0, 10); comp.Get_totals()["H"] = vf_double("stale_H", -10, 10);
	comp.Set_charge_balance(vf_double("stale_comp_charge", -10, 10)); comp.Set_la(vf_double("stale_la", -20, 2));
	surf.Get_surface_comps().push_back(comp);
	cxxSurfaceCharge ch;
	ch.Set_name("Hfo");
	ch.Set_charge_balance(vf_double("stale_plane_charge", -10, 10)); ch.Set_la_psi(vf_double("stale_la_psi", -5, 5));
	double s0 = vf_double("sigma0", -1, 1), s1 = vf_double("sigma1", -1, 1), s2 = vf_double("sigma2", -1, 1);
	double area = vf_double("specific_area", 1, 1000), grams = vf_double("grams", 0.01, 100);
	ch.Set_sigma0(s0); ch.Set_sigma1(s1); ch.Set_sigma2(s2); ch.Set_specific_area(area); ch.Set_grams(grams);
	surf.Get_surface_charges().push_back(ch);
	p->Rxn_surface_map[1] = surf;
	p->use.Set_surface_ptr(&p->Rxn_surface_map[1]);
	/* the solved system */
	double m1 = vf_double("moles_Hfo_wOH", 0, 10), m2 = vf_double("moles_Hfo_wOCa", 0, 10), f = vf_double("charge_balance_unknown", -10, 10);
	double la = vf_double("la_site", -20, 2), la_psi = vf_double("la_psi", -5, 5);
	static class species sp_site, sp_a, sp_b, sp_psi; static class master m_psi;
	g_ma[3].s = &sp_site; sp_site.la = la; sp_site.name = "Hfo_wOH";
	{ int e[3] = {3, 1, 0}; double c[3] = {1, 1, 1}; formula(sp_a.next_elt, 3, e, c); sp_a.moles = m1; sp_a.z = 0; sp_a.name = "Hfo_wOH"; }
	{ int e[3] = {3, 1, 2}; double c[3] = {1, 1, 1}; formula(sp_b.next_elt, 3, e, c); sp_b.moles = m2; sp_b.z = 1; sp_b.name = "Hfo_wOCa+"; }
	class species_list sl; sl.master_s = &sp_site; sl.s = &sp_a; sl.coef = 1; p->species_list.push_back(sl); sl.s = &sp_b; p->species_list.push_back(sl);
	m_psi.s = &sp_psi; sp_psi.la = la_psi;
	static class unknown u_site, u_cb;
	u_site.type = SURFACE; u_site.surface_comp = "Hfo_wOH"; u_site.master.push_back(&g_ma[3]);
	u_cb.type = SURFACE_CB; u_cb.surface_charge = "Hfo"; u_cb.f = f; u_cb.master.push_back(&m_psi);
	p->x.push_back(&u_site); p->x.push_back(&u_cb); p->count_unknowns = 2;

	int rc = p->xsurface_save(5);
	vf_check("save.rc", rc == OK && p->Rxn_surface_map.count(5) == 1);
	cxxSurface &sv = p->Rxn_surface_map[5];
	vf_check("save.entity_is_a_stored_result", sv.Get_n_user() == 5 && sv.Get_n_user_end() == 5 && !sv.Get_new_def() && !sv.Get_solution_equilibria());
	vf_check("save.used_entity_untouched", p->Rxn_surface_map[1].Get_new_def() && p->Rxn_surface_map[1].Get_n_user() == 1);
	vf_check("save.one_site_type", sv.Get_surface_comps().size() == 1);
	cxxSurfaceComp &sc = sv.Get_surface_comps()[0];
	vf_close("save.sites_total", sc.Get_totals()["Hfo_w"], m1 + m2, 1e-12, 0);
	vf_close("save.H_total", sc.Get_totals()["H"], m1, 1e-12, 0);
	vf_close("save.O_total", sc.Get_totals()["O"], m1 + m2, 1e-12, 0);
	vf_close("save.Ca_total", sc.Get_totals()["Ca"], m2, 1e-12, 0);
	vf_close("save.site_charge", sc.Get_charge_balance(), m2, 1e-12, 0);
	vf_close("save.site_log_activity", sc.Get_la(), la, 0, 0);
	double want_plane = type == 2 ? (s0 + s1 + s2) * (area * grams) / F_C_MOL : f;
	if (type == 0) vf_check("save.no_planes_without_electrostatics", sv.Get_surface_charges().size() == 0);
	else
	{
		vf_check("save.one_plane", sv.Get_surface_charges().size() == 1);
		vf_close("save.plane_charge", sv.Get_surface_charges()[0].Get_charge_balance(), want_plane, 1e-12, 1e-15);
		vf_close("save.plane_potential", sv.Get_surface_charges()[0].Get_la_psi(), la_psi, 0, 0);
	}
	/* the next step re-uses the saved surface */
	p->total_h_x = 0; p->total_o_x = 0; p->cb_x = 0;
	for (int i = 0; i < 6; i++) g_ma[i].total = 0;
	rc = p->add_surface(&sv);
	vf_reach("surface.saved_and_added");
	vf_check("add.rc", rc == OK);
	vf_close("roundtrip.sites", g_ma[3].total, m1 + m2, 1e-12, 0);
	vf_close("roundtrip.Ca", g_ma[2].total, m2, 1e-12, 0);
	vf_close("roundtrip.total_h", p->total_h_x, m1, 1e-12, 0);
	vf_close("roundtrip.total_o", p->total_o_x, m1 + m2, 1e-12, 0);
	vf_close("roundtrip.system_charge", p->cb_x, type == 0 ? m2 : want_plane, 1e-12, 1e-15);
}

extern "C" void vfh_C02_exch_step_save(void)
{
	Phreeqc *p = mk();
	int ncomp = (int) vf_int("n_components", 1, 3);
	static const char *F[3] = {"NaX", "CaX2", "KX"};
	cxxExchange ex; ex.Set_n_user(1); ex.Set_n_user_end(1);
	double stale[3];
	for (int k = 0; k < ncomp; k++)
	{
		cxxExchComp c; c.Set_formula(F[k]);
		stale[k] = vf_double("stale_X_total", 0, 10);
		c.Get_totals()["X"] = stale[k];
		c.Get_totals()[k == 1 ? "Ca" : "Na"] = vf_double("stale_cation_total", 0, 10);
		ex.Get_exchange_comps().push_back(c);
	}
	p->Rxn_exchange_map[1] = ex;
	p->use.Set_exchange_ptr(&p->Rxn_exchange_map[1]); p->use.Set_n_exchange_user(1);
	double total = vf_double("exchange_site_total", 0, 10);
	static class species sp_x; sp_x.type = EX; sp_x.name = "X-";
	g_ma[4].s = &sp_x; g_ma[4].total = total;
	for (int i = 0; i < 6; i++) p->master.push_back(&g_ma[i]);
	p->MIN_TOTAL = 1e-25;                     /* value set by the constructor */
	int rc = p->step_save_exch(-1);
	vf_reach("exchange.step_saved");
	vf_check("exch.rc", rc == OK && p->Rxn_exchange_map.count(-1) == 1);
	cxxExchange &sv = p->Rxn_exchange_map[-1];
	vf_check("exch.same_components", (int) sv.Get_exchange_comps().size() == ncomp);
	double sum = 0; int holders = 0;
	for (size_t k = 0; k < sv.Get_exchange_comps().size(); k++)
	{
		cxxNameDouble &nd = sv.Get_exchange_comps()[k].Get_totals();
		for (cxxNameDouble::iterator it = nd.begin(); it != nd.end(); it++)
		{
			if (it->first == "X") { sum += it->second; if (it->second != 0.0) holders++; }
			else vf_check("exch.other_totals_zeroed", it->second == 0.0);
		}
	}
	double want = total <= p->MIN_TOTAL ? p->MIN_TOTAL : total;
	vf_close("exch.capacity_conserved", sum, want, 1e-12, 0);
	vf_check("exch.capacity_in_one_component", holders == 1);
	for (int k = 0; k < ncomp; k++)
		vf_check("exch.used_exchanger_untouched", p->Rxn_exchange_map[1].Get_exchange_comps()[k].Get_totals()["X"] == stale[k]);
}
