// @static_init PPassemblageComp.cxx PPassemblage.cxx SSassemblage.cxx SS.cxx SScomp.cxx NameDouble.cxx Utils.cxx GasPhase.cxx GasComp.cxx
// @id C02.kinetic_step_bookkeeping
// @also C12
// @engine B
// @entry vfh_C02_kin_bookkeeping
// @shared_state_watch
// @tier Q
// @reach bookkeeping.saved
// @funcs Phreeqc::store_get_equi_reactants; Phreeqc::xpp_assemblage_save; Phreeqc::xss_assemblage_save
// @bounds the bookkeeping that brackets a kinetic reaction step of a cell holding an equilibrium-phase assemblage (2 phases) and a solid-solution assemblage (1 solid solution, 2 components), with or without either of them (case split): amounts noted before the step, the step itself replaced by symbolic changes of every amount (phases through the unknowns of the model, solid-solution components in the assemblage the model works on, as the real solver does), the end-of-step call, then the real routines that store the assemblages; amounts before symbolic in [0,10], changes in [-1,1] with amounts staying >= 0
// @oracle reactants advance together with the reaction: what is stored for the cell after the kinetic step is, for every equilibrium phase and every solid-solution component, the amount before + the change of the step - the bookkeeping for the printed deltas does not roll any stored amount back; the amounts noted before the step are the ones reported as initial amounts of the equilibrium phases
// @stubs none (the kinetic integration between the two bookkeeping calls is the symbolic change)
// @outside gas phases; the integrators (C12.rk_*, C12.cvode_restart)
#include "Phreeqc.h"
#include "PPassemblage.h"
#include "SSassemblage.h"
#include "SS.h"
#include "GasPhase.h"
#include "vf.h"
#include <new>
#include <string.h>

extern "C" void vfh_C02_kin_bookkeeping(void)
{
	Phreeqc *p = (Phreeqc *) vf_raw(sizeof(Phreeqc));
	new (&p->Rxn_pp_assemblage_map) std::map<int, cxxPPassemblage>();
	new (&p->Rxn_ss_assemblage_map) std::map<int, cxxSSassemblage>();
	new (&p->Rxn_gas_phase_map) std::map<int, cxxGasPhase>();
	new (&p->x) std::vector<class unknown *>();
	new (&p->x0_moles) std::vector<LDBLE>();
	new (&p->use) cxxUse();
	p->phrq_io = new PHRQ_io();
	p->simulation = 1;
	int has_pp = (int) vf_int("equilibrium_phases_present", 0, 1), has_ss = (int) vf_int("solid_solutions_present", 0, 1);
	static const char *PN[2] = {"Calcite", "Gypsum"}, *SN[2] = {"Barite", "Celestite"};
	static const char *PM[2] = {"calcite_before", "gypsum_before"}, *PD[2] = {"calcite_change", "gypsum_change"};
	static const char *SM[2] = {"barite_before", "celestite_before"}, *SD[2] = {"barite_change", "celestite_change"};
	double pm[2], pd[2], sm[2], sd[2];
	static class unknown u[2];
	if (has_pp)
	{
		cxxPPassemblage pp; pp.Set_n_user(1); pp.Set_n_user_end(1);
		for (int j = 0; j < 2; j++)
		{
			pm[j] = vf_double(PM[j], 0, 10); pd[j] = vf_double(PD[j], -1, 1); vf_assume(pm[j] + pd[j] >= 0);
			cxxPPassemblageComp c; c.Set_name(PN[j]); c.Set_moles(pm[j]); c.Set_initial_moles(pm[j]);
			pp.Get_pp_assemblage_comps()[PN[j]] = c;
		}
		p->Rxn_pp_assemblage_map[1] = pp;
		for (int j = 0; j < 2; j++) { u[j].type = PP; u[j].pp_assemblage_comp_name = PN[j]; u[j].moles = pm[j]; p->x.push_back(&u[j]); }
	}
	p->count_unknowns = (int) p->x.size();
	if (has_ss)
	{
		cxxSSassemblage ssa; ssa.Set_n_user(1); ssa.Set_n_user_end(1);
		cxxSS ss; ss.Set_name("BaSr");
		for (int j = 0; j < 2; j++)
		{
			sm[j] = vf_double(SM[j], 0, 10); sd[j] = vf_double(SD[j], -1, 1); vf_assume(sm[j] + sd[j] >= 0);
			cxxSScomp c; c.Set_name(SN[j]); c.Set_moles(sm[j]); c.Set_initial_moles(sm[j]);
			ss.Get_ss_comps().push_back(c);
		}
		ssa.Get_SSs()["BaSr"] = ss;
		p->Rxn_ss_assemblage_map[1] = ssa;
	}
	p->use.Set_pp_assemblage_in(has_pp != 0); p->use.Set_ss_assemblage_in(has_ss != 0); p->use.Set_gas_phase_in(false);

	p->store_get_equi_reactants(1, FALSE);
	/* the kinetic step: the solver moves the amounts */
	if (has_pp) for (int j = 0; j < 2; j++) u[j].moles = pm[j] + pd[j];
	if (has_ss)
	{
		cxxSS &ss = p->Rxn_ss_assemblage_map[1].Get_SSs()["BaSr"];
		for (int j = 0; j < 2; j++) ss.Get_ss_comps()[j].Set_moles(sm[j] + sd[j]);
	}
	p->store_get_equi_reactants(1, TRUE);
	if (has_pp) for (int j = 0; j < 2; j++)
		vf_check("bookkeeping.initial_amounts_reported", p->Rxn_pp_assemblage_map[1].Get_pp_assemblage_comps()[PN[j]].Get_moles() == pm[j]);
	/* the result of the step is stored (saver) */
	p->xpp_assemblage_save(1);
	p->xss_assemblage_save(1);
	vf_reach("bookkeeping.saved");
	if (has_pp) for (int j = 0; j < 2; j++)
		vf_close("bookkeeping.stored_phase_amount_is_before_plus_change", p->Rxn_pp_assemblage_map[1].Get_pp_assemblage_comps()[PN[j]].Get_moles(), pm[j] + pd[j], 1e-12, 0);
	if (has_ss) for (int j = 0; j < 2; j++)
		vf_close("bookkeeping.stored_solid_solution_amount_is_before_plus_change", p->Rxn_ss_assemblage_map[1].Get_SSs()["BaSr"].Get_ss_comps()[j].Get_moles(), sm[j] + sd[j], 1e-12, 0);
	vf_check("bookkeeping.assemblages_kept", (int) p->Rxn_pp_assemblage_map.count(1) == has_pp && (int) p->Rxn_ss_assemblage_map.count(1) == has_ss);
}
