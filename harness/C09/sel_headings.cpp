// @static_init Utils.cxx SelectedOutput.cpp UserPunch.cpp
// @id C09.selected_output_heading_once_per_call
// @also C05 C13
// @engine B
// @entry vfh_C09_sel_headings
// @shared_state_watch
// @tier Q
// @opts max_steps=30000000
// @reach headings.done
// @funcs IPhreeqc::do_run; Phreeqc::tidy_punch; IPhreeqc::punch_open; IPhreeqc::punch_msg
// @bounds a Run* call on an instance that already has 1..3 SELECTED_OUTPUT blocks (user numbers 1, 5, 22; one built-in column each) from an earlier call and does not redefine them; for every block the file switch and the string switch are on or off (case split, all blocks alike or only the first with a file); the real run driver, the real heading writer (tidy_punch) and the wrapper's file opening on the file model; the chemistry of the simulation is replaced by events
// @oracle every call starts each selected-output stream with exactly one heading line: after the call the string of every block whose string switch is on consists of one heading line, and where the file switch is on too the file holds the same text as the string; a block without a file name from the caller or from -file writes to its own default file selected_n.<id>.out
// @stubs sformatf (every heading cell reads "head"); engine entry points of do_run except tidy_punch (events); tidy_model runs tidy_punch as the real one does when a SELECTED_OUTPUT keyword was counted
// @outside data rows (C05 obligations), redefinition during the run (known finding C09-selected-output-redefinition)
#define VF_REAL_TIDY_PUNCH
#define VF_OWN_TIDY_MODEL
#include "../common/engine_stubs.inc"
#include "../common/engine_run_stubs.inc"
#include "SelectedOutput.h"
#include "UserPunch.h"
#include <fstream>

/* what the real tidy_model does with selected output: tidy_punch when a SELECTED_OUTPUT keyword was counted */
static Phreeqc *g_pq;
char *Phreeqc::sformatf(const char *format, ...) { static char b[8] = "head\t"; return b; }     /* heading cells: the text is immaterial here */
static void on_sim(Phreeqc *p, int k) { }
/* tidy_model, reduced to its selected-output step (tidy.cpp: new_punch <- SELECTED_OUTPUT / USER_PUNCH keyword counted) */
int Phreeqc::tidy_model(void)
{
	ev("tidy_model");
	if (keycount[Keywords::KEY_SELECTED_OUTPUT] > 0 || keycount[Keywords::KEY_USER_PUNCH] > 0) tidy_punch();
	return OK;
}

static int count_lines(const std::string &s) { int n = 0; for (size_t i = 0; i < s.size(); i++) if (s[i] == '\n') n++; return n; }

extern "C" void vfh_C09_sel_headings(void)
{
	new (&IPhreeqc::Instances) std::map<size_t, IPhreeqc*>();
	IPhreeqc::InstancesIndex = 0;
	IPhreeqc *ip = new IPhreeqc();
	Phreeqc *p = g_pq = ip->PhreeqcPtr;
	new (&p->UserPunch_map) std::map<int, UserPunch>();
	new (&p->keycount) std::vector<int>(Keywords::KEY_COUNT_KEYWORDS, 0);
	new (&p->title_x) std::string();
	static const int N[3] = {1, 5, 22};
	static const char *FN[3] = {"sel_1.out", "sel_5.out", "sel_22.out"};
	int default_names = (int) vf_int("default_file_names", 0, 1);
	int blocks = (int) vf_int("blocks", 1, 3), files = (int) vf_int("file_switches", 0, 2), strings = (int) vf_int("string_switches_on", 0, 1);
	for (int i = 0; i < blocks; i++)
	{
		SelectedOutput &so = p->SelectedOutput_map[N[i]];
		so.Set_n_user(N[i]); so.Set_n_user_end(N[i]); so.Reset(false); so.Set_sim(true); so.Set_new_def(false);
		so.Set_have_punch_name(false);
		ip->SelectedOutputMap[N[i]] = new CSelectedOutput();
		ip->SelectedOutputStringMap[N[i]] = std::string();
		ip->SelectedOutputFileOnMap[N[i]] = files == 2 || (files == 1 && i == 0);
		ip->SelectedOutputStringOn[N[i]] = strings != 0;
		if (!default_names) ip->SelectedOutputFileNameMap[N[i]] = FN[i];          /* else: no name set, none given with -file */
	}
	ip->CurrentSelectedOutputUserNumber = 1;
	ip->punch_on = true; p->pr.punch = TRUE;
	g_sims = 1; g_on_sim = on_sim; g_read = 0; g_evn = 0;
	ip->DatabaseLoaded = true;
	std::string text("USE solution 1\nEND\n");
	std::istringstream iss(text);
	ip->do_run("RunString", &iss, NULL, NULL, NULL);
	/* do_run's caller closes the files */
	ip->close_output_files();
	vf_reach("headings.done");
	for (int i = 0; i < blocks; i++)
	{
		bool f_on = files == 2 || (files == 1 && i == 0);
		const std::string &str = ip->SelectedOutputStringMap[N[i]];
		if (strings) vf_check("headings.one_heading_line_in_the_string", count_lines(str) == 1);
		else vf_check("headings.string_off_stays_empty", str.empty());
		if (f_on)
		{
			std::string fname = default_names ? ip->sel_file_name(N[i]) : std::string(FN[i]);
			/* C13: without a name from the caller or the input, block n writes to the documented default selected_n.<id>.out */
			vf_check("headings.file_name_belongs_to_the_block", ip->SelectedOutputFileNameMap[N[i]] == fname);
			std::string file; std::ifstream f(fname.c_str()); std::string line;
			while (f.is_open() && std::getline(f, line)) { file += line; file += "\n"; }
			vf_check("headings.one_heading_line_in_the_file", count_lines(file) == 1);
			if (strings) vf_check("headings.file_and_string_hold_the_same_text", file == str);
		}
	}
}
