// @id C09.selected_output_redefined_in_run
// @also C05
// @engine B
// @entry vfh_C09_sel_redefinition
// @shared_state_watch
// @tier Q
// @reach redefinition.done
// @funcs IPhreeqc::punch_open; IPhreeqc::punch_msg; PHRQ_io::ofstream_open
// @bounds one Run* call in which SELECTED_OUTPUT n is defined, rows are written, and the same user number is defined again (0..1 redefinitions, case split) followed by more rows; file and string sinks on; the wrapper's real punch_open / punch_msg on the iostream and file model; the engine's part (read_selected_output: erase the old definition, call punch_open, keep the stream it returns) is replayed by the harness
// @oracle whenever file sink and string sink are both enabled for a run they receive byte-identical content: at the end of the call the file of user number n holds exactly the selected-output string of n
// @stubs Phreeqc engine (events); iostream / file model
// @outside the value table (C05.table); what the rows contain
#include "../common/engine_stubs.inc"
#include "SelectedOutput.h"
#include <fstream>
#include <string.h>

static void define(IPhreeqc *ip, int n)
{
	/* what Phreeqc::read_selected_output does when a (re)definition is stored */
	Phreeqc *p = ip->PhreeqcPtr;
	std::map<int, SelectedOutput>::iterator so = p->SelectedOutput_map.find(n);
	if (so != p->SelectedOutput_map.end()) p->SelectedOutput_map.erase(so);
	SelectedOutput t; t.Set_n_user(n);
	p->SelectedOutput_map[n] = t;
	char suggestion[64]; snprintf(suggestion, sizeof suggestion, "selected_output_%d.sel", n);
	bool ok = ip->punch_open(suggestion, std::ios_base::out, n);
	vf_check("redefinition.file_opened", ok);
	p->SelectedOutput_map[n].Set_punch_ostream(ip->Get_punch_ostream());
	ip->Set_punch_ostream(NULL);
	if (ip->SelectedOutputStringMap.find(n) == ip->SelectedOutputStringMap.end()) ip->SelectedOutputStringMap[n] = std::string();
}
static void row(IPhreeqc *ip, int n, const char *text)
{
	Phreeqc *p = ip->PhreeqcPtr;
	p->current_selected_output = &p->SelectedOutput_map[n];
	ip->Set_punch_ostream(p->current_selected_output->Get_punch_ostream());
	ip->punch_msg(text);
	ip->Set_punch_ostream(NULL);
}

extern "C" void vfh_C09_sel_redefinition(void)
{
	new (&IPhreeqc::Instances) std::map<size_t, IPhreeqc*>();
	IPhreeqc::InstancesIndex = 0;
	IPhreeqc *ip = new IPhreeqc();
	int redefine = (int) vf_int("redefined_in_the_same_run", 0, 1);
	ip->SetSelectedOutputFileOn(true); ip->SetSelectedOutputStringOn(true); ip->SetSelectedOutputFileName("sel.out");
	ip->punch_on = true;
	define(ip, 1);
	row(ip, 1, "pH\n"); row(ip, 1, "7\n");
	if (redefine) { define(ip, 1); row(ip, 1, "pe\n"); }
	row(ip, 1, "4\n");
	/* end of the call: streams are flushed and closed */
	std::ostream *os = ip->PhreeqcPtr->SelectedOutput_map[1].Get_punch_ostream();
	if (os) os->flush();
	vf_reach("redefinition.done");
	char file[256]; long n = 0;
	{
		std::ifstream in("sel.out");
		vf_check("redefinition.file_exists", in.is_open());
		n = vf_stream_content((void *) static_cast<std::istream *>(&in), file, sizeof file);
	}
	const char *str = ip->GetSelectedOutputString();
	vf_check("redefinition.file_and_string_identical", n == (long) strlen(str) && memcmp(file, str, (size_t) n) == 0);
}
