// @id C09.do_run_views
// @also C04 C05
// @engine B
// @entry vfh_C09_do_run
// @shared_state_watch
// @tier Q
// @reach do_run.done
// @funcs IPhreeqc::do_run; IPhreeqc::update_errors; IPhreeqc::output_msg; IPhreeqc::log_msg; IPhreeqc::punch_msg
// @bounds the real run driver IPhreeqc::do_run with the engine replaced by recorded events, 1..3 simulations per call (case split); in each simulation the stub engine emits fixed multi-line text to the output, log and selected-output (user numbers 1 and 3) streams through the wrapper's own message functions, and a dump (with and without -append); string switches by case split (all off / all on / each alone / selected-output switch on for only one of the two user numbers, the other being current)
// @oracle for every stream whose string sink is on: the string is the concatenation of what was emitted, line accessor i returns exactly line i of the string, "" outside 0..count-1, count = number of lines; a sink that is off stays empty; the dump line view always mirrors the complete dump string (also when the dump appends); each call starts with first_read_input set and simulation numbering at 1, forces selected-output headings to be redefined in simulation 1 only, creates one value table per defined user number and marks the component list stale
// @stubs Phreeqc engine entry points called by do_run (events, see harness/common/engine_run_stubs.inc); iostream model
// @outside what the engine writes; files on disk (stream pointers are null: file switches off)
// @id C09.views_after_stopped_run
// @also C08 C14
// @engine B
// @entry vfh_C09_stopped_run
// @shared_state_watch
// @tier Q
// @reach stopped_run.done
// @funcs IPhreeqc::RunString; IPhreeqc::do_run; IPhreeqc::check_database; IPhreeqc::update_errors
// @bounds the real RunString -> do_run path with the stub engine of C09.do_run_views emitting text in 1..3 simulations; the run stops on an error (the engine throws IPhreeqcStop, as error_msg(..., STOP) does) while reading simulation k in 0..3 (0 = no error; case split) after that simulation's text has been written; string switches all on or all off
// @oracle whenever a run ends - normally or stopped by an error - every line view agrees with its string: line accessor i returns exactly line i of the output / log / selected-output string that the same instance returns, "" outside 0..count-1, count = number of lines; the call returns normally and its return value is non-zero exactly when it stopped on an error; and because the simulations read before the stop have defined reactants, the component list is rebuilt at the next query (GetComponentCount / GetComponent) after every run, stopped or not
// @stubs as C09.do_run_views
// @outside what the engine writes; files on disk
#include "../common/engine_stubs.inc"
#include "../common/engine_run_stubs.inc"
#include "SelectedOutput.h"

static IPhreeqc *g_ip;
static int g_stop_at = 0;
static void on_sim(Phreeqc *p, int k)
{
	/* the "engine" prints through the wrapper exactly as PHREEQC does */
	p->phrq_io->output_msg(k == 1 ? "out line 1\nout line 2\n" : "more output\n");
	p->phrq_io->log_msg(k == 1 ? "log A\n" : "log B\nlog C\n");
	if (k == 1)
	{	/* SELECTED_OUTPUT 1 and 3 get defined in the first simulation */
		p->SelectedOutput_map[1].Set_n_user(1);
		p->SelectedOutput_map[3].Set_n_user(3);
	}
	for (int u = 1; u <= 3; u += 2)
	{
		p->current_selected_output = &p->SelectedOutput_map[u];
		p->phrq_io->punch_msg(u == 1 ? "h1\th2\n" : "x\n");
		p->phrq_io->punch_msg(k == 1 ? "1\t2\n" : "3\t4\n");
	}
	p->dump_info.Set_append(g_dump_append != 0);
	p->dump_info.SetAll(true);
	if (k == g_stop_at)
	{	/* an ERROR with STOP while this simulation is read */
		p->input_error = 1;
		throw IPhreeqcStop();
	}
}

static bool lines_match(const char *str, int count, const char *(*get)(IPhreeqc *, int), IPhreeqc *ip)
{
	/* split str at '\n' independently and compare with the accessor */
	int n = 0; const char *p = str;
	while (*p)
	{
		const char *e = strchr(p, '\n'); size_t len = e ? (size_t) (e - p) : strlen(p);
		const char *l = get(ip, n);
		if (strlen(l) != len || strncmp(l, p, len) != 0) return false;
		n++; p += len; if (e) p++;
	}
	return n == count && get(ip, -1)[0] == 0 && get(ip, count)[0] == 0 && get(ip, count + 5)[0] == 0;
}
static const char *g_out(IPhreeqc *ip, int n) { return ip->GetOutputStringLine(n); }
static const char *g_log(IPhreeqc *ip, int n) { return ip->GetLogStringLine(n); }
static const char *g_dmp(IPhreeqc *ip, int n) { return ip->GetDumpStringLine(n); }
static const char *g_sel(IPhreeqc *ip, int n) { return ip->GetSelectedOutputStringLine(n); }

extern "C" void vfh_C09_do_run(void)
{
	new (&IPhreeqc::Instances) std::map<size_t, IPhreeqc*>();
	IPhreeqc::InstancesIndex = 0;
	IPhreeqc *ip = g_ip = new IPhreeqc();
	g_sims = (int) vf_int("simulations", 1, 3);
	int pat = (int) vf_int("string_switches", 0, 7);     /* 0 none, 1 all, 2 output, 3 log, 4 dump, 5 selected output (both user numbers), 6 only user 3, 7 only user 1 */
	g_dump_append = (int) vf_int("dump_append", 0, 1);
	bool so = pat == 1 || pat == 2, sl = pat == 1 || pat == 3, sd = pat == 1 || pat == 4;
	bool ss1 = pat == 1 || pat == 5 || pat == 7, ss3 = pat == 1 || pat == 5 || pat == 6;
	ip->SetOutputStringOn(so); ip->SetLogStringOn(sl); ip->SetDumpStringOn(sd);
	ip->SetCurrentSelectedOutputUserNumber(3); ip->SetSelectedOutputStringOn(ss3);
	ip->SetCurrentSelectedOutputUserNumber(1); ip->SetSelectedOutputStringOn(ss1);
	if (pat == 7) ip->SetCurrentSelectedOutputUserNumber(3);     /* the current user number is not the one whose switch is on */
	ip->log_on = true; ip->output_on = true; ip->punch_on = true;
	g_dump_text[0] = "SOLUTION_RAW 1\n -temp 25\n"; g_dump_text[1] = "SOLUTION_RAW 2\n -temp 30\n"; g_dump_text[2] = "MIX_RAW 3\n";
	g_on_sim = on_sim; g_read = 0; g_evn = 0;
	ip->DatabaseLoaded = true; ip->UpdateComponents = false;
	ip->PhreeqcPtr->simulation = 77; ip->PhreeqcPtr->first_read_input = FALSE; ip->PhreeqcPtr->n_user_punch_index = 5;
	new (&ip->PhreeqcPtr->keycount) std::vector<int>(Keywords::KEY_COUNT_KEYWORDS, 0);
	new (&ip->PhreeqcPtr->title_x) std::string();

	std::string text("SOLUTION 1\nEND\n");
	std::istringstream iss(text);
	ip->do_run("RunString", &iss, NULL, NULL, NULL);
	vf_reach("do_run.done");

	vf_check("frame.first_read_input", ip->PhreeqcPtr->first_read_input == TRUE);
	vf_check("frame.simulation_numbering", ip->PhreeqcPtr->simulation == g_sims + 1);
	vf_check("frame.user_punch_index_reset", ip->PhreeqcPtr->n_user_punch_index == -1);
	vf_check("frame.components_marked_stale", ip->UpdateComponents == true);
	vf_check("frame.tables_per_user_number", ip->GetSelectedOutputCount() == 2 && ip->SelectedOutputMap.size() == 2 &&
		 ip->SelectedOutputMap.count(1) == 1 && ip->SelectedOutputMap.count(3) == 1);
	vf_check("frame.pr_all_follows_output_sinks", ip->PhreeqcPtr->pr.all == (so ? TRUE : FALSE));
	/* event order of one simulation */
	vf_check("frame.engine_sequence", strstr(g_ev, "read_input|tidy_model|reactions|inverse_models|run_as_cells|do_mixes|") == g_ev);

	std::string want_out = "out line 1\nout line 2\n", want_log = "log A\n", want_s1 = "h1\th2\n1\t2\n", want_s3 = "x\n1\t2\n";
	for (int k = 2; k <= g_sims; k++) { want_out += "more output\n"; want_log += "log B\nlog C\n"; want_s1 += "h1\th2\n3\t4\n"; want_s3 += "x\n3\t4\n"; }
	std::string want_dump;
	for (int k = 1; k <= g_sims; k++) { if (!g_dump_append) want_dump.clear(); want_dump += g_dump_text[k - 1]; }

	if (so) vf_check("output.string", want_out == ip->GetOutputString());
	vf_check("output.lines", lines_match(so ? want_out.c_str() : "", ip->GetOutputStringLineCount(), g_out, ip));
	if (sl) vf_check("log.string", want_log == ip->GetLogString());
	vf_check("log.lines", lines_match(sl ? want_log.c_str() : "", ip->GetLogStringLineCount(), g_log, ip));
	if (sd) vf_check("dump.string", want_dump == ip->GetDumpString());
	vf_check("dump.lines", lines_match(sd ? want_dump.c_str() : "", ip->GetDumpStringLineCount(), g_dmp, ip));
	ip->SetCurrentSelectedOutputUserNumber(1);
	if (ss1) vf_check("selected_output.1.string", want_s1 == ip->GetSelectedOutputString());
	vf_check("selected_output.1.lines", lines_match(ss1 ? want_s1.c_str() : "", ip->GetSelectedOutputStringLineCount(), g_sel, ip));
	ip->SetCurrentSelectedOutputUserNumber(3);
	if (ss3) vf_check("selected_output.3.string", want_s3 == ip->GetSelectedOutputString());
	vf_check("selected_output.3.lines", lines_match(ss3 ? want_s3.c_str() : "", ip->GetSelectedOutputStringLineCount(), g_sel, ip));
}

extern "C" void vfh_C09_stopped_run(void)
{
	new (&IPhreeqc::Instances) std::map<size_t, IPhreeqc*>();
	IPhreeqc::InstancesIndex = 0;
	IPhreeqc *ip = g_ip = new IPhreeqc();
	g_sims = (int) vf_int("simulations", 1, 3);
	g_stop_at = (int) vf_int("stops_in_simulation", 0, 3);
	vf_assume(g_stop_at <= g_sims);
	bool on = vf_int("string_switches_on", 0, 1) != 0;
	ip->SetOutputStringOn(on); ip->SetLogStringOn(on); ip->SetDumpStringOn(on);
	ip->SetCurrentSelectedOutputUserNumber(3); ip->SetSelectedOutputStringOn(on);
	ip->SetCurrentSelectedOutputUserNumber(1); ip->SetSelectedOutputStringOn(on);
	ip->log_on = true; ip->output_on = true; ip->punch_on = true;
	g_dump_append = 0;
	g_dump_text[0] = "SOLUTION_RAW 1\n -temp 25\n"; g_dump_text[1] = "SOLUTION_RAW 2\n -temp 30\n"; g_dump_text[2] = "MIX_RAW 3\n";
	g_on_sim = on_sim; g_read = 0; g_evn = 0;
	ip->DatabaseLoaded = true;
	new (&ip->PhreeqcPtr->keycount) std::vector<int>(Keywords::KEY_COUNT_KEYWORDS, 0);
	new (&ip->PhreeqcPtr->title_x) std::string();
	/* leftovers of an earlier run in the line views */
	ip->OutputLines.push_back("stale"); ip->LogLines.push_back("stale");
	ip->UpdateComponents = false;            /* the list was queried after the previous run */

	int rc = -99; bool threw = false;
	try { rc = ip->RunString("SOLUTION 1\nEND\n"); } catch (...) { threw = true; }
	vf_reach("stopped_run.done");
	vf_check("stopped.returns_normally", !threw);
	vf_check("stopped.nonzero_iff_error", (rc != 0) == (g_stop_at != 0));
	vf_check("stopped.component_list_rebuilt_at_next_query", ip->UpdateComponents);
	vf_check("stopped.output_written_before_the_stop_is_kept", !on || strstr(ip->GetOutputString(), "out line 1") != 0);
	vf_check("stopped.output_lines_agree_with_string", lines_match(on ? ip->GetOutputString() : "", ip->GetOutputStringLineCount(), g_out, ip));
	vf_check("stopped.log_lines_agree_with_string", lines_match(on ? ip->GetLogString() : "", ip->GetLogStringLineCount(), g_log, ip));
	for (int u = 1; u <= 3; u += 2)
	{
		if (ip->SetCurrentSelectedOutputUserNumber(u) != VR_OK) continue;
		vf_check("stopped.selected_output_lines_agree_with_string", lines_match(on ? ip->GetSelectedOutputString() : "", ip->GetSelectedOutputStringLineCount(), g_sel, ip));
	}
}
