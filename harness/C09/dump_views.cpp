// @static_init Utils.cxx dumper.cpp StorageBinList.cpp
// @id C09.dump_file_and_string_agree
// @engine B
// @entry vfh_C09_dump_views
// @shared_state_watch
// @tier Q
// @opts max_steps=30000000
// @reach dump.done
// @funcs IPhreeqc::do_run; Phreeqc::dump_entities; PHRQ_io::dump_open
// @bounds the real run driver and the real dump step (dump_entities: switch tests, open mode, file) for 1..3 simulations each carrying a DUMP request; the serialisation itself (dump_ostream) emits fixed text per simulation; DUMP -append true / false; PRINT -dump true / false; dump file and dump string both switched on; the file is the engine's file model (content readable after the run)
// @oracle the dump file and the dump string are two views of the same stream: after the run the file holds exactly what GetDumpString returns - with -append the dumps of all simulations, without it the last one, and nothing at all when PRINT -dump false suppresses dumping
// @stubs engine entry points of do_run (events), dump_ostream (fixed text per simulation)
// @outside the serialisation (C10 round trips), disk errors (C08.requests_consumed)
#define VF_REAL_DUMP_ENTITIES
#include "../common/engine_stubs.inc"
#include "../common/engine_run_stubs.inc"
#include "SelectedOutput.h"
#include <fstream>

static int g_pr_dump = TRUE;
static void on_sim(Phreeqc *p, int k)
{
	/* a DUMP block in every simulation */
	p->dump_info.Set_append(g_dump_append != 0);
	p->dump_info.SetAll(true);
	p->dump_info.Set_on(true);
	p->dump_info.Set_file_name("dump.out");
	p->pr.dump = g_pr_dump;
}

extern "C" void vfh_C09_dump_views(void)
{
	new (&IPhreeqc::Instances) std::map<size_t, IPhreeqc*>();
	IPhreeqc::InstancesIndex = 0;
	IPhreeqc *ip = new IPhreeqc();
	g_sims = (int) vf_int("simulations", 1, 3);
	g_dump_append = (int) vf_int("dump_append", 0, 1);
	g_pr_dump = vf_int("print_dump", 0, 1) ? TRUE : FALSE;
	ip->SetDumpFileOn(true); ip->SetDumpStringOn(true); ip->SetDumpFileName("dump.out");
	g_dump_text[0] = "SOLUTION_RAW 1\n -temp 25\n"; g_dump_text[1] = "SOLUTION_RAW 2\n -temp 30\n"; g_dump_text[2] = "MIX_RAW 3\n";
	g_on_sim = on_sim; g_read = 0; g_evn = 0;
	ip->DatabaseLoaded = true;
	new (&ip->PhreeqcPtr->keycount) std::vector<int>(Keywords::KEY_COUNT_KEYWORDS, 0);
	new (&ip->PhreeqcPtr->title_x) std::string();
	std::string text("SOLUTION 1\nEND\n");
	std::istringstream iss(text);
	ip->do_run("RunString", &iss, NULL, NULL, NULL);
	vf_reach("dump.done");
	std::string file;
	{
		std::ifstream f("dump.out");
		std::string line;
		while (f.is_open() && std::getline(f, line)) { file += line; file += "\n"; }
	}
	std::string str = ip->GetDumpString();
	vf_check("dump.file_and_string_hold_the_same_text", file == str);
	std::string want;
	if (g_pr_dump) for (int k = 1; k <= g_sims; k++) { if (!g_dump_append) want.clear(); want += g_dump_text[k - 1]; }
	vf_check("dump.string_is_what_was_dumped", str == want);
}
