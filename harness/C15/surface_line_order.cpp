// @static_init ALL
// @id C15.surface_line_order
// @engine B
// @entry vfh_C15_surface_line_order
// @shared_state_watch
// @tier Q
// @opts max_steps=60000000 budget_s=300
// @reach surface.read
// @funcs Phreeqc::read_surface
// @bounds a SURFACE block with two site types of one surface (Hfo_sOH, Hfo_wOH) read by the real reader into a really constructed engine, written in both line orders; the line that carries the specific area and mass is the strong-site or the weak-site line (case split); sites, area and mass symbolic
// @oracle reordering constituents within a block does not change the result: both orders store the same surface - the same site amounts per site type and, for the shared charge plane, the specific area and mass that the block states (not a default re-applied by a later line)
// @stubs PHRQ_io::error_msg / warning_msg / output_msg / echo_msg (events)
// @outside the surface calculation itself; -equilibrate, -sites_units density, surfaces related to phases or kinetics
#include "Phreeqc.h"
#include "Surface.h"
#include "vf.h"
#include <sstream>
#include <string.h>

static int g_err = 0;
void PHRQ_io::error_msg(const char *err_str, bool stop) { g_err++; vf_event_s("error_msg", err_str); }
void PHRQ_io::warning_msg(const char *err_str) { vf_event_s("warning_msg", err_str); }
void PHRQ_io::output_msg(const char *str) {}
void PHRQ_io::echo_msg(const char *str) {}

extern "C" void vfh_C15_surface_line_order(void)
{
	PHRQ_io io;
	Phreeqc *p = new Phreeqc(&io);
	p->do_initialize();
	double s_sites = vf_double("strong_sites", 1e-7, 1e-3), w_sites = vf_double("weak_sites", 1e-6, 1e-2);
	double area = vf_double("specific_area", 1, 1000), mass = vf_double("mass", 0.01, 10);
	int on_strong = (int) vf_int("area_on_strong_site_line", 0, 1);
	for (int order = 0; order < 2; order++)
	{
		std::ostringstream ls, lw, os;
		ls.precision(17); lw.precision(17);
		ls << " Hfo_sOH " << s_sites; lw << " Hfo_wOH " << w_sites;
		if (on_strong) ls << " " << area << " " << mass; else lw << " " << area << " " << mass;
		os << (order == 0 ? ls.str() : lw.str()) << "\n" << (order == 0 ? lw.str() : ls.str()) << "\nEND\n";
		std::string text = os.str();
		std::istringstream is(text);
		io.push_istream(&is, false);
		char kw[32]; snprintf(kw, sizeof kw, "SURFACE %d", order + 1);
		strcpy(p->line, kw); strcpy(p->line_save, kw);
		p->read_surface();
		io.pop_istream();
	}
	vf_reach("surface.read");
	vf_check("surface.no_errors", g_err == 0 && p->input_error == 0);
	vf_check("surface.both_stored", p->Rxn_surface_map.count(1) == 1 && p->Rxn_surface_map.count(2) == 1);
	if (p->Rxn_surface_map.count(1) != 1 || p->Rxn_surface_map.count(2) != 1) return;
	cxxSurface &a = p->Rxn_surface_map[1], &b = p->Rxn_surface_map[2];
	vf_check("surface.two_site_types_one_plane", a.Get_surface_comps().size() == 2 && b.Get_surface_comps().size() == 2 &&
		 a.Get_surface_charges().size() == 1 && b.Get_surface_charges().size() == 1);
	if (a.Get_surface_charges().size() != 1 || b.Get_surface_charges().size() != 1) return;
	vf_close("surface.area_as_stated_first_order", a.Get_surface_charges()[0].Get_specific_area(), area, 0, 0);
	vf_close("surface.area_as_stated_second_order", b.Get_surface_charges()[0].Get_specific_area(), area, 0, 0);
	vf_close("surface.mass_as_stated_first_order", a.Get_surface_charges()[0].Get_grams(), mass, 0, 0);
	vf_close("surface.mass_as_stated_second_order", b.Get_surface_charges()[0].Get_grams(), mass, 0, 0);
	for (size_t k = 0; k < a.Get_surface_comps().size() && a.Get_surface_comps().size() == 2 && b.Get_surface_comps().size() == 2; k++)
	{
		cxxSurfaceComp *ca = &a.Get_surface_comps()[k], *cb = b.Find_comp(ca->Get_formula());
		vf_check("surface.same_site_types", cb != NULL);
		if (cb) vf_close("surface.same_site_amounts", cb->Get_moles(), ca->Get_moles(), 0, 0);
	}
}
