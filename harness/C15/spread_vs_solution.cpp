// @static_init ALL
// @id C15.spread_row_equals_solution_block
// @engine B
// @entry vfh_C15_spread_vs_solution
// @shared_state_watch
// @tier Q
// @opts max_steps=60000000 budget_s=300
// @reach spread.read
// @funcs Phreeqc::read_solution_spread; Phreeqc::read_solution; Phreeqc::get_option_string; Phreeqc::spread_row_to_solution
// @bounds one analysis written twice and read by the real readers into a really constructed engine: as a SOLUTION block and as a SOLUTION_SPREAD table with a Number column; columns pH, temp and three constituents chosen by case split from {Ca, P, Cl, Alkalinity, S(6), Fe(2), U} (element names that are also prefixes of option names - P of pH / pe / pressure, U of units, Te... of temp - are what the table reader has to tell apart); all values symbolic (they travel through the text as placeholders); block-level units mmol/kgw or mg/l (case split)
// @oracle equivalent descriptions give the same result: the stored solution of the table row equals that of the block - same constituents (names), each with the same input concentration, units and redox couple, same pH, temperature and default units; no constituent is lost or taken for an option, no error is reported
// @stubs PHRQ_io::error_msg / warning_msg / output_msg / echo_msg (events)
// @outside the speciation of the stored solution; per-column units, isotopes
#include "Phreeqc.h"
#include "Solution.h"
#include "ISolution.h"
#include "vf.h"
#include <sstream>
#include <string.h>

static int g_err = 0;
void PHRQ_io::error_msg(const char *err_str, bool stop) { g_err++; vf_event_s("error_msg", err_str); }
void PHRQ_io::warning_msg(const char *err_str) { vf_event_s("warning_msg", err_str); }
void PHRQ_io::output_msg(const char *str) {}
void PHRQ_io::echo_msg(const char *str) {}

static const char *EL[7] = {"Ca", "P", "Cl", "Alkalinity", "S(6)", "Fe(2)", "U"};

extern "C" void vfh_C15_spread_vs_solution(void)
{
	PHRQ_io io;
	Phreeqc *p = new Phreeqc(&io);
	p->do_initialize();
	int e0 = (int) vf_int("first_constituent", 0, 6), units = (int) vf_int("block_units", 0, 1);
	int e1 = (e0 + 1) % 7, e2 = (e0 + 3) % 7;
	double c[3] = {vf_double("conc_1", 1e-6, 100), vf_double("conc_2", 1e-6, 100), vf_double("conc_3", 1e-6, 100)};
	double ph = vf_double("pH", 2, 12), tc = vf_double("temp", 0, 100);
	const char *U = units ? "mg/l" : "mmol/kgw";
	int el[3] = {e0, e1, e2};
	{	/* SOLUTION block */
		std::ostringstream os; os.precision(17);
		os << " units " << U << "\n pH " << ph << "\n temp " << tc << "\n";
		for (int k = 0; k < 3; k++) os << " " << EL[el[k]] << " " << c[k] << "\n";
		os << "END\n";
		std::string text = os.str();
		std::istringstream is(text);
		io.push_istream(&is, false);
		strcpy(p->line, "SOLUTION 1"); strcpy(p->line_save, "SOLUTION 1");
		p->read_solution();
		io.pop_istream();
	}
	{	/* SOLUTION_SPREAD table */
		std::ostringstream os; os.precision(17);
		os << " -units " << U << "\n";
		os << "Number\tpH\ttemp";
		for (int k = 0; k < 3; k++) os << "\t" << EL[el[k]];
		os << "\n2\t" << ph << "\t" << tc;
		for (int k = 0; k < 3; k++) os << "\t" << c[k];
		os << "\nEND\n";
		std::string text = os.str();
		std::istringstream is(text);
		io.push_istream(&is, false);
		p->read_solution_spread();
		io.pop_istream();
	}
	vf_reach("spread.read");
	vf_check("spread.no_errors", g_err == 0 && p->input_error == 0);
	vf_check("spread.both_stored", p->Rxn_solution_map.count(1) == 1 && p->Rxn_solution_map.count(2) == 1);
	if (p->Rxn_solution_map.count(1) != 1 || p->Rxn_solution_map.count(2) != 1) return;
	cxxSolution &a = p->Rxn_solution_map[1], &b = p->Rxn_solution_map[2];
	vf_close("spread.pH", b.Get_ph(), a.Get_ph(), 0, 0);
	vf_close("spread.temperature", b.Get_tc(), a.Get_tc(), 0, 0);
	cxxISolution *ia = a.Get_initial_data(), *ib = b.Get_initial_data();
	vf_check("spread.initial_data_present", ia != NULL && ib != NULL);
	if (!ia || !ib) return;
	vf_check("spread.default_units", ia->Get_units() == ib->Get_units());
	vf_check("spread.same_number_of_constituents", ia->Get_comps().size() == ib->Get_comps().size() && ia->Get_comps().size() == 3);
	for (int k = 0; k < 3; k++)
	{
		std::map<std::string, cxxISolutionComp>::iterator xa = ia->Get_comps().find(EL[el[k]]), xb = ib->Get_comps().find(EL[el[k]]);
		vf_check("spread.constituent_present_in_both", xa != ia->Get_comps().end() && xb != ib->Get_comps().end());
		if (xa == ia->Get_comps().end() || xb == ib->Get_comps().end()) continue;
		vf_close("spread.input_concentration", xb->second.Get_input_conc(), xa->second.Get_input_conc(), 0, 0);
		vf_check("spread.constituent_units", xa->second.Get_units() == xb->second.Get_units());
		vf_check("spread.constituent_redox_couple", xa->second.Get_pe_reaction() == xb->second.Get_pe_reaction());
	}
}
