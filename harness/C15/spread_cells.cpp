// @static_init NameDouble.cxx Solution.cxx Utils.cxx ISolution.cxx SolutionIsotope.cxx
// @id C15.spread_cells_tab_separated
// @engine B
// @entry vfh_C15_spread_cells
// @shared_state_watch
// @tier Q
// @reach cells.done
// @funcs Phreeqc::copy_token_tab
// @bounds one row of a SOLUTION_SPREAD table split by the real cell reader: 4 cells, each cell empty, blank-padded or filled (3^4 rows, case split), separated by TAB characters
// @oracle TAB is the cell separator of SOLUTION_SPREAD: the k-th call returns the k-th cell (leading blanks stripped), an empty cell is returned as empty and still counts as a cell, so that values stay under their headings; after the last cell the reader reports the end of the line
// @stubs none
// @outside what is done with the cells (C15.spread_row_equals_solution_block)
// @id C15.solution_add_extensive
// @also C02
// @engine B
// @entry vfh_C15_solution_add
// @shared_state_watch
// @tier Q
// @reach add.done
// @funcs cxxSolution::add; cxxNameDouble::add_extensive
// @bounds the routine behind SOLUTION_MIX / MIX_SOLUTION: solution B added to solution A with a symbolic factor in [0.01,10]; water masses, total H, total O, charge imbalance, alkalinity, solution volume and two element totals symbolic; intensive properties (temperature, pH, density) symbolic
// @oracle mixing is linear in the extensive quantities: afterwards every extensive property of A (water mass, total H, total O, charge imbalance, alkalinity, volume, each element total) is its old value + factor x the value of B - so a self-mix of two identical halves reproduces the original and the order of mixing three waters does not matter; intensive properties are the water-mass-weighted means
// @stubs none
// @outside isotopes, species maps
#include "Phreeqc.h"
#include "Solution.h"
#include "vf.h"
#include <new>
#include <string.h>
#ifndef EOL
#define EOL 14       /* spread.cpp:12 */
#endif

extern "C" void vfh_C15_spread_cells(void)
{
	Phreeqc *p = (Phreeqc *) vf_raw(sizeof(Phreeqc));
	static const char *CELL[3] = {"", "  ", " 12.5 "};
	static const char *CONTENT[3] = {"", "", "12.5 "};        /* leading blanks are stripped here, trailing ones by the callers */
	int k[4]; std::string row;
	static const char *NM[4] = {"cell_1", "cell_2", "cell_3", "cell_4"};
	for (int i = 0; i < 4; i++) { k[i] = (int) vf_int(NM[i], 0, 2); row += CELL[k[i]]; if (i < 3) row += "\t"; }
	const char *cptr = row.c_str();
	for (int i = 0; i < 4; i++)
	{
		std::string tok = "junk";
		int rv = p->copy_token_tab(tok, &cptr);
		/* a trailing run of empty cells is indistinguishable from the end of the line */
		bool rest_empty = true; for (int j = i; j < 4; j++) rest_empty = rest_empty && k[j] != 2;
		if (rest_empty && rv == EOL) break;
		vf_check("cells.kth_call_returns_kth_cell", tok == CONTENT[k[i]]);
		vf_check("cells.empty_cell_reported_as_empty", (k[i] == 2) == (rv == DIGIT) && (k[i] == 2 || rv == EMPTY || rv == EOL));
	}
	vf_reach("cells.done");
}

extern "C" void vfh_C15_solution_add(void)
{
	cxxSolution a, b;
	double f = vf_double("factor", 0.01, 10);
	struct V { double w, h, o, cb, alk, vol, na, cl, tc, ph, dens; } A, B;
	A.w = vf_double("A_water", 0.1, 10); B.w = vf_double("B_water", 0.1, 10);
	A.h = vf_double("A_total_h", 10, 1200); B.h = vf_double("B_total_h", 10, 1200);
	A.o = vf_double("A_total_o", 5, 600); B.o = vf_double("B_total_o", 5, 600);
	A.cb = vf_double("A_cb", -0.01, 0.01); B.cb = vf_double("B_cb", -0.01, 0.01);
	A.alk = vf_double("A_alk", 0, 0.01); B.alk = vf_double("B_alk", 0, 0.01);
	A.vol = vf_double("A_vol", 0.1, 10); B.vol = vf_double("B_vol", 0.1, 10);
	A.na = vf_double("A_Na", 0, 1); B.na = vf_double("B_Na", 0, 1);
	A.cl = vf_double("A_Cl", 0, 1); B.cl = vf_double("B_Cl", 0, 1);
	A.tc = vf_double("A_tc", 0, 100); B.tc = vf_double("B_tc", 0, 100);
	A.ph = vf_double("A_pH", 2, 12); B.ph = vf_double("B_pH", 2, 12);
	A.dens = vf_double("A_density", 0.9, 1.3); B.dens = vf_double("B_density", 0.9, 1.3);
	cxxSolution *S[2] = {&a, &b}; V *W[2] = {&A, &B};
	for (int i = 0; i < 2; i++)
	{
		S[i]->Set_mass_water(W[i]->w); S[i]->Set_total_h(W[i]->h); S[i]->Set_total_o(W[i]->o); S[i]->Set_cb(W[i]->cb);
		S[i]->Set_total_alkalinity(W[i]->alk); S[i]->Set_soln_vol(W[i]->vol); S[i]->Set_tc(W[i]->tc); S[i]->Set_ph(W[i]->ph); S[i]->Set_density(W[i]->dens);
		S[i]->Get_totals()["Na"] = W[i]->na;
	}
	b.Get_totals()["Cl"] = B.cl;              /* an element that A does not have yet */
	a.add(b, f);
	vf_reach("add.done");
	vf_close("add.water_mass", a.Get_mass_water(), A.w + f * B.w, 1e-12, 0);
	vf_close("add.total_h", a.Get_total_h(), A.h + f * B.h, 1e-12, 0);
	vf_close("add.total_o", a.Get_total_o(), A.o + f * B.o, 1e-12, 0);
	vf_close("add.charge_imbalance", a.Get_cb(), A.cb + f * B.cb, 1e-12, 1e-18);
	vf_close("add.alkalinity", a.Get_total_alkalinity(), A.alk + f * B.alk, 1e-12, 1e-18);
	vf_close("add.volume", a.Get_soln_vol(), A.vol + f * B.vol, 1e-12, 0);
	vf_close("add.element_total", a.Get_totals()["Na"], A.na + f * B.na, 1e-12, 1e-18);
	vf_close("add.element_new_to_the_receiver", a.Get_totals()["Cl"], f * B.cl, 1e-12, 1e-18);
	double f1 = A.w / (A.w + f * B.w), f2 = f * B.w / (A.w + f * B.w);
	vf_close("add.temperature_weighted_by_water", a.Get_tc(), f1 * A.tc + f2 * B.tc, 1e-9, 1e-12);
	vf_close("add.pH_weighted_by_water", a.Get_ph(), f1 * A.ph + f2 * B.ph, 1e-9, 1e-12);
	vf_close("add.density_weighted_by_water", a.Get_density(), f1 * A.dens + f2 * B.dens, 1e-9, 1e-12);
}
