// @static_init NameDouble.cxx Solution.cxx ISolution.cxx ISolutionComp.cxx Utils.cxx
// @id C15.convert_units
// @also C01
// @engine B
// @entry vfh_C15_convert_units
// @shared_state_watch
// @tier Q
// @reach convert_units.done
// @funcs Phreeqc::convert_units
// @bounds one solution with 2 constituents (Ca with its own unit and explicit gfw, Cl in the block's default unit); the unit of the block and the unit of Ca range over the canonical table {Mol,mMol,uMol,g,mg,ug,eq,meq,ueq} x {/l,/kgs,/kgw} with equal denominators (documented restriction); quick: 9 per-element units x 3 denominators with block prefix mMol; thorough: 9 x 9 x 3; concentrations in [1e-9,1e3], gfw in [1,300], density in [0.9,1.5], pH in [2,12], water mass in [0.01,100] (symbolic)
// @oracle SI definitions: moles per kg water = c x prefix(own unit) [/ gfw if the unit is gram based] [/ density if per litre] [/ (1 - 1e-3 x grams of solutes per kg solution) if per litre or per kg solution], times the mass of water; hence equivalent descriptions of one amount in different units give equal totals
// @stubs Phreeqc::compute_gfw (H: 1.008, OH: 17.007), master_bsearch (non-isotope master), error_msg, warning_msg, sformatf
// @outside spelling normalisation of unit strings (check_units), density iteration, alkalinity as CaCO3
#include "Phreeqc.h"
#include "Solution.h"
#include "ISolution.h"
#include "vf.h"
#include <new>
#include <string.h>
#include <math.h>
#ifndef VF_TIER
#define VF_TIER 1
#endif

static class master g_master;
int Phreeqc::compute_gfw(const char *string, LDBLE *gfw) { *gfw = !strcmp(string, "H") ? 1.008 : !strcmp(string, "OH") ? 17.007 : 50.0; return OK; }
class master *Phreeqc::master_bsearch(const char *ptr) { return &g_master; }
char *Phreeqc::sformatf(const char *format, ...) { static char b[4] = "msg"; return b; }
void Phreeqc::error_msg(const char *err_str, bool stop) { vf_event_s("error_msg", err_str); vf_assume(0); }
int Phreeqc::warning_msg(const char *err_str) { vf_event_s("warning_msg", err_str); return OK; }

static const char *NUM[9] = {"Mol", "mMol", "uMol", "g", "mg", "ug", "eq", "meq", "ueq"};
static const char *DEN[3] = {"/l", "/kgs", "/kgw"};
static double prefix(int n) { return (n % 3) == 0 ? 1.0 : (n % 3) == 1 ? 1e-3 : 1e-6; }

extern "C" void vfh_C15_convert_units(void)
{
	Phreeqc *p = (Phreeqc *) vf_raw(sizeof(Phreeqc));
	const double ln10 = 2.302585092994046;
	p->LOG_10 = ln10;
	new (&p->moles_per_kilogram_string) std::string("Mol/kgw");
	p->density_iterations = 0;
	int den = (int) vf_int("denominator", 0, 2);
	int nb = VF_TIER >= 2 ? (int) vf_int("block_unit", 0, 8) : 1;
	int nc = (int) vf_int("element_unit", 0, 8);
	char ub[16], uc[16];
	strcpy(ub, NUM[nb]); strcat(ub, DEN[den]);
	strcpy(uc, NUM[nc]); strcat(uc, DEN[den]);

	cxxSolution sol;
	sol.Set_new_def(true);
	sol.Create_initial_data();
	double pH = vf_double("pH", 2.0, 12.0), rho = vf_double("density", 0.9, 1.5), W = vf_double("mass_water", 0.01, 100.0);
	sol.Set_ph(pH); sol.Set_density(rho); sol.Set_mass_water(W);
	sol.Get_initial_data()->Set_units(ub);
	double c1 = vf_double("conc_Ca", 1e-9, 1e3), g1 = vf_double("gfw_Ca", 1.0, 300.0);
	double c2 = vf_double("conc_Cl", 1e-9, 1e3), g2 = vf_double("gfw_Cl", 1.0, 300.0);
	cxxISolutionComp ca, cl;
	ca.Set_description("Ca"); ca.Set_input_conc(c1); ca.Set_units(uc); ca.Set_gfw(g1);
	cl.Set_description("Cl"); cl.Set_input_conc(c2); cl.Set_units(ub); cl.Set_gfw(g2);
	sol.Get_initial_data()->Get_comps()["Ca"] = ca;
	sol.Get_initial_data()->Get_comps()["Cl"] = cl;

	int rc = p->convert_units(&sol);
	vf_reach("convert_units.done");
	vf_check("convert_units.rc", rc == OK);

	/* reference */
	bool per_l = den == 0, per_kgw = den == 2;
	double a1 = c1 * prefix(nc), a2 = c2 * prefix(nb);         /* amount per (l | kgs | kgw) in g, mol or eq */
	if (per_l) { a1 = a1 / rho; a2 = a2 / rho; }              /* -> per kg solution */
	bool gram1 = nc >= 3 && nc <= 5, gram2 = nb >= 3 && nb <= 5;
	double grams = exp(-pH * ln10) * 1.008 + exp((-14 + pH) * ln10) * 17.007;
	if (!per_kgw)
	{
		grams += gram1 ? a1 : a1 * g1;
		grams += gram2 ? a2 : a2 * g2;
	}
	double m1 = gram1 ? a1 / g1 : a1, m2 = gram2 ? a2 / g2 : a2;
	if (!per_kgw)
	{
		double kgw_per_kgs = 1.0 - 1e-3 * grams;
		vf_assume(kgw_per_kgs > 0.05);
		m1 = m1 / kgw_per_kgs; m2 = m2 / kgw_per_kgs;
	}
	vf_close("convert_units.Ca", sol.Get_totals()["Ca"], m1 * W, 1e-9, 0);
	vf_close("convert_units.Cl", sol.Get_totals()["Cl"], m2 * W, 1e-9, 0);
	vf_check("convert_units.units_normalised", sol.Get_initial_data()->Get_units() == "Mol/kgw");
}
