// @id C18.sets
// @engine B
// @entry vfh_C18_sets
// @shared_state_watch
// @tier Q
// @reach sets.done
// @funcs Phreeqc::subset_bad; Phreeqc::subset_minimal; Phreeqc::superset_minimal; Phreeqc::set_bit; Phreeqc::get_bits; Phreeqc::save_bad; Phreeqc::save_minimal
// @bounds arbitrary 64-bit masks (bit-vector symbols) and remembered lists of 0..3 masks; bit positions 0..30 (case split; position 31, reachable only with exactly 32 phases+solutions - the documented maximum and far outside the property's 2..4 solutions / 2..12 phases - is excluded: there `1 << 31` is evaluated on int and sign-extends into the upper half of the mask)
// @oracle set semantics on bit masks: subset_bad(b) <=> b is a subset of some remembered infeasible set; subset_minimal(b) <=> b is a subset of some minimal model; superset_minimal(b) <=> b contains some minimal model; set_bit/get_bits write and read exactly one position
// @stubs none
// @outside the LP solve (cl1)
// @id C18.minimal_solve
// @engine B
// @entry vfh_C18_minimal_solve
// @shared_state_watch
// @tier Q
// @reach minimal.done
// @funcs Phreeqc::minimal_solve; Phreeqc::subset_bad; Phreeqc::save_bad; Phreeqc::set_bit
// @bounds 1..3 phases and 2..3 solutions (the last solution is the final solution and always stays); feasibility of a candidate set is an arbitrary monotone predicate "contains A or contains B" with A, B arbitrary symbolic subsets (bit-vectors); start from a feasible set
// @oracle the set returned for a reported -minimal model is feasible and minimal: removing any single phase or initial solution from it makes the problem infeasible - hence no reported model can strictly contain another reported model
// @stubs Phreeqc::solve_with_mask (the monotone feasibility oracle; fills inv_delta1 with non-zeros exactly on the mask), warning_msg, output_msg, sformatf
// @outside the LP solve itself (cl1), round-off in the deltas
#include "Phreeqc.h"
#include "vf.h"
#include <new>

static unsigned long g_A, g_B; static int g_np, g_ns; static int g_calls = 0;
static bool feasible(unsigned long m) { return (m & g_A) == g_A || (m & g_B) == g_B; }
int Phreeqc::solve_with_mask(class inverse *inv_ptr, unsigned long cur_bits)
{
	g_calls++;
	for (int i = 0; i < g_ns; i++) inv_delta1[i] = ((cur_bits >> (i + g_np)) & 1ul) ? 1.0 : 0.0;
	for (int i = 0; i < g_np; i++) inv_delta1[i + g_ns] = ((cur_bits >> i) & 1ul) ? 1.0 : 0.0;
	return feasible(cur_bits) ? OK : ERROR;
}
int Phreeqc::warning_msg(const char *err_str) { vf_event_s("warning_msg", err_str); return OK; }
void Phreeqc::output_msg(const char *str) {}
char *Phreeqc::sformatf(const char *format, ...) { static char b[4] = "msg"; return b; }

static Phreeqc *mk(void)
{
	Phreeqc *p = (Phreeqc *) vf_raw(sizeof(Phreeqc));
	new (&p->good) std::vector<unsigned long>(4); new (&p->bad) std::vector<unsigned long>(4); new (&p->minimal) std::vector<unsigned long>(4);
	p->max_good = p->max_bad = p->max_minimal = 4;
	new (&p->inv_delta1) std::vector<double>(16, 0.0);
	return p;
}

extern "C" void vfh_C18_sets(void)
{
	Phreeqc *p = mk();
	int n = (int) vf_int("n_remembered", 0, 3);
	unsigned long s[3];
	for (int i = 0; i < n; i++) { s[i] = (unsigned long) vf_int("set", -9223372036854775807L - 1, 9223372036854775807L); p->save_bad(s[i]); p->save_minimal(s[i]); }
	unsigned long b = (unsigned long) vf_int("bits", -9223372036854775807L - 1, 9223372036854775807L);
	bool sub = false, sup = false;
	for (int i = 0; i < n; i++) { if ((b & ~s[i]) == 0) sub = true; if ((s[i] & ~b) == 0) sup = true; }
	vf_check("sets.subset_bad", (p->subset_bad(b) == TRUE) == sub);
	vf_check("sets.subset_minimal", (p->subset_minimal(b) == TRUE) == sub);
	vf_check("sets.superset_minimal", (p->superset_minimal(b) == TRUE) == sup);
	int pos = (int) vf_int("position", 0, 30);
	unsigned long one = p->set_bit(b, pos, 1), zero = p->set_bit(b, pos, 0);
	vf_check("sets.set_bit.1", one == (b | (1ul << pos)));
	vf_check("sets.set_bit.0", zero == (b & ~(1ul << pos)));
	vf_check("sets.get_bits", p->get_bits(one, pos, 1) == 1 && p->get_bits(zero, pos, 1) == 0);
	vf_reach("sets.done");
}

extern "C" void vfh_C18_minimal_solve(void)
{
	Phreeqc *p = mk();
	g_np = (int) vf_int("phases", 1, 3);
	g_ns = (int) vf_int("solutions", 2, 3);
	int n = g_np + g_ns;
	unsigned long all = (1ul << n) - 1, last = 1ul << (n - 1);
	g_A = ((unsigned long) vf_int("minimal_A", 0, 255) & all) | last;     /* every feasible set contains the final solution */
	g_B = ((unsigned long) vf_int("minimal_B", 0, 255) & all) | last;
	unsigned long start = ((unsigned long) vf_int("start", 0, 255) & all) | last;
	vf_assume(feasible(start));
	class inverse inv;
	inv.phases.resize(g_np);
	inv.count_solns = g_ns;
	unsigned long r = p->minimal_solve(&inv, start);
	vf_reach("minimal.done");
	vf_check("minimal.subset_of_start", (r & ~start) == 0);
	vf_check("minimal.feasible", feasible(r));
	for (int i = 0; i < n - 1; i++)
		if ((r >> i) & 1ul) vf_check("minimal.no_member_removable", !feasible(r & ~(1ul << i)));
}
