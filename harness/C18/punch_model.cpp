// @static_init Utils.cxx SelectedOutput.cpp UserPunch.cpp
// @id C18.models_reach_every_view
// @also C05
// @engine B
// @entry vfh_C18_punch_model
// @shared_state_watch
// @tier Q
// @opts max_steps=30000000
// @reach models.done
// @funcs Phreeqc::punch_model; IPhreeqc::fpunchf
// @bounds the routine that writes one inverse model to selected output (punch_model) called for 1..3 models in a row on an instance whose SELECTED_OUTPUT block has -inverse true; 2 solutions and 1..2 phases (case split); residual sums, mixing fractions and phase transfers with their ranges symbolic; string switch on; the wrapper's value table and string are the real ones
// @oracle a reported inverse model is a row in every view of selected output: after k models the string has k lines and the value table has k data rows with one cell per heading (3 + 3 per solution + 3 per phase), holding the numbers of that model; and the routine leaves no pointer to its temporary heading block behind (current_user_punch is not left pointing at a dead object)
// @stubs Phreeqc engine (events); sformatf unused
// @outside the models themselves (C18.minimal_solve, C18.declared_uncertainties), the heading line (punch_model_heading)
#include "../common/engine_stubs.inc"
#include "SelectedOutput.h"
#include "UserPunch.h"

static int count_lines(const std::string &s) { int n = 0; for (size_t i = 0; i < s.size(); i++) if (s[i] == '\n') n++; return n; }

extern "C" void vfh_C18_punch_model(void)
{
	new (&IPhreeqc::Instances) std::map<size_t, IPhreeqc*>();
	IPhreeqc::InstancesIndex = 0;
	IPhreeqc *ip = new IPhreeqc();
	Phreeqc *p = ip->PhreeqcPtr;
	new (&p->UserPunch_map) std::map<int, UserPunch>();
	new (&p->inverse_heading_names) std::vector<std::string>();
	new (&p->inv_delta1) std::vector<double>(); new (&p->min_delta) std::vector<double>(); new (&p->max_delta) std::vector<double>();
	SelectedOutput &so = p->SelectedOutput_map[1];
	so.Set_n_user(1); so.Reset(false); so.Set_inverse(true); so.Set_active(true); so.Set_high_precision(false); so.Set_user_punch(true);
	ip->SelectedOutputMap[1] = new CSelectedOutput();
	ip->SelectedOutputStringMap[1] = std::string();
	ip->SelectedOutputStringOn[1] = true; ip->CurrentSelectedOutputUserNumber = 1;
	ip->punch_on = true; p->pr.punch = TRUE;
	int models = (int) vf_int("models", 1, 3), phases = (int) vf_int("phases", 1, 2);
	static class inverse inv;
	inv.count_solns = 2;
	const int ncol = 3 + 3 * 2 + 3 * phases;
	static const char *HN[15] = {"Sum_resid\t", "Sum_Delta/U\t", "MaxFracErr\t", "Soln_1\t", "Soln_1_min\t", "Soln_1_max\t", "Soln_2\t", "Soln_2_min\t", "Soln_2_max\t",
		"Halite\t", "Halite_min\t", "Halite_max\t", "Gypsum\t", "Gypsum_min\t", "Gypsum_max\t"};
	for (int j = 0; j < ncol; j++) p->inverse_heading_names.push_back(HN[j]);
	p->col_phases = 2; p->col_redox = 2 + phases;
	p->inv_delta1.resize(4); p->min_delta.resize(4); p->max_delta.resize(4);
	double first_value[3];
	for (int k = 0; k < models; k++)
	{
		p->error = vf_double("sum_of_residuals", 1e-6, 1); p->scaled_error = vf_double("scaled_error", 1e-6, 1); p->max_pct = vf_double("max_fraction", 1e-6, 1);
		first_value[k] = p->error;
		for (int i = 0; i < 2 + phases; i++) { p->inv_delta1[i] = vf_double("value", 0.01, 1); p->min_delta[i] = vf_double("value_min", 0.01, 1); p->max_delta[i] = vf_double("value_max", 0.01, 1); }
		p->punch_model(&inv);
	}
	vf_reach("models.done");
	CSelectedOutput *t = ip->SelectedOutputMap[1];
	vf_check("models.one_string_line_per_model", count_lines(ip->SelectedOutputStringMap[1]) == models);
	vf_check("models.one_table_row_per_model", (int) t->GetRowCount() == models + 1);
	vf_check("models.one_cell_per_heading", (int) t->GetColCount() == ncol);
	for (int k = 0; k < models && (int) t->GetRowCount() == models + 1; k++)
	{
		VAR v; VarInit(&v);
		vf_check("models.row_holds_the_numbers_of_its_model", t->Get(k + 1, 0, &v) == VR_OK && v.type == TT_DOUBLE && v.dVal == first_value[k] / .0009765625);     /* inverse.cpp: SCALE_EPSILON */
		VarClear(&v);
	}
	vf_check("models.no_pointer_to_the_temporary_heading_block_left", p->current_user_punch == NULL);
}
