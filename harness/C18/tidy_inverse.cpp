// @id C18.declared_uncertainties
// @engine B
// @entry vfh_C18_declared_uncertainties
// @shared_state_watch
// @tier Q
// @reach inverse.tidied
// @funcs Phreeqc::tidy_inverse; Phreeqc::master_bsearch; Phreeqc::master_bsearch_primary; Phreeqc::phase_bsearch; Phreeqc::elt_list_combine
// @bounds one INVERSE_MODELING definition with 2 solutions and 2 phases (Calcite, Goethite) over a 15-row master table (Alkalinity, C, C(-4), C(4), Ca, E, Fe, Fe(2), Fe(3), H, H(0), H(1), O, O(-2), O(0)); 0, 1 or 2 global uncertainties given; -balances lists Ca with one value and iron in one of three ways (element Fe with two values / valence state Fe(3) with two values / not listed); all uncertainty values symbolic in [-1,1]
// @oracle every mole-balance row carries the uncertainty the input declares for it: rows of every valence state of an element listed at element level carry that element's values, a row listed as a valence state carries its own values, all other rows carry the global values; missing trailing values repeat the last one given (default 0.05); H(1) and O(-2) get no row; both Fe(2) and Fe(3) get rows
// @stubs Phreeqc::error_msg (counted), sformatf
// @outside the optimisation itself (C18.minimal_solve), isotopes, reading the INVERSE_MODELING block
#include "Phreeqc.h"
#include "vf.h"
#include <new>
#include <string.h>

static int g_errs = 0;
void Phreeqc::error_msg(const char *err_str, bool stop) { g_errs++; vf_event_s("error_msg", err_str); }
char *Phreeqc::sformatf(const char *format, ...) { static char b[4] = "msg"; return b; }

enum { MS_ALK, MS_C, MS_Cm4, MS_C4, MS_CA, MS_E, MS_FE, MS_FE2, MS_FE3, MS_H, MS_H0, MS_H1, MS_O, MS_Om2, MS_O0, N_MASTERS };
static const char *MN[N_MASTERS] = {"Alkalinity", "C", "C(-4)", "C(4)", "Ca", "E", "Fe", "Fe(2)", "Fe(3)", "H", "H(0)", "H(1)", "O", "O(-2)", "O(0)"};
static const int PRIM[N_MASTERS] = {1, 1, 0, 0, 1, 1, 1, 0, 0, 1, 0, 0, 1, 0, 0};
static const int PRIM_OF[N_MASTERS] = {MS_ALK, MS_C, MS_C, MS_C, MS_CA, MS_E, MS_FE, MS_FE, MS_FE, MS_H, MS_H, MS_H, MS_O, MS_O, MS_O};
enum { S_CO3, S_CH4, S_CA2, S_EM, S_FE2P, S_FE3P, S_HP, S_H2, S_H2O, S_O2, N_SPEC };
static const int SP_OF[N_MASTERS] = {S_CO3, S_CO3, S_CH4, S_CO3, S_CA2, S_EM, S_FE2P, S_FE2P, S_FE3P, S_HP, S_H2, S_HP, S_H2O, S_H2O, S_O2};
static class master g_m[N_MASTERS]; static class element g_e[N_MASTERS]; static class species g_s[N_SPEC]; static class phase g_ph[2];

extern "C" void vfh_C18_declared_uncertainties(void)
{
	Phreeqc *p = (Phreeqc *) vf_raw(sizeof(Phreeqc));
	new (&p->master) std::vector<class master *>();
	new (&p->phases) std::vector<class phase *>();
	new (&p->inverse) std::vector<class inverse>();
	new (&p->elt_list) std::vector<class elt_list>();
	p->phrq_io = new PHRQ_io();
	for (int i = 0; i < N_MASTERS; i++)
	{
		g_e[i].name = MN[i]; g_e[i].master = &g_m[i]; g_e[i].primary = &g_m[PRIM_OF[i]];
		g_m[i].elt = &g_e[i]; g_m[i].s = &g_s[SP_OF[i]]; g_m[i].primary = PRIM[i]; g_m[i].in = FALSE;
		if (PRIM[i]) g_s[SP_OF[i]].primary = &g_m[i]; else g_s[SP_OF[i]].secondary = &g_m[i];
		p->master.push_back(&g_m[i]);
	}
	g_s[S_CO3].primary = &g_m[MS_C];
	p->s_eminus = &g_s[S_EM]; p->s_co3 = &g_s[S_CO3]; p->s_hplus = &g_s[S_HP]; p->s_h2o = &g_s[S_H2O];
	/* phases, in name order */
	class elt_list el;
	g_ph[0].name = "Calcite";
	el.elt = &g_e[MS_CA]; el.coef = 1; g_ph[0].next_elt.push_back(el); el.elt = &g_e[MS_C]; g_ph[0].next_elt.push_back(el);
	el.elt = &g_e[MS_O]; el.coef = 3; g_ph[0].next_elt.push_back(el); el.elt = NULL; el.coef = 0; g_ph[0].next_elt.push_back(el);
	g_ph[1].name = "Goethite";
	el.elt = &g_e[MS_FE]; el.coef = 1; g_ph[1].next_elt.push_back(el); el.elt = &g_e[MS_O]; el.coef = 2; g_ph[1].next_elt.push_back(el);
	el.elt = &g_e[MS_H]; el.coef = 1; g_ph[1].next_elt.push_back(el); el.elt = NULL; el.coef = 0; g_ph[1].next_elt.push_back(el);
	p->phases.push_back(&g_ph[0]); p->phases.push_back(&g_ph[1]);

	double u[2] = {vf_double("global_unc_1", -1, 1), vf_double("global_unc_2", -1, 1)};
	double f[2] = {vf_double("iron_unc_1", -1, 1), vf_double("iron_unc_2", -1, 1)};
	double c0 = vf_double("calcium_unc", -1, 1);
	int n_global = (int) vf_int("n_global_uncertainties", 0, 2);
	int iron = (int) vf_int("iron_listed_as", 0, 2);            /* 0 element Fe, 1 valence state Fe(3), 2 not listed */

	p->inverse.resize(1); p->count_inverse = 1;
	class inverse &inv = p->inverse[0];
	inv.new_def = TRUE; inv.count_solns = 2;
	for (int k = 0; k < n_global; k++) inv.uncertainties.push_back(u[k]);
	class inv_elts ie;
	ie.name = "Ca"; ie.uncertainties.clear(); ie.uncertainties.push_back(c0); inv.elts.push_back(ie);
	if (iron != 2)
	{
		ie.name = iron == 0 ? "Fe" : "Fe(3)"; ie.uncertainties.clear(); ie.uncertainties.push_back(f[0]); ie.uncertainties.push_back(f[1]);
		inv.elts.push_back(ie);
	}
	class inv_phases ip;
	ip.name = "Calcite"; inv.phases.push_back(ip); ip.name = "Goethite"; inv.phases.push_back(ip);

	int rc = p->tidy_inverse();
	vf_reach("inverse.tidied");
	vf_check("inverse.no_errors", rc == OK && g_errs == 0);
	double g[2];
	g[0] = n_global == 0 ? 0.05 : u[0];
	g[1] = n_global == 0 ? 0.05 : n_global == 1 ? u[0] : u[1];
	bool seen_fe2 = false, seen_fe3 = false, seen_ca = false, seen_c4 = false;
	for (size_t r = 0; r < inv.elts.size(); r++)
	{
		class master *m = inv.elts[r].master;
		vf_check("inverse.row_has_two_values", inv.elts[r].uncertainties.size() == 2);
		vf_check("inverse.no_row_for_H1_O-2", m != &g_m[MS_H1] && m != &g_m[MS_Om2]);
		const double *want = g;
		double ca[2] = {c0, c0};
		if (m == &g_m[MS_CA]) { want = ca; seen_ca = true; }
		else if (m == &g_m[MS_FE2]) { seen_fe2 = true; if (iron == 0) want = f; }
		else if (m == &g_m[MS_FE3]) { seen_fe3 = true; if (iron != 2) want = f; }
		else if (m == &g_m[MS_C4]) seen_c4 = true;
		for (int l = 0; l < 2; l++)
			vf_check(m == &g_m[MS_CA] ? "inverse.calcium_rows_declared_uncertainty" :
			         (m == &g_m[MS_FE2] || m == &g_m[MS_FE3]) ? "inverse.iron_rows_declared_uncertainty" : "inverse.other_rows_global_uncertainty",
			         inv.elts[r].uncertainties[l] == want[l]);
	}
	vf_check("inverse.rows_for_all_balanced_states", seen_fe2 && seen_fe3 && seen_ca && seen_c4);
}
