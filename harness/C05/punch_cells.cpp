// @static_init SSassemblage.cxx SS.cxx SScomp.cxx NameDouble.cxx Utils.cxx SelectedOutput.cpp GasPhase.cxx GasComp.cxx PPassemblage.cxx PPassemblageComp.cxx
// @id C05.one_cell_per_requested_item
// @engine B
// @entry vfh_C05_punch_ss
// @shared_state_watch
// @tier Q
// @reach punch.done
// @funcs Phreeqc::punch_ss_assemblage
// @bounds the routine that writes the -solid_solutions columns of a selected-output row, for 1..3 requested component names out of {Calcite, Barite, Strontianite} and an assemblage of 0..2 solid solutions in which a requested component may be an end member of none, one or both of them (case split); component amounts symbolic
// @oracle every row has one cell per heading: the routine writes exactly one value per requested name, in the order of the request (the symbolic amounts identify the cells); the value is the amount in the first solid solution that has the component (0 if none has it or that solid solution is not present)
// @stubs Phreeqc::fpunchf (recorder), sformatf (heading text)
// @outside the other column groups (same pattern, one fpunchf per request entry in straight-line loops)
// @id C09.sinks_do_not_change_results
// @also C19
// @engine B
// @entry vfh_C09_set_pr_in_false
// @shared_state_watch
// @tier Q
// @reach pr.done
// @funcs Phreeqc::set_pr_in_false
// @bounds the end-of-step reset of the Peng-Robinson "in use" marks when all text output is off (set_pr_in_false, the counterpart of what the print routines do when output is on): a step with an equilibrium-phase assemblage or not, a gas phase or not (case split), two gases marked in use
// @oracle switching output sinks never changes computed results: after the step no phase is left marked as having Peng-Robinson data in use, whichever reactants the step had - exactly what printing the step would have left; otherwise a later step reads stale fugacity coefficients only when output is off
// @stubs Phreeqc::phase_bsearch (table of the two gases)
// @outside the print routines themselves
#include "Phreeqc.h"
#include "SSassemblage.h"
#include "SS.h"
#include "GasPhase.h"
#include "SelectedOutput.h"
#include "vf.h"
#include <new>
#include <string.h>

static int g_n = 0; static char g_name[8][48]; static double g_val[8];
void Phreeqc::fpunchf(const char *name, const char *format, double d) { if (g_n < 8) { strncpy(g_name[g_n], name, 47); g_name[g_n][47] = 0; g_val[g_n] = d; g_n++; } }
char *Phreeqc::sformatf(const char *format, ...) { static char b[8] = "s_name"; return b; }     /* heading text: not part of this obligation */
static class phase g_ph[2];
class phase *Phreeqc::phase_bsearch(const char *cptr, int *j, int print)
{
	for (int i = 0; i < 2; i++) if (!strcmp(cptr, g_ph[i].name)) { *j = i; return &g_ph[i]; }
	return NULL;
}

extern "C" void vfh_C05_punch_ss(void)
{
	Phreeqc *p = (Phreeqc *) vf_raw(sizeof(Phreeqc));
	new (&p->use) cxxUse();
	static SelectedOutput so; static cxxSSassemblage ssa;
	static const char *NM[3] = {"Calcite", "Barite", "Strontianite"};
	int nreq = (int) vf_int("requested_names", 1, 3), nss = (int) vf_int("solid_solutions", 0, 2);
	for (int k = 0; k < nreq; k++) so.Get_s_s().push_back(std::pair<std::string, void *>(NM[k], (void *) 0));
	so.Set_high_precision(false);
	p->current_selected_output = &so;
	/* solid solution 1: Calcite + Strontianite; solid solution 2: Calcite + Barite (Calcite is an end member of both) */
	static const char *MN[4] = {"ss1_Calcite", "ss1_Strontianite", "ss2_Calcite", "ss2_Barite"};
	double m[4]; for (int i = 0; i < 4; i++) m[i] = vf_double(MN[i], 0.001, 10);
	int in1 = (int) vf_int("ss1_present", 0, 1);
	if (nss >= 1)
	{
		cxxSS s1; s1.Set_name("A_CaSr"); s1.Set_ss_in(in1 != 0);
		cxxSScomp c; c.Set_name("Calcite"); c.Set_moles(m[0]); s1.Get_ss_comps().push_back(c); c.Set_name("Strontianite"); c.Set_moles(m[1]); s1.Get_ss_comps().push_back(c);
		ssa.Get_SSs()["A_CaSr"] = s1;
	}
	if (nss >= 2)
	{
		cxxSS s2; s2.Set_name("B_CaBa"); s2.Set_ss_in(true);
		cxxSScomp c; c.Set_name("Calcite"); c.Set_moles(m[2]); s2.Get_ss_comps().push_back(c); c.Set_name("Barite"); c.Set_moles(m[3]); s2.Get_ss_comps().push_back(c);
		ssa.Get_SSs()["B_CaBa"] = s2;
	}
	if (nss >= 1) p->use.Set_ss_assemblage_ptr(&ssa);
	p->punch_ss_assemblage();
	vf_reach("punch.done");
	vf_check("punch.one_cell_per_requested_name", g_n == nreq);
	for (int k = 0; k < nreq && k < g_n; k++)
	{
		double v = 0;
		if (k == 0 && nss >= 1) v = in1 ? m[0] : 0.0;                       /* Calcite: first solid solution that has it */
		if (k == 1 && nss >= 2) v = m[3];
		if (k == 2 && nss >= 1) v = in1 ? m[1] : 0.0;
		vf_check("punch.value_of_the_first_solid_solution_with_the_component", g_val[k] == v);
	}
}

extern "C" void vfh_C09_set_pr_in_false(void)
{
	Phreeqc *p = (Phreeqc *) vf_raw(sizeof(Phreeqc));
	new (&p->use) cxxUse();
	new (&p->x) std::vector<class unknown *>();
	g_ph[0].name = "CO2(g)"; g_ph[1].name = "CH4(g)"; g_ph[0].pr_in = true; g_ph[1].pr_in = true;
	int has_pp = (int) vf_int("equilibrium_phases_in_step", 0, 1), has_gas = (int) vf_int("gas_phase_in_step", 0, 1);
	vf_assume(has_pp || has_gas);
	static class unknown u; static cxxGasPhase gp;
	if (has_pp) { u.type = PP; u.phase = &g_ph[0]; p->x.push_back(&u); p->use.Set_pp_assemblage_in(true); }
	p->count_unknowns = (int) p->x.size();
	if (has_gas)
	{
		cxxGasComp gc; gc.Set_phase_name("CH4(g)"); gp.Get_gas_comps().push_back(gc);
		if (!has_pp) { gc.Set_phase_name("CO2(g)"); gp.Get_gas_comps().push_back(gc); }
		p->use.Set_gas_phase_ptr(&gp);
	}
	else if (has_pp) g_ph[1].pr_in = false;                                     /* CH4 is not part of this step */
	if (has_pp && !has_gas) { }
	p->set_pr_in_false();
	vf_reach("pr.done");
	vf_check("pr.no_phase_left_marked_in_use", !g_ph[0].pr_in && !g_ph[1].pr_in);
}
