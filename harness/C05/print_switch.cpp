// @static_init ALL
// @id C05.selected_output_switch_in_step
// @also C09
// @engine B
// @entry vfh_C05_print_switch
// @shared_state_watch
// @tier Q
// @opts max_steps=30000000
// @reach print.read
// @funcs Phreeqc::read_print; Phreeqc::get_option; Phreeqc::get_true_false
// @bounds a history of two PRINT blocks read by the real input reader into a really constructed engine; each block is one of {-selected_output true, -selected_output false, -selected_output (no value), -reset false, -reset true, -user_print false} (6 x 6 histories, case split)
// @oracle the table and the text views of selected output are switched together: rows are put into the value table when pr.punch is on and into the string / lines / file when the stream switch punch_on is on, so after every PRINT block punch_on == (pr.punch == TRUE) - otherwise the views disagree for the rest of the run; options that do not mention selected output leave both unchanged
// @stubs PHRQ_io::error_msg / warning_msg / output_msg / echo_msg (events)
// @outside the temporary switch inside tidy_punch (heading rows) and inverse modelling, which restore the same invariant
#include "Phreeqc.h"
#include "vf.h"
#include <new>
#include <sstream>
#include <string.h>

static int g_err = 0;
void PHRQ_io::error_msg(const char *err_str, bool stop) { g_err++; vf_event_s("error_msg", err_str); }
void PHRQ_io::warning_msg(const char *err_str) { vf_event_s("warning_msg", err_str); }
void PHRQ_io::output_msg(const char *str) {}
void PHRQ_io::echo_msg(const char *str) {}

static const char *BLOCK[6] = {" -selected_output true\n", " -selected_output false\n", " -selected_output\n", " -reset false\n", " -reset true\n", " -user_print false\n"};

extern "C" void vfh_C05_print_switch(void)
{
	PHRQ_io io;
	Phreeqc *p = new Phreeqc(&io);
	p->do_initialize();
	int b1 = (int) vf_int("first_block", 0, 5), b2 = (int) vf_int("second_block", 0, 5);
	vf_check("print.fresh_instance_consistent", io.Get_punch_on() == (p->pr.punch == TRUE));
	int want = TRUE;
	for (int round = 0; round < 2; round++)
	{
		int b = round ? b2 : b1;
		std::string text = std::string(BLOCK[b]) + "END\n";
		std::istringstream is(text);
		io.push_istream(&is, false);
		int rv = p->read_print();
		io.pop_istream();
		if (b == 0 || b == 2) want = TRUE;
		if (b == 1) want = FALSE;
		vf_check("print.block_read", rv == KEYWORD || rv == EOF);
		vf_check("print.table_switch_as_written", p->pr.punch == want);
		vf_check("print.text_views_switched_with_the_table", io.Get_punch_on() == (p->pr.punch == TRUE));
	}
	vf_reach("print.read");
	vf_check("print.no_errors", g_err == 0 && p->input_error == 0);
}
