// @id C05.var
// @engine A
// @entry vfh_C05_var
// @tier Q
// @sources src/Var.c
// @unwind 7
// @reach var.done
// @funcs VarInit; VarClear; VarCopy; VarAllocString; VarFreeString
// @bounds source VAR of every type value in -1..6 (valid and invalid), strings of 0..4 arbitrary non-NUL bytes in a buffer of exactly that size, arbitrary long / double / vresult payloads; destination either fresh or already holding a string; bit-precise (CBMC), unwind 7 with unwinding assertions; malloc assumed to succeed
// @oracle VarCopy makes an equal, deep copy (separate storage for strings) and returns VR_OK for valid types, VR_BADVARTYPE for invalid ones; VarClear leaves an empty VAR and frees a string exactly once; no out-of-bounds access, no double free, no leak (CBMC pointer and memory-leak checks)
// @outside allocation failure (VR_OUTOFMEMORY path)
#include "Var.h"
#include "vf.h"
#include <string.h>
#include <stdlib.h>

void vfh_C05_var(void)
{
	VAR src, dst;
	VarInit(&src); VarInit(&dst);
	int t = (int) vf_int("type", -1, 6);
	int n = (int) vf_int("len", 0, 4);
	char *buf = (char *) malloc(n + 1);
	vf_assume(buf != 0);
	for (int i = 0; i < n; i++) buf[i] = (char) vf_int("ch", 1, 255);
	buf[n] = 0;
	long lv = vf_int("lval", -2147483647L, 2147483647L);
	double dv = vf_double("dval", -1e300, 1e300);
	int er = (int) vf_int("vresult", -5, 0);
	if (t == TT_STRING) { src.sVal = VarAllocString(buf); vf_assume(src.sVal != 0); }
	else if (t == TT_LONG) src.lVal = lv;
	else if (t == TT_DOUBLE) src.dVal = dv;
	else if (t == TT_ERROR) src.vresult = (VRESULT) er;
	src.type = (VAR_TYPE) t;
	if (vf_int("dst_holds_string", 0, 1)) { dst.type = TT_STRING; dst.sVal = VarAllocString("old"); vf_assume(dst.sVal != 0); }

	int valid = t >= TT_EMPTY && t <= TT_STRING;
	VRESULT r = VarCopy(&dst, &src);
	vf_check("var.copy.result", r == (valid ? VR_OK : VR_BADVARTYPE));
	if (valid)
	{
		vf_check("var.copy.type", dst.type == src.type);
		if (t == TT_LONG) vf_check("var.copy.long", dst.lVal == lv);
		if (t == TT_DOUBLE) vf_check("var.copy.double", dst.dVal == dv);
		if (t == TT_ERROR) vf_check("var.copy.vresult", dst.vresult == (VRESULT) er);
		if (t == TT_STRING)
		{
			vf_check("var.copy.string.deep", dst.sVal != 0 && dst.sVal != src.sVal);
			vf_check("var.copy.string.equal", dst.sVal != 0 && strcmp(dst.sVal, buf) == 0);
		}
		vf_check("var.clear.dst", VarClear(&dst) == VR_OK && dst.type == TT_EMPTY && dst.sVal == 0);
		vf_check("var.clear.src", VarClear(&src) == VR_OK && src.type == TT_EMPTY);
	}
	else
	{
		vf_check("var.clear.invalid", VarClear(&src) == VR_BADVARTYPE);
	}
	free(buf);
	vf_reach("var.done");
}
