// @id C05.table
// @engine B
// @entry vfh_C05_table
// @shared_state_watch
// @tier Q
// @reach table.checked
// @funcs CSelectedOutput::PushBack; CSelectedOutput::EndRow; CSelectedOutput::Get; VarCopy; VarClear
// @bounds every sequence of 3 (quick) / 4 (thorough) table operations drawn from {punch double under heading a, punch double under b, punch string under a, punch long under c, punch empty under b, end row} followed by a closing end row (case split: 6^3 / 6^4 sequences); punched doubles/longs symbolic; afterwards Get(r,c) for every in-range cell and for unconstrained 32-bit (r,c) outside the table
// @oracle a 2-D reference table kept by the harness: row 0 holds one heading per column in order of first appearance; every row has exactly ColumnCount cells; a cell never punched is empty; re-punching a heading in the same row overwrites; out-of-range or negative row -> VR_INVALIDROW, else bad column -> VR_INVALIDCOL, with an error-typed VAR carrying the same code; Get never changes the table
// @stubs none
// @outside rendering of values into text (file/string sinks: C05.fanout)
#include "CSelectedOutput.hxx"
#include "Var.h"
#include "vf.h"
#include <string.h>
#ifndef VF_TIER
#define VF_TIER 1
#endif
#define NOPS (VF_TIER >= 2 ? 4 : 3)

struct Cell { int type; double d; long l; const char *s; };
static Cell ref[8][4]; static const char *head[4]; static int ncol = 0, nrow = 0;   /* nrow = completed data rows */
static int colof(const char *k) { for (int i = 0; i < ncol; i++) if (!strcmp(head[i], k)) return i; head[ncol] = k; for (int r = 0; r < 8; r++) ref[r][ncol].type = TT_EMPTY; return ncol++; }

extern "C" void vfh_C05_table(void)
{
	CSelectedOutput t;
	for (int k = 0; k < NOPS; k++)
	{
		int op = (int) vf_int("op", 0, 5);
		Cell c; c.type = TT_EMPTY; c.d = 0; c.l = 0; c.s = 0;
		const char *key = 0;
		switch (op)
		{
		case 0: key = "a"; c.type = TT_DOUBLE; c.d = vf_double("value", -1e9, 1e9); t.PushBackDouble(key, c.d); break;
		case 1: key = "b"; c.type = TT_DOUBLE; c.d = vf_double("value", -1e9, 1e9); t.PushBackDouble(key, c.d); break;
		case 2: key = "a"; c.type = TT_STRING; c.s = "text"; t.PushBackString(key, c.s); break;
		case 3: key = "c"; c.type = TT_LONG; c.l = vf_int("lvalue", -1000000000000L, 1000000000000L); t.PushBackLong(key, c.l); break;
		case 4: key = "b"; c.type = TT_EMPTY; t.PushBackEmpty(key); break;
		case 5: t.EndRow(); if (ncol) nrow++; break;
		}
		if (key) ref[nrow][colof(key)] = c;
	}
	t.EndRow(); if (ncol) nrow++;

	vf_check("table.colcount", (int) t.GetColCount() == ncol);
	vf_check("table.rowcount", (int) t.GetRowCount() == (ncol ? nrow + 1 : 0));
	VAR v; VarInit(&v);
	for (int j = 0; j < ncol; j++)
	{
		VRESULT r = t.Get(0, j, &v);
		vf_check("table.heading", r == VR_OK && v.type == TT_STRING && !strcmp(v.sVal, head[j]));
		for (int i = 0; i < nrow; i++)
		{
			r = t.Get(i + 1, j, &v);
			const Cell &c = ref[i][j];
			vf_check("table.cell.type", r == VR_OK && (int) v.type == c.type);
			if (c.type == TT_DOUBLE && v.type == TT_DOUBLE) vf_close("table.cell.double", v.dVal, c.d, 0, 0);
			if (c.type == TT_LONG && v.type == TT_LONG) vf_check("table.cell.long", v.lVal == c.l);
			if (c.type == TT_STRING && v.type == TT_STRING) vf_check("table.cell.string", !strcmp(v.sVal, c.s));
		}
	}
	/* any (row, col) outside the table */
	int r = (int) vf_int("row", -2147483647L - 1, 2147483647L), cc = (int) vf_int("col", -2147483647L - 1, 2147483647L);
	int rows = ncol ? nrow + 1 : 0;
	bool bad_row = r < 0 || r >= rows, bad_col = cc < 0 || cc >= ncol;
	vf_assume(bad_row || bad_col);
	VRESULT rr = t.Get(r, cc, &v);
	VRESULT want = bad_row ? VR_INVALIDROW : VR_INVALIDCOL;
	vf_check("table.out_of_range.code", rr == want);
	vf_check("table.out_of_range.var", v.type == TT_ERROR && v.vresult == want);
	vf_check("table.unchanged_by_get", (int) t.GetColCount() == ncol && (int) t.GetRowCount() == rows);
	VarClear(&v);
	vf_reach("table.checked");
}
