// @id C05.user_punch_column_names
// @engine B
// @entry vfh_C05_user_punch_names
// @shared_state_watch
// @tier Q
// @reach names.punched
// @funcs Phreeqc::fpunchf_user
// @bounds one USER_PUNCH block with 0..2 headings and a row of 4 punched items, each a number or a string (16 kinds of row, case split), through both overloads of Phreeqc::fpunchf_user
// @oracle every punched item of a row goes to its own column: item i is filed under heading i when one exists and otherwise under no_heading_k with k = i - headings + 1, whether it is a number or a string; hence the four column names of a row are pairwise different and no item overwrites another in the value table while the text row keeps both
// @stubs PHRQ_io::fpunchf (both overloads: record the column name), warning_msg, sformatf
// @outside the table itself (C05.table), the formatting of the cells (C05.user_punch_text)
#include "Phreeqc.h"
#include "UserPunch.h"
#include "vf.h"
#include <new>
#include <string.h>

static char g_names[8][64]; static int g_n = 0;
static void rec(const char *name) { if (g_n < 8) { strncpy(g_names[g_n], name ? name : "<null>", 63); g_names[g_n][63] = 0; g_n++; } }
void PHRQ_io::fpunchf(const char *name, const char *format, double d) { rec(name); }
void PHRQ_io::fpunchf(const char *name, const char *format, char *d) { rec(name); }
void PHRQ_io::fpunchf(const char *name, const char *format, int d) { rec(name); }
int Phreeqc::warning_msg(const char *err_str) { return OK; }
char *Phreeqc::sformatf(const char *format, ...) { static char b[4] = "msg"; return b; }

extern "C" void vfh_C05_user_punch_names(void)
{
	Phreeqc *p = (Phreeqc *) vf_raw(sizeof(Phreeqc));
	PHRQ_io io;
	p->phrq_io = &io;
	UserPunch up;
	int nh = (int) vf_int("headings", 0, 2);
	std::vector<std::string> h;
	if (nh > 0) h.push_back("first");
	if (nh > 1) h.push_back("second");
	up.Set_headings(h);
	p->current_user_punch = &up;
	p->fpunchf_user_s_warning = 0;
	int kinds = (int) vf_int("string_items_mask", 0, 15);
	char text[8] = "abc";
	for (int i = 0; i < 4; i++)
	{
		if ((kinds >> i) & 1) p->fpunchf_user(i, "%12s\t", text);
		else p->fpunchf_user(i, "%12.4e\t", 1.5 + i);
	}
	vf_reach("names.punched");
	vf_check("names.one_cell_per_item", g_n == 4);
	for (int i = 0; i < 4; i++)
	{
		char want[64];
		if (i < nh) strcpy(want, i == 0 ? "first" : "second");
		else snprintf(want, sizeof want, "no_heading_%d", i - nh + 1);
		vf_check("names.item_under_its_own_heading", strcmp(g_names[i], want) == 0);
		for (int j = 0; j < i; j++)
			vf_check("names.columns_pairwise_different", strcmp(g_names[i], g_names[j]) != 0);
	}
}
