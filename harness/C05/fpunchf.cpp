// @id C05.fpunchf_complete
// @also C09
// @engine B
// @entry vfh_C05_fpunchf
// @shared_state_watch
// @tier Q
// @opts max_steps=40000000
// @reach fpunchf.done
// @funcs PHRQ_io::fpunchf_helper
// @bounds one formatted selected-output cell whose rendering needs L characters, L over the buffer-boundary values {0,1,2046,2047,2048,2049,4094,4095,4096,4097,8191,8192,8193} (case split); both sinks: the string overload (selected-output string) and the stream overload (selected-output file)
// @oracle both sinks receive the complete rendering - exactly L characters, identical in string and file - whatever its length (a cell is never truncated or stripped of its trailing tab at a buffer boundary)
// @stubs vsnprintf (C99 contract: writes min(L, size-1) characters of the rendering and a NUL, returns L); iostream model
// @outside the rendering itself (printf formats)
#include "PHRQ_io.h"
#include "vf.h"
#include <stdarg.h>
#include <stdio.h>
#include <string.h>
#include <sstream>

static long g_L = 0;
static char pattern(long i) { return (i == g_L - 1) ? '\t' : (char) ('a' + (i % 23)); }   /* a cell ends with its tab */
extern "C" int vsnprintf(char *buf, size_t size, const char *format, va_list ap)
{
	if (size > 0)
	{
		long n = g_L < (long) size - 1 ? g_L : (long) size - 1;
		for (long i = 0; i < n; i++) buf[i] = pattern(i);
		buf[n] = 0;
	}
	return (int) g_L;
}

extern "C" void vfh_C05_fpunchf(void)
{
	static const long LEN[13] = {0, 1, 2046, 2047, 2048, 2049, 4094, 4095, 4096, 4097, 8191, 8192, 8193};
	g_L = LEN[vf_int("length_case", 0, 12)];
	PHRQ_io io;
	std::string s("row:");
	std::ostringstream os;
	os << "row:";
	io.fpunchf_helper(&s, "%s\t", "x");
	io.fpunchf_helper((std::ostream *) &os, "%s\t", "x");
	std::string f = os.str();
	vf_reach("fpunchf.done");
	vf_check("fpunchf.string_complete", (long) s.size() == 4 + g_L);
	vf_check("fpunchf.file_complete", (long) f.size() == 4 + g_L);
	vf_check("fpunchf.string_equals_file", s == f);
	if (g_L > 0) vf_check("fpunchf.cell_keeps_its_tab", s[s.size() - 1] == '\t' && f[f.size() - 1] == '\t');
}
