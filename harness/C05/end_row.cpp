// @id C05.user_punch_row_padded
// @also C04
// @engine B
// @entry vfh_C05_end_row
// @shared_state_watch
// @tier Q
// @reach end_row.done
// @funcs IPhreeqc::EndRow; IPhreeqc::fpunchf; CSelectedOutput::PushBackEmpty; CSelectedOutput::EndRow
// @bounds the wrapper's row-closing step for a SELECTED_OUTPUT with a USER_PUNCH block of 3 headings; two consecutive rows in each of which the BASIC program punched the first k of its 3 values (k in 0..3 per row, case split) before the row ended; the table is rebuilt from empty (as at the start of every Run* call)
// @oracle every row has one cell per heading: after each row the table has the 3 user-punch columns, the row count grows by one (plus the heading row), values punched are where their heading is and headings not punched in that row are empty cells - also when a row punched nothing at all (otherwise the number of rows of a run depends on whether that row happens to be the first of a call)
// @stubs Phreeqc engine (events); PHRQ_io::fpunchf base (no stream)
// @outside what the BASIC program computes
// @id C05.user_punch_switch_off_adds_no_columns
// @engine B
// @entry vfh_C05_end_row_switch
// @shared_state_watch
// @tier Q
// @reach end_row.done
// @funcs IPhreeqc::EndRow; IPhreeqc::fpunchf; CSelectedOutput::EndRow
// @bounds the wrapper's row-closing step for a SELECTED_OUTPUT block with one built-in column whose -user_punch switch is true or false while a USER_PUNCH block with 3 headings of the same number exists; 1..2 rows (case split)
// @oracle table and text views have the same columns: with -user_punch false the USER_PUNCH headings are written to neither the heading line nor the data lines (tidy_punch and punch_user_punch test the switch), so the value table has only the built-in column; with -user_punch true it has the built-in column plus the three user columns
// @stubs Phreeqc engine (events); PHRQ_io::fpunchf base (no stream)
// @outside the text views themselves (C05.fpunchf_complete, C09.do_run_views)
#include "../common/engine_stubs.inc"
#include "SelectedOutput.h"
#include "UserPunch.h"

extern "C" void vfh_C05_end_row(void)
{
	new (&IPhreeqc::Instances) std::map<size_t, IPhreeqc*>();
	IPhreeqc::InstancesIndex = 0;
	IPhreeqc *ip = new IPhreeqc();
	Phreeqc *p = ip->PhreeqcPtr;
	new (&p->UserPunch_map) std::map<int, UserPunch>();
	p->SelectedOutput_map[1].Set_n_user(1);
	p->current_selected_output = &p->SelectedOutput_map[1];
	ip->SelectedOutputMap[1] = new CSelectedOutput();
	ip->SelectedOutputStringMap[1] = std::string();
	UserPunch up;
	std::vector<std::string> h; h.push_back("alpha"); h.push_back("beta"); h.push_back("gamma");
	up.Set_headings(h);
	p->current_user_punch = &up;
	ip->punch_on = true;
	int k1 = (int) vf_int("values_punched_in_row_1", 0, 3), k2 = (int) vf_int("values_punched_in_row_2", 0, 3);
	CSelectedOutput *t = ip->SelectedOutputMap[1];
	for (int row = 1; row <= 2; row++)
	{
		int k = row == 1 ? k1 : k2;
		for (int i = 0; i < k; i++) ip->fpunchf(h[i].c_str(), "%12.4e\t", 100.0 * row + i);
		p->n_user_punch_index = k;
		ip->EndRow();
		vf_check("row.columns_are_the_headings", (int) t->GetColCount() == 3);
		vf_check("row.count", (int) t->GetRowCount() == row + 1);
		for (int c = 0; c < 3; c++)
		{
			VAR v; VarInit(&v);
			VRESULT r = t->Get(row, c, &v);
			if (c < k) vf_check("row.punched_value_under_its_heading", r == VR_OK && v.type == TT_DOUBLE && v.dVal == 100.0 * row + c);
			else vf_check("row.unpunched_heading_is_an_empty_cell", r == VR_OK && v.type == TT_EMPTY);
			VarClear(&v);
			VAR hd; VarInit(&hd);
			vf_check("row.heading_row", t->Get(0, c, &hd) == VR_OK && hd.type == TT_STRING && strcmp(hd.sVal, h[c].c_str()) == 0);
			VarClear(&hd);
		}
	}
	vf_reach("end_row.done");
}

/* SELECTED_OUTPUT -user_punch false: the block's USER_PUNCH program is not run and its headings are not written to the text
   views (tidy_punch, punch_user_punch test the switch), so the value table must not get those columns either */
extern "C" void vfh_C05_end_row_switch(void)
{
	new (&IPhreeqc::Instances) std::map<size_t, IPhreeqc*>();
	IPhreeqc::InstancesIndex = 0;
	IPhreeqc *ip = new IPhreeqc();
	Phreeqc *p = ip->PhreeqcPtr;
	new (&p->UserPunch_map) std::map<int, UserPunch>();
	p->SelectedOutput_map[1].Set_n_user(1);
	int on = (int) vf_int("user_punch_switch", 0, 1);
	p->SelectedOutput_map[1].Set_user_punch(on != 0);
	p->current_selected_output = &p->SelectedOutput_map[1];
	ip->SelectedOutputMap[1] = new CSelectedOutput();
	ip->SelectedOutputStringMap[1] = std::string();
	UserPunch up;
	std::vector<std::string> h; h.push_back("alpha"); h.push_back("beta"); h.push_back("gamma");
	up.Set_headings(h);
	p->current_user_punch = &up;
	ip->punch_on = true;
	CSelectedOutput *t = ip->SelectedOutputMap[1];
	int rows = (int) vf_int("rows", 1, 2);
	for (int row = 1; row <= rows; row++)
	{
		ip->fpunchf("pH", "%12.4e\t", 7.0 + row);                 /* a built-in column */
		if (on) for (int i = 0; i < 3; i++) ip->fpunchf(h[i].c_str(), "%12.4e\t", 100.0 * row + i);
		p->n_user_punch_index = on ? 3 : 0;
		ip->EndRow();
	}
	vf_reach("end_row.done");
	vf_check("switch.table_has_the_columns_of_the_text_views", (int) t->GetColCount() == (on ? 4 : 1));
	vf_check("switch.rows", (int) t->GetRowCount() == rows + 1);
}
