// @id C06.qsort_guard
// @engine B
// @entry vfh_C06_qsort_guard
// @tier Q
// @reach guard.done
// @funcs Phreeqc::tidy_model
// @bounds one tidy_model call on an instance with 0..3 master species (names from a fixed pool, order arbitrary by case split) and 0..2 species/elements/phases; the simulation read one arbitrary keyword of the 80 (so the re-sort of the tables happens or not); the process-wide qsort_lock is observed through replaced pthread_mutex_lock/unlock (depth counter for that mutex)
// @oracle lock discipline of the shared sort guard, which is what makes concurrent instances independent of each other (C06): the guard is never unlocked by a caller that does not hold it (that would release the lock while another thread's sort is inside it), never locked twice, the engine comparator only runs while the guard is held, and the guard is free when tidy_model returns; the master table ends up sorted
// @stubs pthread_mutex_lock / pthread_mutex_unlock (depth counter, no blocking: single thread); every tidy_* routine (recorders); Phreeqc::master_compare wrapped (checks the guard, then the real order)
// @outside the other sort sites (build_model, print_alkalinity, ...) use the same macro; the interleavings themselves (C06.registry_locks/stress cover the registry)
#include "Phreeqc.h"
#include "cxxKinetics.h"
#include "vf.h"
#include <new>
#include <string.h>
#include <pthread.h>
#include "../common/tidy_model_stubs.inc"

static int g_depth = 0;
extern "C" int pthread_mutex_lock(pthread_mutex_t *m)
{
	if (m == &qsort_lock) { vf_check("guard.not_locked_twice", g_depth == 0); g_depth++; }
	return 0;
}
extern "C" int pthread_mutex_unlock(pthread_mutex_t *m)
{
	if (m == &qsort_lock) { vf_check("guard.unlocked_only_by_holder", g_depth == 1); g_depth--; }
	return 0;
}
int Phreeqc::master_compare(const void *ptr1, const void *ptr2)
{
	vf_check("guard.comparator_runs_under_guard", g_depth == 1);
	const class master *a = *(const class master **) ptr1, *b = *(const class master **) ptr2;
	return strcmp(a->elt->name, b->elt->name);
}

static const char *NAMES[3] = {"Ca", "Al", "Na"};
static class element g_e[3]; static class master g_ms[3];

extern "C" void vfh_C06_qsort_guard(void)
{
	int k1 = (int) vf_int("keyword_1", 0, Keywords::KEY_COUNT_KEYWORDS - 1);
	int nm = (int) vf_int("n_master", 0, 3), rot = (int) vf_int("first_master", 0, 2);
	Phreeqc *p = mk(1, 0, 0);
	for (int i = 0; i < nm; i++)
	{
		int k = (i + rot) % 3;
		g_e[k].name = NAMES[k]; g_ms[k].elt = &g_e[k];
		p->master.push_back(&g_ms[k]);
	}
	p->keycount[k1]++;
	g_mask = 0; g_errs = 0; g_n = 0;
	p->tidy_model();
	vf_reach("guard.done");
	vf_check("guard.free_on_return", g_depth == 0);
	if ((g_mask >> 1) & 1u)      /* the tables were rebuilt (new_model) */
		for (int i = 1; i < nm; i++)
			vf_check("guard.master_sorted", strcmp(p->master[i - 1]->elt->name, p->master[i]->elt->name) < 0);
}
