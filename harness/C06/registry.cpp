// @id C06.registry_locks
// @also C13
// @engine B
// @entry vfh_C06_registry
// @tier Q
// @opts confirm=stress:harness/C06/stress.cpp
// @reach registry.done
// @funcs IPhreeqc::IPhreeqc; IPhreeqc::~IPhreeqc; IPhreeqcLib::GetInstance; CreateIPhreeqc; DestroyIPhreeqc
// @bounds registry counter in [0,5] (case split); a history of create (C++), create (C API), lookups of live, never-issued and destroyed ids, destroy (both APIs) on 3 instances; every access to the static registry map and counter is monitored
// @oracle (lock discipline, holds for any number of threads) the registry map and the id counter are only read or written while map_lock is held, and no lock is held on return; (ids) create returns the old counter value and increments it, ids are never reused, lookups find exactly the live instances, destroying an unknown, negative or already destroyed id returns IPQ_BADINSTANCE and changes nothing
// @stubs Phreeqc engine (events); pthread_mutex_lock/unlock (held-set tracking)
// @outside interleavings inside the critical sections (they are serialised by the lock once the discipline holds); races in libc/libstdc++
#include "../common/engine_stubs.inc"
#include "IPhreeqc.h"

extern mutex_t map_lock;
class IPhreeqcLib
{
public:
	static int CreateIPhreeqc(void);
	static IPQ_RESULT DestroyIPhreeqc(int n);
	static IPhreeqc *GetInstance(int n);
};

extern "C" void vfh_C06_registry(void)
{
	new (&IPhreeqc::Instances) std::map<size_t, IPhreeqc*>();
	long k = vf_int("InstancesIndex", 0, 5);
	IPhreeqc::InstancesIndex = (size_t) k;
	vf_guarded((void *) &IPhreeqc::Instances, sizeof(IPhreeqc::Instances), (void *) &map_lock, "IPhreeqc::Instances");
	vf_guarded((void *) &IPhreeqc::InstancesIndex, sizeof(IPhreeqc::InstancesIndex), (void *) &map_lock, "IPhreeqc::InstancesIndex");

	IPhreeqc *a = new IPhreeqc();
	vf_check("locks.released_after_create", vf_locks_held() == 0);
	int idb = ::CreateIPhreeqc();
	IPhreeqc *c = new IPhreeqc();
	vf_check("ids.sequential", a->GetId() == k && idb == k + 1 && c->GetId() == k + 2);
	vf_check("lookup.live", IPhreeqcLib::GetInstance((int) k) == a && IPhreeqcLib::GetInstance((int) k + 2) == c);
	IPhreeqc *b = IPhreeqcLib::GetInstance(idb);
	vf_check("lookup.live_c_api", b != 0 && b != a && b != c && b->GetId() == idb);
	vf_check("lookup.never_issued", IPhreeqcLib::GetInstance((int) k + 3) == 0 && IPhreeqcLib::GetInstance(-1) == 0);
	vf_check("locks.released_after_lookup", vf_locks_held() == 0);
	vf_check("destroy.bad_ids", ::DestroyIPhreeqc(-1) == IPQ_BADINSTANCE && ::DestroyIPhreeqc((int) k + 7) == IPQ_BADINSTANCE);
	vf_check("destroy.bad_ids_change_nothing", IPhreeqcLib::GetInstance((int) k) == a && IPhreeqcLib::GetInstance(idb) == b);
	delete a;
	vf_check("locks.released_after_destroy", vf_locks_held() == 0);
	vf_check("lookup.destroyed", IPhreeqcLib::GetInstance((int) k) == 0);
	vf_check("lookup.others_unaffected", IPhreeqcLib::GetInstance(idb) == b && IPhreeqcLib::GetInstance((int) k + 2) == c);
	vf_check("destroy.live", ::DestroyIPhreeqc(idb) == IPQ_OK);
	vf_check("destroy.twice", ::DestroyIPhreeqc(idb) == IPQ_BADINSTANCE);
	int idd = ::CreateIPhreeqc();
	vf_check("ids.never_reused", idd == k + 3);
	vf_guard_enable(0);
	vf_check("counter.final", IPhreeqc::InstancesIndex == (size_t) k + 4 && IPhreeqc::Instances.size() == 2);
	vf_reach("registry.done");
}
