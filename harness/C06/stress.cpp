// Multi-threaded confirmation of a lock-discipline counterexample (run only when engine B reports one):
// several threads create / look up / destroy their own instances through the C API while holding one long-lived
// instance each; any call on an id the calling thread owns must succeed. Exit 1 = a race was observed.
#include "IPhreeqc.h"
#include <pthread.h>
#include <stdio.h>
#include <stdlib.h>
#include <time.h>

static volatile int failed = 0;
static const int NT = 8;
static void *worker(void *arg)
{
	int own = CreateIPhreeqc();
	if (own < 0) { failed = 1; return 0; }
	time_t t0 = time(0);
	for (long i = 0; !failed && time(0) - t0 < 8; i++)
	{
		int id = CreateIPhreeqc();
		if (id < 0) { fprintf(stderr, "create failed\n"); failed = 1; break; }
		if (SetOutputStringOn(own, 1) != IPQ_OK) { fprintf(stderr, "call on own live id %d -> BADINSTANCE\n", own); failed = 1; break; }
		if (SetOutputStringOn(id, 1) != IPQ_OK) { fprintf(stderr, "call on fresh live id %d -> BADINSTANCE\n", id); failed = 1; break; }
		if (DestroyIPhreeqc(id) != IPQ_OK) { fprintf(stderr, "destroy of live id %d failed\n", id); failed = 1; break; }
		if (DestroyIPhreeqc(id) != IPQ_BADINSTANCE) { fprintf(stderr, "double destroy of %d succeeded\n", id); failed = 1; break; }
	}
	DestroyIPhreeqc(own);
	return 0;
}
int main(void)
{
	pthread_t th[NT];
	for (int i = 0; i < NT; i++) pthread_create(&th[i], 0, worker, 0);
	for (int i = 0; i < NT; i++) pthread_join(th[i], 0);
	printf(failed ? "RACE-OBSERVED\n" : "no race observed\n");
	return failed ? 1 : 0;
}
