// @static_init Utils.cxx
// @id C06.warn_once_is_per_instance
// @engine B
// @entry vfh_C06_warn_once
// @shared_state_watch
// @tier Q
// @reach rho0.done
// @funcs Phreeqc::calc_rho_0
// @bounds the pure-water density routine called on two engine objects of one process, on each twice, with a temperature that is symbolic in (350, 400] C (outside the fitting range, which makes the routine warn) or inside the range (case split); pressure symbolic in [1, 1000] atm; all stores monitored for process-wide state
// @oracle engine state is per instance: each instance issues its "outside the fitting range" warning once - the second instance of a process warns exactly like the first - and with the temperature inside the range nobody warns; no store to process-wide state without a lock (derived obligation)
// @stubs Phreeqc::warning_msg (counter per object)
// @outside the density formula (floating point)
#include "Phreeqc.h"
#include "vf.h"
#include <new>
#include <string.h>

static Phreeqc *g_obj[2]; static int g_warn[2];
int Phreeqc::warning_msg(const char *err_str) { for (int i = 0; i < 2; i++) if (this == g_obj[i]) g_warn[i]++; return OK; }

extern "C" void vfh_C06_warn_once(void)
{
	int hot = (int) vf_int("temperature_outside_range", 0, 1);
	double tc = hot ? vf_double("tc", 350.001, 400) : 25.0, pa = vf_double("pressure_atm", 1, 1000);
	for (int i = 0; i < 2; i++)
	{
		Phreeqc *p = g_obj[i] = (Phreeqc *) vf_raw(sizeof(Phreeqc));
		new (&p->llnl_temp) std::vector<LDBLE>();
		new (&p->use) cxxUse();
		p->need_temp_msg = 0; p->ah2o_x = 1.0;
	}
	for (int i = 0; i < 2; i++) { g_obj[i]->calc_rho_0(tc, pa); g_obj[i]->calc_rho_0(tc, pa); }
	vf_reach("rho0.done");
	vf_check("warn.first_instance_warns_once", g_warn[0] == (hot ? 1 : 0));
	vf_check("warn.second_instance_warns_like_the_first", g_warn[1] == g_warn[0]);
}
