// @id C06.sort_order_is_a_function_of_values
// @engine B
// @entry vfh_C06_comparators
// @shared_state_watch
// @tier Q
// @reach comparators.done
// @funcs Phreeqc::system_species_compare; Phreeqc::system_species_compare_name; Phreeqc::elt_list_compare; Phreeqc::master_compare
// @bounds the comparators with which the engine sorts what it reports (SYS() lists by amount and by name, element lists, master species), each applied to two records whose texts are names from {"Ca", "Cl", "Ca"} (equal or different, case split) and whose amounts are symbolic reals; every pair is built twice, with the heap blocks of the two name strings allocated in opposite order (so that every address relation between the two records is reversed)
// @oracle results are a function of the call sequence alone (C06): the comparator's verdict depends only on the values compared - it is the same for both memory layouts, antisymmetric, and 0 for records with equal values - never on where the allocator happened to put the records or their strings (what other instances and threads did before)
// @stubs none
// @outside the sort algorithm itself; comparators over parser-built tables that need a tidied database (species_list_compare*)
#include "Phreeqc.h"
#include "vf.h"
#include <stdlib.h>
#include <string.h>

static int sgn(int v) { return v < 0 ? -1 : v > 0 ? 1 : 0; }
static char *dup(const char *s) { char *p = (char *) malloc(strlen(s) + 1); if (!p) vf_fail("malloc"); strcpy(p, s); return p; }

extern "C" void vfh_C06_comparators(void)
{
	static const char *TXT[3] = {"Ca", "Cl", "Ca"};
	int ia = (int) vf_int("text_a", 0, 1), ib = (int) vf_int("text_b", 0, 2);
	double ma = vf_double("amount_a", 0, 10), mb = vf_double("amount_b", 0, 10);
	int which = (int) vf_int("comparator", 0, 3);
	int res[2][2];
	for (int layout = 0; layout < 2; layout++)
	{
		char *first = dup(layout == 0 ? TXT[ia] : TXT[ib]), *second = dup(layout == 0 ? TXT[ib] : TXT[ia]);
		char *na = layout == 0 ? first : second, *nb = layout == 0 ? second : first;
		if (which <= 1)
		{
			class system_species a, b;
			a.name = na; b.name = nb; a.type = na; b.type = nb; a.moles = ma; b.moles = mb;
			res[layout][0] = which == 0 ? Phreeqc::system_species_compare(&a, &b) : Phreeqc::system_species_compare_name(&a, &b);
			res[layout][1] = which == 0 ? Phreeqc::system_species_compare(&b, &a) : Phreeqc::system_species_compare_name(&b, &a);
		}
		else if (which == 2)
		{
			class element ea, eb; ea.name = na; eb.name = nb;
			class elt_list a, b; a.elt = &ea; b.elt = &eb; a.coef = ma; b.coef = mb;
			res[layout][0] = Phreeqc::elt_list_compare(&a, &b); res[layout][1] = Phreeqc::elt_list_compare(&b, &a);
		}
		else
		{
			class element ea, eb; ea.name = na; eb.name = nb;
			class master a, b; a.elt = &ea; b.elt = &eb;
			class master *pa = &a, *pb = &b;
			res[layout][0] = Phreeqc::master_compare(&pa, &pb); res[layout][1] = Phreeqc::master_compare(&pb, &pa);
		}
	}
	vf_reach("comparators.done");
	vf_check("order.same_verdict_for_both_memory_layouts", sgn(res[0][0]) == sgn(res[1][0]) && sgn(res[0][1]) == sgn(res[1][1]));
	vf_check("order.antisymmetric", sgn(res[0][0]) == -sgn(res[0][1]));
	bool same_text = strcmp(TXT[ia], TXT[ib]) == 0;
	if (which == 0) vf_check("order.equal_amounts_compare_equal", ma != mb || res[0][0] == 0);
	else vf_check("order.equal_names_compare_equal", same_text == (res[0][0] == 0));
}
