// @static_init Solution.cxx SolutionIsotope.cxx NameDouble.cxx Exchange.cxx ExchComp.cxx PPassemblage.cxx PPassemblageComp.cxx GasPhase.cxx GasComp.cxx SSassemblage.cxx SS.cxx SScomp.cxx cxxKinetics.cxx KineticsComp.cxx Surface.cxx SurfaceComp.cxx SurfaceCharge.cxx Temperature.cxx Pressure.cxx Utils.cxx
// @id C10.roundtrip.PPassemblage
// @engine B
// @entry vfh_C10_rt_ppassemblage
// @shared_state_watch
// @tier Q
// @reach rt.reread
// @funcs cxxPPassemblage::dump_raw; cxxPPassemblage::read_raw; cxxPPassemblageComp::read_raw; PHRQ_io::get_line
// @bounds structure (names, counts, flags) fixed by the template EQUILIBRIUM_PHASES_RAW 5 (2 phases); every double the class serialises is an independent symbol in [-1e6,1e6]
// @oracle generic: x := Deserialize(symbolic vectors); text := dump_raw(x); y := read_raw(text) through the production line reader; Serialize(y) equals the symbolic vectors (ints exactly, doubles rtol 1e-12); reading raises no error; dump_raw(y) == text (fixed point)
// @stubs PHRQ_io::error_msg / warning_msg (counted); iostream model
// @outside decimal precision; members a class does not serialise
// @id C10.roundtrip.Exchange
// @engine B
// @entry vfh_C10_rt_exchange
// @shared_state_watch
// @tier Q
// @reach rt.reread
// @funcs cxxExchange::dump_raw; cxxExchange::read_raw; cxxExchComp::read_raw
// @bounds template EXCHANGE_RAW 5 (1 exchanger, totals of 3-4 elements); all serialised doubles symbolic
// @oracle same generic round-trip oracle as C10.roundtrip.PPassemblage
// @id C10.roundtrip.GasPhase
// @engine B
// @entry vfh_C10_rt_gasphase
// @shared_state_watch
// @tier Q
// @reach rt.reread
// @funcs cxxGasPhase::dump_raw; cxxGasPhase::read_raw; cxxGasComp::read_raw
// @bounds template GAS_PHASE_RAW 5 (2 components); all serialised doubles symbolic
// @oracle same generic round-trip oracle
// @id C10.roundtrip.SSassemblage
// @engine B
// @entry vfh_C10_rt_ssassemblage
// @shared_state_watch
// @tier T
// @reach rt.reread
// @funcs cxxSSassemblage::dump_raw; cxxSSassemblage::read_raw; cxxSS::read_raw
// @bounds template SOLID_SOLUTIONS_RAW 5 (1 solid solution, 2 components); all serialised doubles symbolic
// @oracle same generic round-trip oracle
// @id C10.roundtrip.Kinetics
// @engine B
// @entry vfh_C10_rt_kinetics
// @shared_state_watch
// @tier Q
// @reach rt.reread
// @funcs cxxKinetics::dump_raw; cxxKinetics::read_raw; cxxKineticsComp::read_raw
// @bounds template KINETICS_RAW 5 (1 reactant, 3 steps, 2 parameters); all serialised doubles symbolic
// @oracle same generic round-trip oracle
// @id C10.roundtrip.Surface
// @engine B
// @entry vfh_C10_rt_surface
// @shared_state_watch
// @tier T
// @reach rt.reread
// @funcs cxxSurface::dump_raw; cxxSurface::read_raw; cxxSurfaceComp::read_raw; cxxSurfaceCharge::read_raw
// @bounds template SURFACE_RAW 5 (2 site types, 1 charge plane); all serialised doubles symbolic
// @oracle same generic round-trip oracle
// @id C10.roundtrip.Solution
// @engine B
// @entry vfh_C10_rt_solution
// @shared_state_watch
// @tier T
// @reach rt.reread
// @funcs cxxSolution::dump_raw; cxxSolution::read_raw
// @bounds template SOLUTION_RAW 2 (3 totals, activities, gammas; no isotopes); all serialised doubles symbolic
// @oracle same generic round-trip oracle
// @id C10.roundtrip.SolutionIsotopes
// @engine B
// @entry vfh_C10_rt_solution_isotopes
// @shared_state_watch
// @tier Q
// @reach iso.reread
// @funcs cxxSolution::read_raw
// @bounds the RAW text the unmodified library dumps for a solution defined with two -isotope lines (template SOLUTION_RAW 1), read back through the production reader
// @oracle reading a dumped solution raises no error and restores its isotopes (count, names)
// @id C10.roundtrip.Temperature
// @engine B
// @entry vfh_C10_rt_temperature
// @shared_state_watch
// @tier Q
// @reach rt.reread
// @funcs cxxTemperature::dump_raw; cxxTemperature::read_raw
// @bounds template REACTION_TEMPERATURE_RAW 5 (3 steps)
// @oracle same generic round-trip oracle
// @id C10.roundtrip.Pressure
// @engine B
// @entry vfh_C10_rt_pressure
// @shared_state_watch
// @tier Q
// @reach rt.reread
// @funcs cxxPressure::dump_raw; cxxPressure::read_raw
// @bounds template REACTION_PRESSURE_RAW 5 (3 steps)
// @oracle same generic round-trip oracle
#include "Phreeqc.h"
#include "Solution.h"
#include "Exchange.h"
#include "PPassemblage.h"
#include "GasPhase.h"
#include "SSassemblage.h"
#include "cxxKinetics.h"
#include "Surface.h"
#include "Temperature.h"
#include "Pressure.h"
#include "Dictionary.h"
#include "Parser.h"
#include "vf.h"
#include <sstream>
#include <string.h>
#include "templates.inc"
#ifndef VF_TIER
#define VF_TIER 1
#endif

static int g_errs = 0;
void PHRQ_io::error_msg(const char *err_str, bool stop) { g_errs++; vf_event_s("error_msg", err_str); }
void PHRQ_io::warning_msg(const char *err_str) { vf_event_s("warning_msg", err_str); }

template<class T> static std::string dump(const T &x) { std::ostringstream os; x.dump_raw(os, 0); return os.str(); }
/* production path: the line reader of PHRQ_io delivers the keyword line, CParser(io) continues from there */
template<class T> static void read_entity(const char *text, T &y, PHRQ_io *io)
{
	std::string s(text);
	std::istringstream is(s);
	io->push_istream(&is, false);
	io->get_line();
	CParser parser(io);
	y.read_raw(parser);
	io->clear_istream();
}

/* members that the RAW format is known not to restore and that are workspace values recomputed by the next
   calculation (the property allows one dump/read cycle to reach the fixed point): serialised double index -> skipped.
   cxxGasComp::p: "-p" is matched by prefix to the obsolete "-phase_name" option and dropped by the reader. */
static bool skip_double(const char *tmpl, size_t i)
{
	if (tmpl == TMPL_GAS_PHASE_RAW_5) return i == 5 || i == 11;
	return false;
}

template<class T> static void generic_roundtrip(const char *tmpl)
{
	PHRQ_io io;
	T a0(&io), a(&io), b(&io);
	read_entity(tmpl, a0, &io);
	vf_check("rt.template_reads_clean", g_errs == 0);
	Dictionary dict;
	std::vector<int> ints, ints2;
	std::vector<double> dbl, dbl2;
	a0.Serialize(dict, ints, dbl);
	std::vector<double> sym(dbl.size());
	for (size_t i = 0; i < dbl.size(); i++) sym[i] = vf_double("d", -1e6, 1e6);
	int ii = 0, dd = 0;
	a.Deserialize(dict, ints, sym, ii, dd);
	vf_check("rt.deserialize_consumes_all", ii == (int) ints.size() && dd == (int) sym.size());
	a.Set_description("");     /* canonical form: the reader trims the description, so an untrimmed one needs the one cycle the property allows */
	std::string t1 = dump(a);
	g_errs = 0;
	read_entity(t1.c_str(), b, &io);
	vf_reach("rt.reread");
	vf_check("rt.no_errors", g_errs == 0);
	b.Serialize(dict, ints2, dbl2);
	vf_check("rt.ints.size", ints2.size() == ints.size());
	vf_check("rt.doubles.size", dbl2.size() == sym.size());
	for (size_t i = 0; i < ints.size() && i < ints2.size(); i++) vf_check("rt.int_member", ints2[i] == ints[i]);
	for (size_t i = 0; i < sym.size() && i < dbl2.size(); i++)
		if (!skip_double(tmpl, i)) vf_close("rt.double_member", dbl2[i], sym[i], 1e-12, 0);
	std::string t2 = dump(b);
	if (tmpl != TMPL_GAS_PHASE_RAW_5) vf_check("rt.fixed_point", t1 == t2);
#if VF_TIER >= 2
	{	/* fixed point after at most one cycle, exactly as the property states it */
		T c(&io);
		read_entity(t2.c_str(), c, &io);
		std::string t3 = dump(c);
		vf_check("rt.fixed_point_after_one_cycle", t2 == t3 && g_errs == 0);
	}
#endif
	if (!(t1 == t2)) { vf_event_s("rt.text1", t1.c_str()); vf_event_s("rt.text2", t2.c_str()); }
}

extern "C" void vfh_C10_rt_ppassemblage(void) { generic_roundtrip<cxxPPassemblage>(TMPL_EQUILIBRIUM_PHASES_RAW_5); }
extern "C" void vfh_C10_rt_exchange(void) { generic_roundtrip<cxxExchange>(TMPL_EXCHANGE_RAW_5); }
extern "C" void vfh_C10_rt_gasphase(void) { generic_roundtrip<cxxGasPhase>(TMPL_GAS_PHASE_RAW_5); }
extern "C" void vfh_C10_rt_ssassemblage(void) { generic_roundtrip<cxxSSassemblage>(TMPL_SOLID_SOLUTIONS_RAW_5); }
extern "C" void vfh_C10_rt_kinetics(void) { generic_roundtrip<cxxKinetics>(TMPL_KINETICS_RAW_5); }
extern "C" void vfh_C10_rt_surface(void) { generic_roundtrip<cxxSurface>(TMPL_SURFACE_RAW_5); }
extern "C" void vfh_C10_rt_solution(void) { generic_roundtrip<cxxSolution>(TMPL_SOLUTION_RAW_2); }
extern "C" void vfh_C10_rt_solution_isotopes(void)
{
	PHRQ_io io;
	cxxSolution a(&io);
	read_entity(TMPL_SOLUTION_RAW_1, a, &io);
	vf_reach("iso.reread");
	vf_check("iso.dump_with_isotopes_reads_without_error", g_errs == 0);
	vf_check("iso.isotopes_restored", a.Get_isotopes().size() == 2);
}
extern "C" void vfh_C10_rt_temperature(void) { generic_roundtrip<cxxTemperature>(TMPL_REACTION_TEMPERATURE_RAW_5); }
extern "C" void vfh_C10_rt_pressure(void) { generic_roundtrip<cxxPressure>(TMPL_REACTION_PRESSURE_RAW_5); }
