// @static_init Reaction.cxx NameDouble.cxx cxxMix.cxx Utils.cxx
// @id C10.roundtrip.Reaction
// @engine B
// @entry vfh_C10_rt_reaction
// @shared_state_watch
// @tier Q
// @reach rt.reread
// @funcs cxxReaction::dump_raw; cxxReaction::read_raw; cxxNameDouble::read_raw; PHRQ_io::get_line
// @bounds template REACTION_RAW 5: 2 reactants, explicit step list of 1..8 steps (case split; the writer wraps the list over several lines), every amount symbolic in [-1e6,1e6]; countSteps and equalIncrements by case split
// @oracle the reaction read back from its own dump has the same reactants and coefficients, the same number of steps with the same amounts in order, the same units, counts and flags; no error is raised; dump of the copy is the same text
// @stubs PHRQ_io::error_msg / warning_msg (counted); iostream model
// @outside decimal precision
// @id C10.roundtrip.Mix
// @engine B
// @entry vfh_C10_rt_mix
// @shared_state_watch
// @tier Q
// @reach rt.reread
// @funcs cxxMix::dump_raw; cxxMix::read_raw
// @bounds template MIX_RAW 7 with 1..3 components whose fractions are symbolic in [-1e6,1e6]
// @oracle same components (solution number -> fraction) after the round trip; no errors; same text
#include "Phreeqc.h"
#include "Reaction.h"
#include "cxxMix.h"
#include "Parser.h"
#include "vf.h"
#include <sstream>
#include <string.h>
#include "templates.inc"

static int g_errs = 0;
void PHRQ_io::error_msg(const char *err_str, bool stop) { g_errs++; vf_event_s("error_msg", err_str); }
void PHRQ_io::warning_msg(const char *err_str) { vf_event_s("warning_msg", err_str); }

template<class T> static std::string dump(const T &x) { std::ostringstream os; x.dump_raw(os, 0); return os.str(); }
template<class T> static void read_entity(const char *text, T &y, PHRQ_io *io)
{
	std::string s(text);
	std::istringstream is(s);
	io->push_istream(&is, false);
	io->get_line();
	CParser parser(io);
	y.read_raw(parser);
	io->clear_istream();
}

extern "C" void vfh_C10_rt_reaction(void)
{
	PHRQ_io io;
	cxxReaction a(&io), b(&io);
	read_entity(TMPL_REACTION_RAW_5, a, &io);
	vf_check("rt.template_reads_clean", g_errs == 0 && a.Get_steps().size() == 8 && a.Get_reactantList().size() == 2);
	int nsteps = (int) vf_int("nsteps", 1, 8);
	a.Get_steps().clear();
	for (int i = 0; i < nsteps; i++) a.Get_steps().push_back(vf_double("step", -1e6, 1e6));
	for (cxxNameDouble::iterator it = a.Get_reactantList().begin(); it != a.Get_reactantList().end(); ++it)
		it->second = vf_double("coef", -1e6, 1e6);
	a.Set_countSteps((int) vf_int("countSteps", 0, 3));
	a.Set_equalIncrements(vf_int("equalIncrements", 0, 1) != 0);
	a.Set_description("");
	std::string t1 = dump(a);
	g_errs = 0;
	read_entity(t1.c_str(), b, &io);
	vf_reach("rt.reread");
	vf_check("rt.no_errors", g_errs == 0);
	vf_check("rt.n_user", b.Get_n_user() == a.Get_n_user() && b.Get_n_user_end() == a.Get_n_user_end());
	vf_check("rt.steps.size", b.Get_steps().size() == a.Get_steps().size());
	for (size_t i = 0; i < a.Get_steps().size() && i < b.Get_steps().size(); i++)
		vf_close("rt.step", b.Get_steps()[i], a.Get_steps()[i], 1e-12, 0);
	vf_check("rt.reactants.size", b.Get_reactantList().size() == a.Get_reactantList().size());
	for (cxxNameDouble::iterator it = a.Get_reactantList().begin(); it != a.Get_reactantList().end(); ++it)
	{
		cxxNameDouble::iterator jt = b.Get_reactantList().find(it->first);
		vf_check("rt.reactant.present", jt != b.Get_reactantList().end());
		if (jt != b.Get_reactantList().end()) vf_close("rt.reactant.coef", jt->second, it->second, 1e-12, 0);
	}
	vf_check("rt.units", b.Get_units() == a.Get_units());
	vf_check("rt.countSteps", b.Get_countSteps() == a.Get_countSteps());
	vf_check("rt.equalIncrements", b.Get_equalIncrements() == a.Get_equalIncrements());
	std::string t2 = dump(b);
	vf_check("rt.fixed_point", t1 == t2);
}

extern "C" void vfh_C10_rt_mix(void)
{
	PHRQ_io io;
	cxxMix a(&io), b(&io);
	read_entity(TMPL_MIX_RAW_7, a, &io);
	vf_check("rt.template_reads_clean", g_errs == 0 && a.Get_mixComps().size() == 2);
	int n = (int) vf_int("ncomps", 1, 3);
	a.mixComps.clear();
	for (int i = 0; i < n; i++) a.Add(10 * i + 1, vf_double("fraction", -1e6, 1e6));
	a.Set_description("");
	std::string t1 = dump(a);
	g_errs = 0;
	read_entity(t1.c_str(), b, &io);
	vf_reach("rt.reread");
	vf_check("rt.no_errors", g_errs == 0);
	vf_check("rt.n_user", b.Get_n_user() == a.Get_n_user());
	vf_check("rt.size", b.Get_mixComps().size() == a.Get_mixComps().size());
	for (std::map<int, LDBLE>::const_iterator it = a.Get_mixComps().begin(); it != a.Get_mixComps().end(); ++it)
	{
		std::map<int, LDBLE>::const_iterator jt = b.Get_mixComps().find(it->first);
		vf_check("rt.comp.present", jt != b.Get_mixComps().end());
		if (jt != b.Get_mixComps().end()) vf_close("rt.comp.fraction", jt->second, it->second, 1e-12, 0);
	}
	std::string t2 = dump(b);
	vf_check("rt.fixed_point", t1 == t2);
}
