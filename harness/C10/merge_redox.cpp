// @static_init NameDouble.cxx Utils.cxx
// @id C10.modify_totals_merge
// @also C14
// @engine B
// @entry vfh_C10_merge_redox
// @shared_state_watch
// @tier Q
// @reach merge.done
// @funcs cxxNameDouble::merge_redox
// @bounds the routine with which SOLUTION_MODIFY / a RAW re-read merges a -totals block into the totals a solution holds: the stored totals are an arbitrary subset of {Fe, Fe(2), Fe(3), S, S(6), Ca} (64 subsets, case split) with symbolic amounts; the block names one of these six (case split) with a symbolic amount
// @oracle *_MODIFY changes only the named quantities, and a total is stated once: after the merge the named entry has the new amount; if the block names an element, its valence-state entries are gone; if it names a valence state, the plain element entry is gone (the element is now described by its states); entries of other elements - including elements whose name merely starts with the same letters - are untouched; the result never holds an element both as a plain total and as valence states unless it already did and the block did not name that element
// @stubs none
// @outside parsing of the block; blocks naming several entries of one element
#include "NameDouble.h"
#include "vf.h"
#include <string.h>
#include <string>
#include <map>

static const char *U[6] = {"Fe", "Fe(2)", "Fe(3)", "S", "S(6)", "Ca"};
static const int ELT[6] = {0, 0, 0, 1, 1, 2};          /* element of each name */
static const int PLAIN[6] = {1, 0, 0, 1, 0, 1};

extern "C" void vfh_C10_merge_redox(void)
{
	int mask = (int) vf_int("stored_totals_mask", 0, 63), named = (int) vf_int("named_total", 0, 5);
	double amt[6], x = vf_double("new_amount", 0, 10);
	cxxNameDouble nd, src;
	for (int i = 0; i < 6; i++) { amt[i] = vf_double("stored_amount", 0, 10); if ((mask >> i) & 1) nd[U[i]] = amt[i]; }
	src[U[named]] = x;
	nd.merge_redox(src);
	vf_reach("merge.done");
	/* reference: the same rule written over the six names */
	bool want[6]; double wv[6];
	for (int i = 0; i < 6; i++) { want[i] = ((mask >> i) & 1) != 0; wv[i] = amt[i]; }
	for (int i = 0; i < 6; i++)
		if (i != named && ELT[i] == ELT[named] && PLAIN[i] != PLAIN[named]) want[i] = false;   /* the other description of that element */
	want[named] = true; wv[named] = x;
	size_t n = 0;
	for (int i = 0; i < 6; i++)
	{
		cxxNameDouble::iterator it = nd.find(U[i]);
		vf_check(i == named ? "merge.named_total_set" : ELT[i] == ELT[named] ? "merge.one_description_per_element" : "merge.other_elements_untouched",
			 (it != nd.end()) == want[i]);
		if (want[i] && it != nd.end()) { vf_close("merge.amounts", it->second, wv[i], 0, 0); n++; }
	}
	vf_check("merge.no_other_entries", nd.size() == n);
}
