// @static_init SS.cxx SScomp.cxx NameDouble.cxx Reaction.cxx
// @id C10.roundtrip.SS
// @engine B
// @entry vfh_C10_rt_ss
// @shared_state_watch
// @tier Q
// @reach ss.reread
// @funcs cxxSS::dump_raw; cxxSS::read_raw; cxxSScomp::dump_raw; cxxSScomp::read_raw; CParser::get_option
// @bounds one solid solution with 2 components; every numeric member (24 doubles) symbolic in [-1e6,1e6] (printed as exact placeholders, see assumptions); flags and input_case by case split; the real RAW writer, the real CParser and the real RAW reader are executed on the text
// @oracle the object read back from its own dump has every data member equal to the original; reading raises no error; dumping the copy gives the same text (fixed point)
// @stubs none (iostream model: vf/streams.py)
// @outside decimal precision of printed doubles; the engine's use of the restored state
#include "Phreeqc.h"
#include "SS.h"
#include "Reaction.h"
#include "Parser.h"
#include "vf.h"
#include <sstream>
#include <string.h>

static int g_errs = 0;
void PHRQ_io::error_msg(const char *err_str, bool stop) { g_errs++; vf_event_s("error_msg", err_str); }
void PHRQ_io::warning_msg(const char *err_str) { vf_event_s("warning_msg", err_str); }

template<class T> static std::string dump(const T &x) { std::ostringstream os; x.dump_raw(os, 0); return os.str(); }
template<class T> static void reread(const std::string &text, T &y, PHRQ_io *io)
{
	std::istringstream is(text);
	CParser parser(is, io);
	y.read_raw(parser, false);
}
static double sym(const char *n) { return vf_double(n, -1e6, 1e6); }
#define SAME(l, a, b) vf_close(l, a, b, 1e-12, 0)

extern "C" void vfh_C10_rt_ss(void)
{
	PHRQ_io io;
	cxxSS a(&io), b(&io);
	a.Set_name("Calcite-Sr");
	a.Set_tk(sym("tk")); a.Set_ag0(sym("ag0")); a.Set_ag1(sym("ag1")); a.Set_a0(sym("a0")); a.Set_a1(sym("a1"));
	a.Set_xb1(sym("xb1")); a.Set_xb2(sym("xb2")); a.Set_total_moles(sym("total_moles")); a.Set_dn(sym("dn"));
	a.Set_miscibility(vf_int("miscibility", 0, 1) != 0); a.Set_spinodal(vf_int("spinodal", 0, 1) != 0); a.Set_ss_in(vf_int("ss_in", 0, 1) != 0);
	a.Set_input_case((cxxSS::SS_PARAMETER_TYPE) vf_int("input_case", 0, 10));
	a.Get_p().clear();
	for (int i = 0; i < 4; i++) a.Get_p().push_back(sym("p"));
	for (int k = 0; k < 2; k++)
	{
		cxxSScomp c(&io);
		c.Set_name(k ? "Strontianite" : "Aragonite");
		c.Set_moles(sym("moles")); c.Set_initial_moles(sym("initial_moles")); c.Set_init_moles(sym("init_moles"));
		c.Set_delta(sym("delta")); c.Set_fraction_x(sym("fraction_x")); c.Set_log10_lambda(sym("log10_lambda"));
		c.Set_log10_fraction_x(sym("log10_fraction_x")); c.Set_dn(sym("c_dn")); c.Set_dnc(sym("dnc")); c.Set_dnb(sym("dnb"));
		a.Get_ss_comps().push_back(c);
	}
	std::string t1 = dump(a);
	reread(t1, b, &io);
	vf_reach("ss.reread");
	vf_check("ss.no_errors", g_errs == 0);
	SAME("ss.tk", b.Get_tk(), a.Get_tk()); SAME("ss.ag0", b.Get_ag0(), a.Get_ag0()); SAME("ss.ag1", b.Get_ag1(), a.Get_ag1());
	SAME("ss.a0", b.Get_a0(), a.Get_a0()); SAME("ss.a1", b.Get_a1(), a.Get_a1());
	SAME("ss.xb1", b.Get_xb1(), a.Get_xb1()); SAME("ss.xb2", b.Get_xb2(), a.Get_xb2());
	SAME("ss.total_moles", b.Get_total_moles(), a.Get_total_moles()); SAME("ss.dn", b.Get_dn(), a.Get_dn());
	vf_check("ss.flags", b.Get_miscibility() == a.Get_miscibility() && b.Get_spinodal() == a.Get_spinodal() && b.Get_ss_in() == a.Get_ss_in());
	vf_check("ss.input_case", b.Get_input_case() == a.Get_input_case());
	vf_check("ss.p.size", b.Get_p().size() == 4);
	for (int i = 0; i < 4 && i < (int) b.Get_p().size(); i++) SAME("ss.p", b.Get_p()[i], a.Get_p()[i]);
	vf_check("ss.ncomps", b.Get_ss_comps().size() == 2);
	for (int k = 0; k < 2 && k < (int) b.Get_ss_comps().size(); k++)
	{
		cxxSScomp &x = a.Get_ss_comps()[k], &y = b.Get_ss_comps()[k];
		vf_check("comp.name", y.Get_name() == x.Get_name());
		SAME("comp.moles", y.Get_moles(), x.Get_moles()); SAME("comp.initial_moles", y.Get_initial_moles(), x.Get_initial_moles());
		SAME("comp.init_moles", y.Get_init_moles(), x.Get_init_moles()); SAME("comp.delta", y.Get_delta(), x.Get_delta());
		SAME("comp.fraction_x", y.Get_fraction_x(), x.Get_fraction_x()); SAME("comp.log10_lambda", y.Get_log10_lambda(), x.Get_log10_lambda());
		SAME("comp.log10_fraction_x", y.Get_log10_fraction_x(), x.Get_log10_fraction_x());
		SAME("comp.dn", y.Get_dn(), x.Get_dn()); SAME("comp.dnc", y.Get_dnc(), x.Get_dnc()); SAME("comp.dnb", y.Get_dnb(), x.Get_dnb());
	}
	std::string t2 = dump(b);
	vf_check("ss.fixed_point", t1 == t2);
}
