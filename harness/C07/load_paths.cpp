// @id C07.load_paths_unload_first
// @also C13
// @engine B
// @entry vfh_C07_load_paths
// @shared_state_watch
// @tier Q
// @opts presplit=0
// @reach load_path.returned
// @funcs IPhreeqc::load_db; IPhreeqc::load_db_str; IPhreeqc::UnLoadDatabase
// @bounds both workers of LoadDatabase / LoadDatabaseString (real code, the engine's read_database replaced by an event that reports 0..1 errors) on an instance that either never had a database or has one loaded (case split), in a used state: current selected-output user number 5 with its file and string switches on, components, an old error and warning, accumulated lines; the database file exists or cannot be opened (file model)
// @oracle a load starts from the unloaded state whatever the instance went through before - also settings made on a new instance before its first load: afterwards the current selected-output user number is 1, the per-user-number selected-output switches are those of a new instance, old errors / warnings / components / accumulated lines are gone, the engine was re-initialised (clean_up, init, do_initialize) before the database text was read, the input stream stack is empty, and DatabaseLoaded tells whether the text was read without error; both entry points behave the same
// @stubs Phreeqc engine (events); Phreeqc::read_database (event + symbolic error count); iostream / file model
// @outside reading the database text; test_db (the trial run after a successful load)
#define VF_OWN_REINIT_STUBS
#include "../common/engine_stubs.inc"
#include <string.h>

static int g_read_errors = 0, g_seq = 0, g_reinit_before_read = 0, g_stream_seen = 0;
int Phreeqc::clean_up(void) { g_seq = g_seq * 10 + 1; return OK; }
void Phreeqc::init(void) { g_seq = g_seq * 10 + 2; }
int Phreeqc::do_initialize(void) { g_seq = g_seq * 10 + 3; return OK; }
int Phreeqc::read_database(void)
{
	g_reinit_before_read = (g_seq == 123);
	g_stream_seen = phrq_io->get_istream() != NULL;
	input_error = g_read_errors;
	g_seq = g_seq * 10 + 4;
	return OK;
}
int Phreeqc::get_input_errors(void) { return input_error == 0 ? phrq_io->Get_io_error_count() : input_error; }
void Phreeqc::error_msg(const char *err_str, bool stop) { if (input_error <= 0) input_error = 1; if (stop) throw IPhreeqcStop(); }

extern "C" void vfh_C07_load_paths(void)
{
	new (&IPhreeqc::Instances) std::map<size_t, IPhreeqc*>();
	IPhreeqc::InstancesIndex = 0;
	IPhreeqc *u = new IPhreeqc(), *f = new IPhreeqc();
	g_seq = 0;                                           /* the constructors re-initialise too */
	int was_loaded = (int) vf_int("database_loaded_before", 0, 1), entry = (int) vf_int("entry", 0, 1);
	int file_ok = entry == 0 ? (int) vf_int("database_file_exists", 0, 1) : 1;
	g_read_errors = (int) vf_int("read_errors", 0, 1);
	u->DatabaseLoaded = was_loaded != 0;
	u->UpdateComponents = false; u->Components.push_back("Na");
	u->AccumulateLine("SOLUTION 1");
	u->AddError("old error\n"); u->AddWarning("old warning\n");
	u->SetCurrentSelectedOutputUserNumber(5); u->SetSelectedOutputStringOn(true); u->SetSelectedOutputFileOn(true);
	u->SetSelectedOutputFileName("mine.sel");
	if (file_ok) vf_file("db.dat", "SOLUTION_MASTER_SPECIES\n");
	int rc = entry == 0 ? u->load_db("db.dat") : u->load_db_str("SOLUTION_MASTER_SPECIES\n");
	vf_reach("load_path.returned");
	bool read = file_ok != 0;
	vf_check("load.engine_reinitialised_first", read ? g_reinit_before_read : g_seq == 123);
	vf_check("load.text_read_from_pushed_stream", !read || g_stream_seen);
	vf_check("load.stream_stack_empty_afterwards", u->PhreeqcPtr->phrq_io->get_istream() == NULL);
	vf_check("load.return_value", rc == (read ? g_read_errors : 1));
	vf_check("load.DatabaseLoaded_iff_no_error", u->DatabaseLoaded == (rc == 0));
	vf_check("load.current_user_number_reset", u->GetCurrentSelectedOutputUserNumber() == f->GetCurrentSelectedOutputUserNumber());
	vf_check("load.selected_output_switches_reset", u->SelectedOutputStringOn.size() == f->SelectedOutputStringOn.size() &&
		 u->SelectedOutputFileOnMap.size() == f->SelectedOutputFileOnMap.size() &&
		 u->GetSelectedOutputStringOn() == f->GetSelectedOutputStringOn() && u->GetSelectedOutputFileOn() == f->GetSelectedOutputFileOn());
	u->SetCurrentSelectedOutputUserNumber(5); f->SetCurrentSelectedOutputUserNumber(5);
	vf_check("load.selected_output_5_switches_reset", u->GetSelectedOutputStringOn() == f->GetSelectedOutputStringOn() && u->GetSelectedOutputFileOn() == f->GetSelectedOutputFileOn());
	vf_check("load.components_dropped", u->Components.size() == 0 && u->UpdateComponents == true);
	vf_check("load.accumulated_lines_dropped", u->GetAccumulatedLines() == f->GetAccumulatedLines());
	vf_check("load.old_warning_dropped", ((CErrorReporter<std::ostringstream>*) u->WarningReporter)->GetOS()->str().size() == 0);
	vf_check("load.old_error_dropped", ((CErrorReporter<std::ostringstream>*) u->ErrorReporter)->GetOS()->str().find("old error") == std::string::npos);
}
