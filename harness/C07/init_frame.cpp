// @layout Phreeqc -ioInstance
// @id C07.reinit_equals_fresh
// @also C06 C08
// @engine B
// @entry vfh_C07_reinit
// @shared_state_watch
// @tier Q
// @opts max_steps=20000000
// @reach reinit.compared
// @funcs Phreeqc::Phreeqc; Phreeqc::init
// @bounds the real engine object: one instance freshly constructed; a second one constructed and then every int / double / bool member and every callback (function-pointer) member of class Phreeqc (all scalar leaves of the IR struct layout outside standard-library containers, ~2000) overwritten with a junk pattern - an arbitrary "used or half-failed" state of those members - followed by init(), the member-reset step of a database load (UnLoadDatabase = clean_up; init; do_initialize) and of construction
// @oracle after the load sequence every scalar member equals its value in a freshly constructed engine and every pointer member is null / non-null as in the fresh one: no scalar survives a load (LoadDatabase returns the instance to the fresh state; results never depend on what an earlier instance left in memory)
// @stubs PHRQ_io::error_msg / warning_msg / output_msg (events)
// @outside clean_up / do_initialize (they walk containers whose sizes must agree with the scalar counts: arbitrary scalars are not a reachable state for them); contents of containers (see C07.containers_cleared) and of heap blocks behind pointers; scalars that live inside standard-library members
#include "Phreeqc.h"
#include "vf.h"
#include <new>

void PHRQ_io::error_msg(const char *err_str, bool stop) { vf_event_s("error_msg", err_str); }
void PHRQ_io::warning_msg(const char *err_str) { vf_event_s("warning_msg", err_str); }
void PHRQ_io::output_msg(const char *str) {}

extern "C" void vfh_C07_reinit(void)
{
	PHRQ_io io;
	Phreeqc *fresh = new Phreeqc(&io);
	fresh->clean_up(); fresh->init(); fresh->do_initialize();   /* what IPhreeqc's constructor does (UnLoadDatabase) */
	PHRQ_io io_used;
	Phreeqc *used = new Phreeqc(&io_used);
	used->clean_up(); used->init(); used->do_initialize();
	/* counts and sizes that clean_up / initialize use as loop bounds over containers keep their (consistent) values */
	vf_havoc_except((void *) used, "Phreeqc", "count_|max_|n_|num|size|new_|stag_data.count_stag");
	used->phrq_io = &io_used;
	/* the stream switches of the io object that input options flip (KNOBS -logfile, PRINT -selected_output / -dump / -echo_input) */
	io_used.Set_log_on(true); io_used.Set_punch_on(false); io_used.Set_dump_on(false); io_used.Set_echo_on(false);
	used->basic_callback_cookie = (void *) &io_used;            /* the cookie registered with a BASIC callback by the host */
	used->clean_up();
	used->init();
	used->do_initialize();
	vf_reach("reinit.compared");
	vf_check("reinit.callback_cookie_dropped", used->basic_callback_cookie == NULL && fresh->basic_callback_cookie == NULL);
	/* log_on has no other place that re-establishes it; punch_on is set from pr.punch by tidy_punch whenever a SELECTED_OUTPUT
	   exists (a load removes them all), echo_on at the start of every read_input, and IPhreeqc routes dumps itself (reviewed) */
	vf_check("reinit.log_stream_switch_as_fresh", io_used.Get_log_on() == io.Get_log_on());
	/* Reviewed members that a load does not reset and that cannot influence later results:
	   - use.*: cxxUse::init() runs at the start of every read_input();
	   - last_model.numerical_fixed_volume: only compared by check_same_model when force_prep is false, and a load sets force_prep;
	   - base_error_count of the DUMP, DELETE, RUN_CELLS request objects and the "defined" flag of their -cell item: reset when the next
	     request is read (StorageBinList::Read starts by clearing the cell item);
	   - mixrun, sit_aqueous_unknowns, kgw_kgs, bdot_llnl, solution_volume_x, solution_mass_x, rho_0_sat, SC: never initialised by the
	     constructor either; each is assigned by the routine that precedes every read (transport loop, prep, calc_solution_volume /
	     convert_units, gammas, calc_rho_0, calc_SC);
	   - fpunchf_user_buffer / token: scratch character buffers. */
	vf_same_scalars_except("reinit.scalars_as_fresh", (void *) used, (void *) fresh, "Phreeqc",
		"use.|last_model.numerical_fixed_volume|"
		"dump_info.base_error_count|dump_info.binList.base_error_count|delete_info.base_error_count|run_info.base_error_count|"
		"dump_info.binList.cell.defined|delete_info.cell.defined|"
		"mixrun|sit_aqueous_unknowns|kgw_kgs|bdot_llnl|solution_volume_x|solution_mass_x|rho_0_sat|SC|fpunchf_user_buffer|token");
}
