// @layout Phreeqc -ioInstance
// @id C07.reinit_equals_fresh
// @also C06 C08
// @engine B
// @entry vfh_C07_reinit
// @shared_state_watch
// @tier Q
// @opts max_steps=20000000
// @reach reinit.compared
// @funcs Phreeqc::Phreeqc; Phreeqc::init
// @bounds the real engine object: one instance freshly constructed; a second one constructed and then every int / double / bool member and every callback (function-pointer) member of class Phreeqc (all scalar leaves of the IR struct layout outside standard-library containers, ~2000) overwritten with a junk pattern - an arbitrary "used or half-failed" state of those members - followed by init(), the member-reset step of a database load (UnLoadDatabase = clean_up; init; do_initialize) and of construction
// @oracle after the load sequence every scalar member equals its value in a freshly constructed engine and every pointer member is null / non-null as in the fresh one: no scalar survives a load (LoadDatabase returns the instance to the fresh state; results never depend on what an earlier instance left in memory)
// @stubs PHRQ_io::error_msg / warning_msg / output_msg (events)
// @outside clean_up / do_initialize (they walk containers whose sizes must agree with the scalar counts: arbitrary scalars are not a reachable state for them); contents of containers (see C07.containers_cleared) and of heap blocks behind pointers; scalars that live inside standard-library members
// @id C07.owned_objects_and_caches_dropped
// @engine B
// @entry vfh_C07_owned_and_caches
// @shared_state_watch
// @tier Q
// @opts max_steps=60000000 budget_s=600
// @reach reinit.compared
// @funcs Phreeqc::clean_up; Phreeqc::pitzer_clean_up; Phreeqc::read_master_species
// @bounds a really constructed engine in the state a Pitzer database with -APHI and earlier formula-weight look-ups leave (the optional A-phi polynomial owned through a raw pointer; entries in the formula-weight cache), followed by what a database load does: clean_up, init, do_initialize and the reading of the new SOLUTION_MASTER_SPECIES block by the real reader
// @oracle after a load the instance behaves like a fresh one that loaded the same database: nothing computed from the previous database is still consulted - the A-phi polynomial of the previous database is gone (the Debye-Hueckel slope comes from the default formulation) and the formula-weight cache holds no entry of the previous database (these are the two members the field-by-field and container comparisons cannot decide: one is behind a pointer, the other is exempted there on the strength of this reader)
// @stubs PHRQ_io::error_msg / warning_msg / output_msg (events)
// @outside other heap blocks behind raw pointers (transport work space: C06.transport_state_per_instance)
#include "Phreeqc.h"
#include "vf.h"
#include <new>

void PHRQ_io::error_msg(const char *err_str, bool stop) { vf_event_s("error_msg", err_str); }
void PHRQ_io::warning_msg(const char *err_str) { vf_event_s("warning_msg", err_str); }
void PHRQ_io::output_msg(const char *str) {}

extern "C" void vfh_C07_reinit(void)
{
	PHRQ_io io;
	Phreeqc *fresh = new Phreeqc(&io);
	fresh->clean_up(); fresh->init(); fresh->do_initialize();   /* what IPhreeqc's constructor does (UnLoadDatabase) */
	PHRQ_io io_used;
	Phreeqc *used = new Phreeqc(&io_used);
	used->clean_up(); used->init(); used->do_initialize();
	/* counts and sizes that clean_up / initialize use as loop bounds over containers keep their (consistent) values */
	vf_havoc_except((void *) used, "Phreeqc", "count_|max_|n_|num|size|new_|stag_data.count_stag");
	used->phrq_io = &io_used;
	/* the stream switches of the io object that input options flip (KNOBS -logfile, PRINT -selected_output / -dump / -echo_input) */
	io_used.Set_log_on(true); io_used.Set_punch_on(false); io_used.Set_dump_on(false); io_used.Set_echo_on(false);
	used->basic_callback_cookie = (void *) &io_used;            /* the cookie registered with a BASIC callback by the host */
	used->clean_up();
	used->init();
	used->do_initialize();
	vf_reach("reinit.compared");
	vf_check("reinit.callback_cookie_dropped", used->basic_callback_cookie == NULL && fresh->basic_callback_cookie == NULL);
	/* log_on has no other place that re-establishes it; punch_on is set from pr.punch by tidy_punch whenever a SELECTED_OUTPUT
	   exists (a load removes them all), echo_on at the start of every read_input, and IPhreeqc routes dumps itself (reviewed) */
	vf_check("reinit.log_stream_switch_as_fresh", io_used.Get_log_on() == io.Get_log_on());
	/* Reviewed members that a load does not reset and that cannot influence later results:
	   - use.*: cxxUse::init() runs at the start of every read_input();
	   - last_model.numerical_fixed_volume: only compared by check_same_model when force_prep is false, and a load sets force_prep;
	   - base_error_count of the DUMP, DELETE, RUN_CELLS request objects and the "defined" flag of their -cell item: reset when the next
	     request is read (StorageBinList::Read starts by clearing the cell item);
	   - mixrun, sit_aqueous_unknowns, kgw_kgs, bdot_llnl, solution_volume_x, solution_mass_x, rho_0_sat, SC: never initialised by the
	     constructor either; each is assigned by the routine that precedes every read (transport loop, prep, calc_solution_volume /
	     convert_units, gammas, calc_rho_0, calc_SC);
	   - fpunchf_user_buffer / token: scratch character buffers. */
	vf_same_scalars_except("reinit.scalars_as_fresh", (void *) used, (void *) fresh, "Phreeqc",
		"use.|last_model.numerical_fixed_volume|"
		"dump_info.base_error_count|dump_info.binList.base_error_count|delete_info.base_error_count|run_info.base_error_count|"
		"dump_info.binList.cell.defined|delete_info.cell.defined|"
		"mixrun|sit_aqueous_unknowns|kgw_kgs|bdot_llnl|solution_volume_x|solution_mass_x|rho_0_sat|SC|fpunchf_user_buffer|token");
}

/* members the field-by-field comparison cannot reach: an object owned through a raw pointer, and a cache whose exemption in
   C07.all_containers_reset rests on "cleared whenever SOLUTION_MASTER_SPECIES is read" */
#include <sstream>
extern "C" void vfh_C07_owned_and_caches(void)
{
	PHRQ_io io;
	Phreeqc *p = new Phreeqc(&io);
	p->clean_up(); p->init(); p->do_initialize();
	/* a used state: a Pitzer database with -APHI was loaded, formula weights were looked up */
	p->aphi = new pitz_param();
	p->aphi->type = TYPE_APHI;
	p->gfw_map["SO4"] = 96.064; p->gfw_map["H2O"] = 18.016;
	/* the next load */
	p->clean_up(); p->init(); p->do_initialize();
	vf_check("load.aphi_polynomial_of_previous_database_released", p->aphi == NULL);
	std::string text("Na Na+ 0 Na 22.9898\nCl Cl- 0 Cl 35.453\nEND\n");        /* the SOLUTION_MASTER_SPECIES block of the new database */
	std::istringstream is(text);
	io.push_istream(&is, false);
	int rv = p->read_master_species();
	io.pop_istream();
	vf_reach("reinit.compared");
	vf_check("load.master_species_read", rv == KEYWORD || rv == EOF);
	vf_check("load.formula_weight_cache_of_previous_database_dropped", p->gfw_map.count("SO4") == 0 && p->gfw_map.count("H2O") == 0);
}
