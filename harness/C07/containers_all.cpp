// @gen gen_containers.py containers_table.inc
// @static_init ALL
// @id C07.all_containers_reset
// @also C08
// @engine B
// @entry vfh_C07_all_containers
// @shared_state_watch
// @tier Q
// @opts max_steps=60000000 budget_s=300
// @reach containers.reloaded
// @funcs Phreeqc::clean_up; Phreeqc::init; Phreeqc::do_initialize
// @bounds the real engine object: every standard-library container member of class Phreeqc at any nesting depth (list regenerated from the record layout: vectors, maps, sets, strings, lists - 209 on the pinned tree, including the work lists of COPY, DUMP, DELETE and RUN_CELLS requests, the USE / SAVE bookkeeping, the transport work space) is given extra content (two default elements / one default key / the text "junk") - what a used or half-failed run can leave behind - and then the load sequence clean_up(); init(); do_initialize() runs; tables of raw pointers into parser-built data (elements, species, phases, master, ...) are not junked because clean_up dereferences their entries; 70 work buffers that are provably re-initialised before every use are exempt by a reviewed list in the harness (each with the source line that re-initialises it)
// @oracle LoadDatabase returns the instance to the fresh state: after the load sequence every one of these containers has exactly as many elements as in an engine that was only constructed and initialised; nothing a previous run put into a work list, a request list or a cache survives a database load
// @stubs PHRQ_io::error_msg / warning_msg / output_msg (events)
// @outside the content of the tables that the sequence rebuilds (keyword counters, default units, ...) beyond their size; heap blocks behind raw pointers
#include "Phreeqc.h"
#include "Solution.h"
#include "Exchange.h"
#include "Surface.h"
#include "PPassemblage.h"
#include "GasPhase.h"
#include "SSassemblage.h"
#include "cxxKinetics.h"
#include "cxxMix.h"
#include "Reaction.h"
#include "Temperature.h"
#include "Pressure.h"
#include "SelectedOutput.h"
#include "UserPunch.h"
#include "vf.h"
#include <list>
#include <string.h>
#include <set>
#include <containers_table.inc>

void PHRQ_io::error_msg(const char *err_str, bool stop) { vf_event_s("error_msg", err_str); }
void PHRQ_io::warning_msg(const char *err_str) { vf_event_s("warning_msg", err_str); }
void PHRQ_io::output_msg(const char *str) {}

template <class T> static void junk(std::vector<T> &v) { v.resize(v.size() + 2); }
template <class K, class V> static void junk(std::map<K, V> &m) { m[K()]; }
template <class T> static void junk(std::set<T> &s) { s.insert(T()); }
template <class T> static void junk(std::list<T> &l) { l.push_back(T()); }
static void junk(std::string &s) { s += "junk"; }
template <class C> static long count(const C &c) { return (long) c.size(); }

/* Reviewed exemptions: containers whose content a load legitimately does not reset, with the reason. Anything not listed
   here - in particular any member added later - must come back empty / as in a fresh engine. */
static const char *EXEMPT[] = {
	/* the engine's own spare PHRQ_io object (IPhreeqc supplies the io object in use); a load does not touch stream stacks */
	"ioInstance.",
	/* work arrays of the simplex / inequality / inverse solvers: resized or cleared at the start of every use
	   (cl1.cpp:858-878, model.cpp:1030,1124-1130,1748-1750, inverse.cpp:251-271,1024-1042,1240-1258,2050) */
	"x_arg", "res_arg", "scratch", "inv_zero", "array1", "inv_res", "inv_delta1", "delta2", "delta3", "inv_cu", "delta_save",
	"min_delta", "max_delta", "inv_iu", "inv_is", "row_back", "col_back", "good", "bad", "minimal", "inverse_heading_names",
	"normal", "ineq_array", "res", "cu", "zero", "delta1", "iu", "is", "back_eq",
	/* species index lists of the Pitzer / SIT models: cleared and rebuilt whenever a model is prepared (pitzer.cpp:2624, sit.cpp:1618) */
	"s_list", "cation_list", "neutral_list", "anion_list", "ion_list", "param_list",
	/* per-calculation scratch: assigned or cleared before every read (basicsubs.cpp:2743, kinetics.cpp:95, prep.cpp:59,1710,
	   step.cpp:337, model.cpp:5015, utilities.cpp:1016-1061, prep.cpp:1103-1104, integrate.cpp:763,964) */
	"sys", "rate_p", "description_x", "units_x", "default_pe_x", "s_diff_layer", "status_string", "screen_string",
	"sum_species_map", "sum_species_map_db", "charge_group_map",
	/* marks of entities defined in the current input: cleared at the start of every read_input (read.cpp:42-52) */
	"Rxn_new_",
	/* formula-weight cache: cleared whenever SOLUTION_MASTER_SPECIES is read, i.e. by every database (read.cpp:3682) */
	"gfw_map",
	/* rebuilt from scratch by transport() before every use */
	"Dispersion_mix_map",
	/* -cells work list of DUMP / DELETE: reset at the start of every StorageBinList::Read and only read there */
	"dump_info.binList.cell.numbers", "delete_info.cell.numbers",
	/* names that IPhreeqc does not use (it opens the dump file under its own DumpFileName) or that are informational
	   (DATABASE keyword), and the PHAST tally table, which IPhreeqc never builds */
	"dump_info.file_name", "dump_file_name_cpp", "user_database", "tally_table",
	0
};
static bool exempt(const char *m)
{
	for (int i = 0; EXEMPT[i]; i++)
	{
		size_t n = strlen(EXEMPT[i]);
		bool prefix = EXEMPT[i][n - 1] == '.' || EXEMPT[i][n - 1] == '_';
		if (prefix ? strncmp(m, EXEMPT[i], n) == 0 : strcmp(m, EXEMPT[i]) == 0) return true;
	}
	return false;
}

extern "C" void vfh_C07_all_containers(void)
{
	PHRQ_io io;
	Phreeqc *fresh = new Phreeqc(&io);
	fresh->do_initialize();
	Phreeqc *p = new Phreeqc(&io);
	p->do_initialize();
#define JUNK(M) junk(p->M);
	C07_FILL(JUNK)
	p->clean_up();
	p->init();
	p->do_initialize();
	vf_reach("containers.reloaded");
	int n_exempt = 0;
#define SAME(M) if (!exempt(#M)) vf_check("reloaded." #M, count(p->M) == count(fresh->M)); else n_exempt++;
	C07_FILL(SAME)
	vf_event_s("pointer tables not junked", C07_SKIPPED_POINTER_TABLES);
	vf_event("exempt containers", n_exempt, C07_FILL_N);
}
