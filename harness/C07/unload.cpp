// @id C07.unload_wrapper
// @also C08 C09
// @engine B
// @entry vfh_C07_unload
// @shared_state_watch
// @tier Q
// @opts presplit=0
// @reach unload.compared
// @funcs IPhreeqc::UnLoadDatabase; IPhreeqc::IPhreeqc
// @bounds one instance put into a used state in which every wrapper member is dirty (errors, warnings, accumulated lines, selected-output maps for user numbers 1 and 5 incl. a live table, dump string/lines, components, counters); switches and user file names symbolic over on/off (case split, all-equal pattern and one-hot pattern)
// @oracle after UnLoadDatabase every public observable that a load must reset equals that of a freshly constructed instance; instance id, the output/error/log/dump switches, string switches and user-set file names are unchanged; engine is re-initialised by clean_up, init, do_initialize in this order
// @stubs Phreeqc engine (events); iostream model
// @outside engine state (see C07.init_noninterference); per-run strings cleared by the next run's prologue (C04.entry_equiv executes check_database)
// @id C07.load_switches
// @also C13
// @also C09
// @engine B
// @entry vfh_C07_load_switches
// @shared_state_watch
// @tier Q
// @opts presplit=0
// @reach load.returned
// @funcs IPhreeqc::LoadDatabase; IPhreeqc::LoadDatabaseString
// @bounds 3 file switches symbolic (8 combinations) x load outcome n in {0,1,2} x test_db outcome {0,1} x both entry points
// @oracle while loading, the output, error and log file switches are off; afterwards each has exactly its previous value, on success and on failure; the return value is the load's error count or, if that is 0, the test run's
// @stubs IPhreeqc::load_db, load_db_str, test_db (return symbolic counts, record the switch state they observe)
// @outside reading the database text
#include "../common/engine_stubs.inc"
#include <string.h>

static int g_seq = 0, g_order_ok = 1;
static int g_n_load = 0, g_n_test = 0, g_seen_switches = -1, g_calls = 0;
int IPhreeqc::load_db(const char *filename) { g_calls += 1; g_seen_switches = (OutputFileOn ? 1 : 0) | (ErrorFileOn ? 2 : 0) | (LogFileOn ? 4 : 0); return g_n_load; }
int IPhreeqc::load_db_str(const char *input) { g_calls += 10; g_seen_switches = (OutputFileOn ? 1 : 0) | (ErrorFileOn ? 2 : 0) | (LogFileOn ? 4 : 0); return g_n_load; }
int IPhreeqc::test_db(void) { g_calls += 100; g_seen_switches |= ((OutputFileOn ? 1 : 0) | (ErrorFileOn ? 2 : 0) | (LogFileOn ? 4 : 0)) << 3; return g_n_test; }

static void setsw(IPhreeqc *ip, int m)
{
	ip->SetOutputFileOn(m & 1); ip->SetErrorFileOn(m & 2); ip->SetLogFileOn(m & 4); ip->SetDumpFileOn(m & 8);
	ip->SetOutputStringOn(m & 16); ip->SetErrorStringOn(m & 32); ip->SetLogStringOn(m & 64); ip->SetDumpStringOn(m & 128);
	ip->SetErrorOn(m & 256);
}
static int getsw(IPhreeqc *ip)
{
	return (ip->GetOutputFileOn() ? 1 : 0) | (ip->GetErrorFileOn() ? 2 : 0) | (ip->GetLogFileOn() ? 4 : 0) | (ip->GetDumpFileOn() ? 8 : 0) |
	       (ip->GetOutputStringOn() ? 16 : 0) | (ip->GetErrorStringOn() ? 32 : 0) | (ip->GetLogStringOn() ? 64 : 0) | (ip->GetDumpStringOn() ? 128 : 0) |
	       (ip->GetErrorOn() ? 256 : 0);
}

extern "C" void vfh_C07_unload(void)
{
	new (&IPhreeqc::Instances) std::map<size_t, IPhreeqc*>();
	IPhreeqc::InstancesIndex = 3;
	int pattern = (int) vf_int("switch_pattern", 0, 10);     /* 0: all off, 1: all on, 2..10: one-hot */
	int m = pattern == 0 ? 0 : pattern == 1 ? 511 : (1 << (pattern - 2));
	IPhreeqc *u = new IPhreeqc();      /* used instance, id 3 */
	IPhreeqc *f = new IPhreeqc();      /* fresh reference, id 4 */
	setsw(u, m); setsw(f, m);
	u->SetOutputFileName("user.out"); u->SetErrorFileName("user.err"); u->SetLogFileName("user.log"); u->SetDumpFileName("user.dmp");
	/* dirty every member a load has to reset */
	u->DatabaseLoaded = true; u->UpdateComponents = false;
	u->Components.push_back("Na"); u->Components.push_back("Cl");
	u->StringInput = "SOLUTION 1\n"; u->ClearAccumulated = true;
	u->AddError("old error\n"); u->ErrorString = "old error\n";
	u->AddWarning("old warning\n"); u->WarningString = "old warning\n";
	u->CurrentSelectedOutputUserNumber = 5;
	u->SelectedOutputFileOnMap[5] = true; u->SelectedOutputFileOnMap[1] = true;
	u->SelectedOutputStringOn[5] = true; u->SelectedOutputStringOn[1] = true;
	u->SelectedOutputFileNameMap[5] = "/nonexistent_dir/x.sel"; u->SelectedOutputFileNameMap[1] = "from_input.sel";      /* names taken from -file options of the input */
	u->SelectedOutputMap[5] = new CSelectedOutput();
	u->SelectedOutputStringMap[5] = "row\n";
	u->SelectedOutputLinesMap[5].push_back("row");
	u->DumpString = "SOLUTION_RAW 1\n"; u->DumpLines.push_back("SOLUTION_RAW 1");
	u->PhreeqcPtr->input_error = 3; u->io_error_count = 2;
	int sw_before = getsw(u);

	u->UnLoadDatabase();
	vf_reach("unload.compared");

	vf_check("id.unchanged", u->GetId() == 3);
	vf_check("switches.unchanged", getsw(u) == sw_before && sw_before == m);
	vf_check("filenames.unchanged", !strcmp(u->GetOutputFileName(), "user.out") && !strcmp(u->GetErrorFileName(), "user.err") &&
		 !strcmp(u->GetLogFileName(), "user.log") && !strcmp(u->GetDumpFileName(), "user.dmp"));
	vf_check("DatabaseLoaded", u->DatabaseLoaded == f->DatabaseLoaded);
	vf_check("UpdateComponents", u->UpdateComponents == f->UpdateComponents);
	vf_check("Components", u->Components.size() == f->Components.size());
	vf_check("accumulated", u->GetAccumulatedLines() == f->GetAccumulatedLines() && u->ClearAccumulated == f->ClearAccumulated);
	vf_check("error.count", ((CErrorReporter<std::ostringstream>*) u->ErrorReporter)->m_error_count == 0);
	vf_check("error.reporter_text", ((CErrorReporter<std::ostringstream>*) u->ErrorReporter)->GetOS()->str().size() == 0);
	vf_check("error.string", u->ErrorString == f->ErrorString);
	vf_check("warning.count", ((CErrorReporter<std::ostringstream>*) u->WarningReporter)->m_error_count == 0);
	vf_check("warning.reporter_text", ((CErrorReporter<std::ostringstream>*) u->WarningReporter)->GetOS()->str().size() == 0);
	vf_check("warning.string", u->WarningString == f->WarningString);
	vf_check("current_user_number", u->GetCurrentSelectedOutputUserNumber() == f->GetCurrentSelectedOutputUserNumber());
	vf_check("sel.count", u->GetSelectedOutputCount() == f->GetSelectedOutputCount());
	vf_check("sel.file_on", u->GetSelectedOutputFileOn() == f->GetSelectedOutputFileOn() && u->SelectedOutputFileOnMap.size() == f->SelectedOutputFileOnMap.size());
	vf_check("sel.string_on", u->GetSelectedOutputStringOn() == f->GetSelectedOutputStringOn() && u->SelectedOutputStringOn.size() == f->SelectedOutputStringOn.size());
	vf_check("sel.file_names", u->SelectedOutputFileNameMap.size() == f->SelectedOutputFileNameMap.size() && u->sel_file_name(1) == u->GetSelectedOutputFileName() && f->sel_file_name(1) == f->GetSelectedOutputFileName());     /* the default name of a fresh instance (it contains the id) */
	vf_check("sel.string", u->SelectedOutputStringMap.size() == 0 && !strcmp(u->GetSelectedOutputString(), f->GetSelectedOutputString()));
	vf_check("sel.lines", u->SelectedOutputLinesMap.size() == 0 && u->GetSelectedOutputStringLineCount() == f->GetSelectedOutputStringLineCount());
	vf_check("sel.rows", u->GetSelectedOutputRowCount() == f->GetSelectedOutputRowCount() && u->GetSelectedOutputColumnCount() == f->GetSelectedOutputColumnCount());
	vf_check("dump.string", !strcmp(u->GetDumpString(), f->GetDumpString()) || !u->GetDumpStringOn());
	vf_check("dump.string_member", u->DumpString.size() == 0);
	vf_check("dump.lines", u->GetDumpStringLineCount() == f->GetDumpStringLineCount());
	vf_check("dump.line0", !strcmp(u->GetDumpStringLine(0), f->GetDumpStringLine(0)));
	vf_check("counters", u->PhreeqcPtr->input_error == 0 && u->io_error_count == 0);
}

extern "C" void vfh_C07_load_switches(void)
{
	new (&IPhreeqc::Instances) std::map<size_t, IPhreeqc*>();
	IPhreeqc::InstancesIndex = 0;
	IPhreeqc *ip = new IPhreeqc();
	int m = (int) vf_int("file_switches", 0, 7);
	int entry = (int) vf_int("entry", 0, 1);
	g_n_load = (int) vf_int("load_errors", 0, 2);
	g_n_test = (int) vf_int("test_errors", 0, 1);
	ip->SetOutputFileOn(m & 1); ip->SetErrorFileOn(m & 2); ip->SetLogFileOn(m & 4);
	int other = getsw(ip) & ~7;
	int rc = entry == 0 ? ip->LoadDatabase("db.dat") : ip->LoadDatabaseString("SOLUTION_MASTER_SPECIES\n");
	vf_reach("load.returned");
	vf_check("load.calls", g_calls == (entry == 0 ? 1 : 10) + (g_n_load == 0 ? 100 : 0));
	vf_check("load.switches_off_while_loading", (g_seen_switches & 7) == 0 && (g_n_load != 0 || (g_seen_switches >> 3) == 0));
	vf_check("load.switches_restored", (getsw(ip) & 7) == m);
	vf_check("load.other_switches_untouched", (getsw(ip) & ~7) == other);
	vf_check("load.rc", rc == (g_n_load ? g_n_load : g_n_test));
}
