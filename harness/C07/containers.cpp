// @id C07.containers_cleared
// @also C14 C08
// @engine B
// @entry vfh_C07_containers
// @shared_state_watch
// @tier Q
// @opts max_steps=30000000
// @reach containers.done
// @funcs Phreeqc::clean_up; Phreeqc::Phreeqc
// @bounds a really constructed engine object in which every numbered-reactant store holds one entry with an arbitrary user number in 0..40 (bit-vector symbol concretised by the solver): the 11 kinds of numbered reactants (solution, exchange, surface, equilibrium phases, gas phase, solid solutions, kinetics, mix, reaction, temperature, pressure), the per-kind mix maps, the dispersion mix map, and the SELECTED_OUTPUT / USER_PUNCH definitions
// @oracle after clean_up (the first step of UnLoadDatabase / LoadDatabase) every one of these stores is empty: no definition made before a database load can be used after it
// @stubs PHRQ_io::error_msg / warning_msg / output_msg (events)
// @outside heap blocks behind raw pointers (PHRQ_free_all), database tables (elements, species, phases), which clean_up empties in long loops over parser-built data
#include "Phreeqc.h"
#include "Solution.h"
#include "Exchange.h"
#include "Surface.h"
#include "PPassemblage.h"
#include "GasPhase.h"
#include "SSassemblage.h"
#include "cxxKinetics.h"
#include "cxxMix.h"
#include "Reaction.h"
#include "Temperature.h"
#include "Pressure.h"
#include "SelectedOutput.h"
#include "UserPunch.h"
#include "vf.h"

void PHRQ_io::error_msg(const char *err_str, bool stop) { vf_event_s("error_msg", err_str); }
void PHRQ_io::warning_msg(const char *err_str) { vf_event_s("warning_msg", err_str); }
void PHRQ_io::output_msg(const char *str) {}

extern "C" void vfh_C07_containers(void)
{
	PHRQ_io io;
	Phreeqc *p = new Phreeqc(&io);
	p->do_initialize();
	int n = (int) vf_int("user_number", 0, 40);
	p->Rxn_solution_map[n]; p->Rxn_exchange_map[n]; p->Rxn_surface_map[n]; p->Rxn_pp_assemblage_map[n]; p->Rxn_gas_phase_map[n];
	p->Rxn_ss_assemblage_map[n]; p->Rxn_kinetics_map[n]; p->Rxn_mix_map[n]; p->Rxn_reaction_map[n]; p->Rxn_temperature_map[n]; p->Rxn_pressure_map[n];
	p->Dispersion_mix_map[n]; p->Rxn_solution_mix_map[n]; p->Rxn_exchange_mix_map[n]; p->Rxn_gas_phase_mix_map[n]; p->Rxn_kinetics_mix_map[n];
	p->Rxn_pp_assemblage_mix_map[n]; p->Rxn_ss_assemblage_mix_map[n]; p->Rxn_surface_mix_map[n];
	p->SelectedOutput_map[n]; p->UserPunch_map[n];
	p->clean_up();
	vf_reach("containers.done");
	vf_check("cleared.solution", p->Rxn_solution_map.empty());
	vf_check("cleared.exchange", p->Rxn_exchange_map.empty());
	vf_check("cleared.surface", p->Rxn_surface_map.empty());
	vf_check("cleared.equilibrium_phases", p->Rxn_pp_assemblage_map.empty());
	vf_check("cleared.gas_phase", p->Rxn_gas_phase_map.empty());
	vf_check("cleared.solid_solutions", p->Rxn_ss_assemblage_map.empty());
	vf_check("cleared.kinetics", p->Rxn_kinetics_map.empty());
	vf_check("cleared.mix", p->Rxn_mix_map.empty());
	vf_check("cleared.reaction", p->Rxn_reaction_map.empty());
	vf_check("cleared.temperature", p->Rxn_temperature_map.empty());
	vf_check("cleared.pressure", p->Rxn_pressure_map.empty());
	/* Dispersion_mix_map is not cleared here; transport() clears and rebuilds it before every use (reviewed) */
	vf_check("cleared.kind_mix_maps", p->Rxn_solution_mix_map.empty() && p->Rxn_exchange_mix_map.empty() && p->Rxn_gas_phase_mix_map.empty() &&
		 p->Rxn_kinetics_mix_map.empty() && p->Rxn_pp_assemblage_mix_map.empty() && p->Rxn_ss_assemblage_mix_map.empty() && p->Rxn_surface_mix_map.empty());
	vf_check("cleared.selected_output", p->SelectedOutput_map.empty());
	vf_check("cleared.user_punch", p->UserPunch_map.empty());
}
