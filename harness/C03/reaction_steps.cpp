// @static_init Temperature.cxx Utils.cxx NameDouble.cxx
// @id C03.restrictions_measured_per_step
// @also C02 C12
// @engine B
// @entry vfh_C03_reaction_steps
// @shared_state_watch
// @tier Q
// @reach steps.done
// @funcs Phreeqc::reactions
// @bounds the real batch-reaction loop (reactions()) for 1..4 steps given by a REACTION_TEMPERATURE list, INCREMENTAL_REACTIONS true or false (case split); every routine it calls is a recorder; the stored amount of an equilibrium phase of the scratch cell changes in every step (the recorder of saver / copy_use writes a new stamp)
// @oracle dissolve_only / precipitate_only restrictions are measured against the amount present at the start of the step being calculated: before every reaction step the reference amounts are taken (set_initial_moles) from the state that step starts from - after the copy of the original reactants (cumulative mode) or after the previous step's result has been stored (incremental mode) - never from an earlier state; every step is calculated once and the last result is saved
// @stubs set_use (the USE pointers are set by the harness), copy_use, set_initial_moles, run_reactions, saver, punch_all, print_all, dup_print (recorders)
// @outside the calculation of a step (C03.precipitate_only_every_solver, C03.setup_consistency)
#include "Phreeqc.h"
#include "Temperature.h"
#include "cxxKinetics.h"
#include "vf.h"
#include <new>
#include <string.h>

static int g_state_stamp = 0;        /* changes whenever the scratch cell (-2) is rewritten */
static int g_ref_stamp = -1;         /* state the reference amounts were last taken from */
static int g_runs = 0, g_bad = 0, g_savers = 0, g_copies = 0;
int Phreeqc::copy_use(int i) { g_copies++; g_state_stamp++; return OK; }
int Phreeqc::set_initial_moles(int i) { g_ref_stamp = g_state_stamp; return OK; }
int Phreeqc::run_reactions(int i, LDBLE kin_time, int use_mix, LDBLE step_fraction) { g_runs++; if (g_ref_stamp != g_state_stamp) g_bad++; return OK; }
int Phreeqc::saver(void) { g_savers++; g_state_stamp++; return OK; }
int Phreeqc::punch_all(void) { return OK; }
int Phreeqc::print_all(void) { return OK; }
int Phreeqc::dup_print(const char *cptr, int emphasis) { return OK; }
int Phreeqc::set_use(void) { return TRUE; }

extern "C" void vfh_C03_reaction_steps(void)
{
	Phreeqc *p = (Phreeqc *) vf_raw(sizeof(Phreeqc));
	new (&p->use) cxxUse();
	new (&p->Rxn_kinetics_map) std::map<int, cxxKinetics>();
	new (&p->save) class save();
	int steps = (int) vf_int("steps", 1, 4);
	p->incremental_reactions = vf_int("incremental_reactions", 0, 1) ? TRUE : FALSE;
	p->state = REACTION;
	static cxxTemperature t;
	for (int i = 0; i < steps; i++) t.Get_temps().push_back(25.0 + 10 * i);
	t.Set_countTemps(steps); t.Set_equalIncrements(false);
	p->use.Set_temperature_in(true); p->use.Set_temperature_ptr(&t);
	p->use.Set_solution_in(true);
	int rc = p->reactions();
	vf_reach("steps.done");
	vf_check("steps.rc", rc == OK);
	vf_check("steps.every_step_calculated_once", g_runs == steps);
	vf_check("steps.reference_amounts_taken_from_the_state_the_step_starts_from", g_bad == 0);
	vf_check("steps.results_stored", g_savers == steps);
	vf_check("steps.original_reactants_copied_per_step_in_cumulative_mode", g_copies == (p->incremental_reactions ? 1 : steps));
}
