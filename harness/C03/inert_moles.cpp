// @static_init PPassemblageComp.cxx PPassemblage.cxx NameDouble.cxx Utils.cxx
// @id C03.precipitate_only_every_solver
// @engine B
// @entry vfh_C03_inert
// @shared_state_watch
// @tier Q
// @reach model.returned
// @funcs Phreeqc::model; Phreeqc::set_inert_moles; Phreeqc::unset_inert_moles
// @bounds the dispatcher in front of the three equation solvers (model(): ion-association, Pitzer, SIT - case split) for a system with three equilibrium phases: one precipitate_only, one dissolve_only, one unrestricted; amounts present before the calculation symbolic in [0,10] mol; the solver itself is replaced by a recorder that notes what it is given and then lets every phase grow by a symbolic amount in [0,1] mol; the ion-association branch runs its real iteration loop with the numerical routines replaced (converged at once)
// @oracle precipitate_only is respected by every solver: whichever solver runs, the stock of a precipitate_only phase is hidden from it (it is given 0 mol to dissolve, the stock is set aside), the other phases are given their full amount, and when the calculation returns every phase holds stock + growth and nothing is left set aside
// @stubs model_pz, model_sit (recorders); residuals, mb_gases, mb_ss, check_residuals, status, log_msg, set_forward_output_to_log, error_msg, warning_msg, sformatf
// @outside the solvers themselves (C03.setup_consistency covers the optimisation rows), dissolve_only handling inside ineq
#include "Phreeqc.h"
#include "PPassemblage.h"
#include "vf.h"
#include <new>
#include <string.h>

static int g_solver_runs = 0, g_errs = 0;
static double g_seen[3], g_aside[3], g_growth[3];
static void solver(Phreeqc *p)
{
	g_solver_runs++;
	for (int j = 0; j < 3; j++) { g_seen[j] = p->x[j]->moles; g_aside[j] = p->x[j]->inert_moles; p->x[j]->moles += g_growth[j]; }
}
int Phreeqc::model_pz(void) { solver(this); return OK; }
int Phreeqc::model_sit(void) { solver(this); return OK; }
int Phreeqc::residuals(void) { solver(this); return CONVERGED; }
int Phreeqc::mb_gases(void) { return OK; }
int Phreeqc::mb_ss(void) { return OK; }
int Phreeqc::check_residuals(void) { return OK; }
int Phreeqc::status(int count, const char *str, bool kinetics) { return OK; }
void Phreeqc::log_msg(const char *str) { }
void Phreeqc::set_forward_output_to_log(int value) { }
void Phreeqc::error_msg(const char *err_str, bool stop) { g_errs++; vf_event_s("error_msg", err_str); }
int Phreeqc::warning_msg(const char *err_str) { return OK; }
char *Phreeqc::sformatf(const char *format, ...) { static char b[4] = "msg"; return b; }

extern "C" void vfh_C03_inert(void)
{
	Phreeqc *p = (Phreeqc *) vf_raw(sizeof(Phreeqc));
	new (&p->x) std::vector<class unknown *>();
	new (&p->use) cxxUse();
	new (&p->llnl_temp) std::vector<LDBLE>();
	static cxxPPassemblage pp;
	static class unknown u[4];
	static const char *NM[3] = {"Halite", "Gypsum", "Calcite"};
	static const char *MN[3] = {"stock_precipitate_only", "stock_dissolve_only", "stock_unrestricted"};
	static const char *GN[3] = {"growth_precipitate_only", "growth_dissolve_only", "growth_unrestricted"};
	double stock[3];
	for (int j = 0; j < 3; j++)
	{
		cxxPPassemblageComp c; c.Set_name(NM[j]);
		c.Set_precipitate_only(j == 0); c.Set_dissolve_only(j == 1);
		pp.Get_pp_assemblage_comps()[NM[j]] = c;
	}
	for (int j = 0; j < 3; j++)
	{
		stock[j] = vf_double(MN[j], 0, 10); g_growth[j] = vf_double(GN[j], 0, 1);
		u[j].type = PP; u[j].moles = stock[j]; u[j].inert_moles = 0;
		u[j].pp_assemblage_comp_name = NM[j];
		u[j].pp_assemblage_comp_ptr = &pp.Get_pp_assemblage_comps()[NM[j]];
		p->x.push_back(&u[j]);
	}
	u[3].type = MB; u[3].moles = 1.0; p->x.push_back(&u[3]);
	p->count_unknowns = 4;
	p->use.Set_pp_assemblage_ptr(&pp);
	int which = (int) vf_int("solver", 0, 2);      /* 0 ion association, 1 Pitzer, 2 SIT */
	p->pitzer_model = which == 1 ? TRUE : FALSE; p->sit_model = which == 2 ? TRUE : FALSE;
	p->itmax = 100; p->debug_model = FALSE; p->pr.logfile = FALSE; p->mass_water_switch = TRUE; p->delay_mass_water = FALSE;
	p->state = REACTION;
	int rc = p->model();
	vf_reach("model.returned");
	vf_check("model.rc", rc == OK && g_errs == 0 && g_solver_runs == 1);
	vf_check("inert.precipitate_only_stock_hidden_from_solver", g_seen[0] == 0.0 && g_aside[0] == stock[0]);
	vf_check("inert.other_phases_given_in_full", g_seen[1] == stock[1] && g_seen[2] == stock[2] && g_aside[1] == 0.0 && g_aside[2] == 0.0);
	for (int j = 0; j < 3; j++)
	{
		vf_close("inert.stock_plus_growth_after_the_calculation", u[j].moles, stock[j] + g_growth[j], 1e-12, 0);
		vf_check("inert.nothing_left_set_aside", u[j].inert_moles == 0.0);
	}
}
