// @static_init Surface.cxx SurfaceComp.cxx SurfaceCharge.cxx NameDouble.cxx Utils.cxx
// @id C03.surface_sites_from_density
// @also C20
// @engine B
// @entry vfh_C03_surface_sites
// @shared_state_watch
// @tier Q
// @reach sites.done
// @funcs Phreeqc::tidy_surface
// @bounds the real tidy_surface on one newly defined surface with two site types (weak and strong) on one sorbent; sites given in moles or, with -sites_units density, in sites per nm2 (case split); site density in [0.01,10], specific area in [1,1000] m2/g, sorbent mass in [0.01,100] g - all symbolic
// @oracle surfaces keep their site totals: the number of sites the calculation works with is the defined one - with -sites_units density it is density x 1e18 nm2/m2 x specific area x mass of sorbent / Avogadro's number for every site type, and the component's element totals carry the same amount; sites given in moles are left as written
// @stubs Phreeqc::element_store (surface master elements), get_elts_in_species (formula of the two site species), error_msg, sformatf
// @outside reading of the block (C15.surface_line_order), related-phase and kinetic surfaces
#include "Phreeqc.h"
#include "Surface.h"
#include "vf.h"
#include <new>
#include <string.h>

static int g_errs = 0;
void Phreeqc::error_msg(const char *err_str, bool stop) { g_errs++; vf_event_s("error_msg", err_str); }
char *Phreeqc::sformatf(const char *format, ...) { static char b[4] = "msg"; return b; }
static class element g_el[4]; static class master g_ms[4];
static const char *ELN[4] = {"Hfo_w", "Hfo_s", "O", "H"};
class element *Phreeqc::element_store(const char *name)
{
	for (int i = 0; i < 4; i++) if (!strcmp(name, ELN[i])) return &g_el[i];
	vf_fail("element_store stub: unknown element"); return 0;
}
int Phreeqc::get_elts_in_species(const char **t_ptr, LDBLE coef)
{
	int site = !strncmp(*t_ptr, "Hfo_w", 5) ? 0 : 1;
	static const int E[3] = {-1, 2, 3};
	for (int k = 0; k < 3; k++)
	{
		if (count_elts + 1 >= elt_list.size()) elt_list.resize(count_elts + 2);
		elt_list[count_elts].elt = &g_el[k == 0 ? site : E[k]];
		elt_list[count_elts].coef = coef;
		count_elts++;
	}
	return OK;
}

extern "C" void vfh_C03_surface_sites(void)
{
	Phreeqc *p = (Phreeqc *) vf_raw(sizeof(Phreeqc));
	new (&p->Rxn_surface_map) std::map<int, cxxSurface>();
	new (&p->Rxn_new_surface) std::set<int>();
	new (&p->elt_list) std::vector<class elt_list>();
	for (int i = 0; i < 4; i++) { g_el[i].name = ELN[i]; g_el[i].master = &g_ms[i]; g_ms[i].elt = &g_el[i]; g_ms[i].type = i < 2 ? SURF : AQ; }
	int density = (int) vf_int("sites_units_density", 0, 1);
	double dw = vf_double("weak_sites", 0.01, 10), ds = vf_double("strong_sites", 0.01, 10);
	double area = vf_double("specific_area_m2_per_g", 1, 1000), grams = vf_double("sorbent_mass_g", 0.01, 100);
	cxxSurface sf; sf.Set_n_user(1); sf.Set_n_user_end(1); sf.Set_new_def(true); sf.Set_tidied(false);
	sf.Set_type(cxxSurface::DDL); sf.Set_dl_type(cxxSurface::NO_DL);
	sf.Set_sites_units(density ? cxxSurface::SITES_DENSITY : cxxSurface::SITES_ABSOLUTE);
	cxxSurfaceCharge ch; ch.Set_name("Hfo"); ch.Set_specific_area(area); ch.Set_grams(grams);
	sf.Get_surface_charges().push_back(ch);
	static const char *F[2] = {"Hfo_wOH", "Hfo_sOH"};
	for (int i = 0; i < 2; i++)
	{
		cxxSurfaceComp c; c.Set_formula(F[i]); c.Set_charge_name("Hfo"); c.Set_moles(i == 0 ? dw : ds);
		cxxNameDouble nd; nd[ELN[i]] = i == 0 ? dw : ds; nd["O"] = i == 0 ? dw : ds; nd["H"] = i == 0 ? dw : ds; c.Set_totals(nd);
		sf.Get_surface_comps().push_back(c);
	}
	p->Rxn_surface_map[1] = sf; p->Rxn_new_surface.insert(1);
	int rc = p->tidy_surface();
	vf_reach("sites.done");
	vf_check("sites.rc", rc == OK && g_errs == 0 && p->input_error == 0);
	cxxSurface &t = p->Rxn_surface_map[1];
	vf_check("sites.both_site_types_kept", t.Get_surface_comps().size() == 2);
	const double N_AVO = 6.02252e23;       /* the engine's Avogadro constant (global_structures.h) */
	for (size_t i = 0; i < t.Get_surface_comps().size(); i++)
	{
		cxxSurfaceComp &c = t.Get_surface_comps()[i];
		bool weak = c.Get_formula() == "Hfo_wOH";
		double given = weak ? dw : ds;
		double want = density ? given * 1.0e18 * area * grams / N_AVO : given;
		vf_close("sites.moles_of_sites_as_defined", c.Get_moles(), want, 1e-12, 0);
		vf_close("sites.element_total_carries_the_same_amount", c.Get_totals()[weak ? "Hfo_w" : "Hfo_s"], want, 1e-12, 0);
		vf_check("sites.master_element_found", c.Get_master_element() == (weak ? "Hfo_w" : "Hfo_s"));
	}
}
