// @static_init PPassemblage.cxx PPassemblageComp.cxx SSassemblage.cxx SS.cxx SScomp.cxx NameDouble.cxx Utils.cxx Solution.cxx
// @id C03.setup_consistency
// @engine B
// @entry vfh_C03_setup_consistency
// @shared_state_watch
// @tier Q
// @reach setup.compared
// @funcs Phreeqc::quick_setup; Phreeqc::setup_pure_phases; Phreeqc::setup_ss_assemblage
// @bounds an EQUILIBRIUM_PHASES assemblage of 2 minerals and a solid solution of 2 components; every amount, target SI, delta, and the per-component solid-solution workspace values symbolic in [-1e3,1e3] (moles > 0); dissolve_only flags by case split; history: the model is first set up for state E1 of the assemblages, the assemblages then change to state E2 (as a following reaction calculation with the same model does) and the same-model shortcut quick_setup is taken
// @oracle the unknowns handed to the solver after the shortcut are exactly those a fresh full set-up (setup_pure_phases / setup_ss_assemblage) derives from E2: moles, target SI, delta, dissolve_only restriction for each mineral; moles, ln moles and the phase's dn, dnb, dnc, log10 mole fraction and log10 lambda for each solid-solution component
// @stubs Phreeqc::phase_bsearch (4-phase table), string_hsave (identity), adjust_setup_pure_phases (no gases), log -> uninterpreted
// @outside the solve; gas, surface and exchange parts of quick_setup; check_same_model's decision to take the shortcut
#include "Phreeqc.h"
#include "PPassemblage.h"
#include "SSassemblage.h"
#include "Solution.h"
#include "vf.h"
#include <new>
#include <string.h>

static class phase g_ph[2][4]; static Phreeqc *g_p[2];
static const char *NAMES[4] = {"Calcite", "Dolomite", "Aragonite", "Strontianite"};
static int inst(const Phreeqc *p) { return p == g_p[1] ? 1 : 0; }
class phase *Phreeqc::phase_bsearch(const char *cptr, int *j, int print)
{
	for (int k = 0; k < 4; k++) if (!strcmp(cptr, NAMES[k])) { *j = k; return &g_ph[inst(this)][k]; }
	return 0;
}
const char *Phreeqc::string_hsave(const char *str) { for (int k = 0; k < 4; k++) if (!strcmp(str, NAMES[k])) return NAMES[k]; return "CaSrCO3"; }
int Phreeqc::adjust_setup_pure_phases(void) { return OK; }

struct St { double m[2], si[2], delta[2]; int donly[2]; double sm[2], dn[2], dnb[2], dnc[2], lfx[2], ll[2]; };
static St sym(const char *tag)
{
	St s;
	for (int k = 0; k < 2; k++)
	{
		s.m[k] = vf_double("pp_moles", 0.0, 1e3); s.si[k] = vf_double("pp_si", -10, 10); s.delta[k] = vf_double("pp_delta", -1e3, 1e3);
		s.donly[k] = (int) vf_int("dissolve_only", 0, 1);
		s.sm[k] = vf_double("ss_moles", 1e-6, 1e3); s.dn[k] = vf_double("dn", -1e3, 1e3); s.dnb[k] = vf_double("dnb", -1e3, 1e3);
		s.dnc[k] = vf_double("dnc", -1e3, 1e3); s.lfx[k] = vf_double("log10_fraction_x", -10, 0); s.ll[k] = vf_double("log10_lambda", -5, 5);
	}
	return s;
}
static void apply(cxxPPassemblage &pp, cxxSSassemblage &ss, const St &s)
{
	for (int k = 0; k < 2; k++)
	{
		cxxPPassemblageComp *c = pp.Find(NAMES[k]);
		c->Set_moles(s.m[k]); c->Set_si(s.si[k]); c->Set_si_org(s.si[k]); c->Set_delta(s.delta[k]); c->Set_dissolve_only(s.donly[k] != 0);
		cxxSScomp &sc = ss.Get_SSs().begin()->second.Get_ss_comps()[k];
		sc.Set_moles(s.sm[k]); sc.Set_dn(s.dn[k]); sc.Set_dnb(s.dnb[k]); sc.Set_dnc(s.dnc[k]); sc.Set_log10_fraction_x(s.lfx[k]); sc.Set_log10_lambda(s.ll[k]);
	}
}
struct World { Phreeqc *p; cxxPPassemblage pp; cxxSSassemblage ss; cxxSolution sol; unknown ux[6]; unknown ph; };
static void build(World &w, int k)
{
	Phreeqc *p = w.p = g_p[k] = (Phreeqc *) vf_raw(sizeof(Phreeqc));
	new (&p->x) std::vector<class unknown *>();
	new (&p->master) std::vector<class master *>();
	for (int i = 0; i < 6; i++) p->x.push_back(&w.ux[i]);
	p->count_unknowns = 0;
	for (int i = 0; i < 2; i++) { cxxPPassemblageComp c; c.Set_name(NAMES[i]); w.pp.Get_pp_assemblage_comps()[NAMES[i]] = c; }
	cxxSS s; s.Set_name("CaSrCO3");
	for (int i = 0; i < 2; i++) { cxxSScomp c; c.Set_name(NAMES[2 + i]); s.Get_ss_comps().push_back(c); }
	w.ss.Get_SSs()["CaSrCO3"] = s;
	p->use.pp_assemblage_ptr = &w.pp; p->use.ss_assemblage_ptr = &w.ss; p->use.solution_ptr = &w.sol;
	p->ph_unknown = &w.ph;
}

extern "C" void vfh_C03_setup_consistency(void)
{
	St e1 = sym("e1"), e2 = sym("e2");
	static World A, B;
	build(A, 0); build(B, 1);
	/* A: fresh full set-up from state E2 */
	apply(A.pp, A.ss, e2);
	A.p->setup_pure_phases(); A.p->setup_ss_assemblage();
	/* B: full set-up from E1, then the assemblages move to E2 and the same-model shortcut is used */
	apply(B.pp, B.ss, e1);
	B.p->setup_pure_phases(); B.p->setup_ss_assemblage();
	apply(B.pp, B.ss, e2);
	B.p->quick_setup();
	vf_reach("setup.compared");
	vf_check("setup.count", A.p->count_unknowns == 4 && B.p->count_unknowns == 4);
	for (int i = 0; i < 2; i++)
	{
		unknown *a = A.p->x[i], *b = B.p->x[i];
		vf_check("pp.type", a->type == PP && b->type == PP);
		vf_close("pp.moles", b->moles, a->moles, 0, 0); vf_close("pp.si", b->si, a->si, 0, 0); vf_close("pp.delta", b->delta, a->delta, 0, 0);
		vf_check("pp.dissolve_only", (b->dissolve_only != 0) == (a->dissolve_only != 0));
		vf_check("pp.comp_ptr", b->pp_assemblage_comp_ptr == (void *) B.pp.Find(NAMES[i]));
	}
	for (int i = 2; i < 4; i++)
	{
		unknown *a = A.p->x[i], *b = B.p->x[i];
		vf_check("ss.type", a->type == SS_MOLES && b->type == SS_MOLES);
		vf_close("ss.moles", b->moles, a->moles, 0, 0); vf_close("ss.ln_moles", b->ln_moles, a->ln_moles, 0, 0);
		vf_close("ss.dn", b->phase->dn, a->phase->dn, 0, 0); vf_close("ss.dnb", b->phase->dnb, a->phase->dnb, 0, 0);
		vf_close("ss.dnc", b->phase->dnc, a->phase->dnc, 0, 0);
		vf_close("ss.log10_fraction_x", b->phase->log10_fraction_x, a->phase->log10_fraction_x, 0, 0);
		vf_close("ss.log10_lambda", b->phase->log10_lambda, a->phase->log10_lambda, 0, 0);
	}
}
