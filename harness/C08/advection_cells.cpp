// @static_init ALL
// @id C08.advection_counts_validated
// @engine B
// @entry vfh_C08_advection_cells
// @shared_state_watch
// @tier Q
// @opts max_steps=60000000 budget_s=600
// @reach advection.read
// @funcs Phreeqc::read_advection
// @bounds an ADVECTION block read by the real input reader into a really constructed engine with -cells N and -shifts M, N and M over {-5, -1, 0, 1, 3} (case split), with and without a -punch_cells list, and one of -punch_frequency / -selected_output_frequency / -print_frequency with a value in {-2, 0, 1, 7}
// @oracle any input text makes the call return normally: the reader returns without an exception leaving it; a negative number of cells or shifts is reported as an input error; the print and punch frequencies, which the calculation uses as divisors, are positive after the block (a non-positive value is replaced with a warning) and a positive value is kept as written; otherwise the per-cell print and punch switches have one entry per cell (plus the inflow solution)
// @stubs PHRQ_io::error_msg / warning_msg / output_msg / echo_msg (events)
// @outside the advection calculation itself
#include "Phreeqc.h"
#include "vf.h"
#include <new>
#include <sstream>
#include <string.h>

static int g_err = 0;
void PHRQ_io::error_msg(const char *err_str, bool stop) { g_err++; vf_event_s("error_msg", err_str); }
void PHRQ_io::warning_msg(const char *err_str) { vf_event_s("warning_msg", err_str); }
void PHRQ_io::output_msg(const char *str) {}
void PHRQ_io::echo_msg(const char *str) {}

extern "C" void vfh_C08_advection_cells(void)
{
	PHRQ_io io;
	Phreeqc *p = new Phreeqc(&io);
	p->do_initialize();
	static const int V[5] = {-5, -1, 0, 1, 3};
	int n = V[vf_int("cells_case", 0, 4)], m = V[vf_int("shifts_case", 0, 4)], list = (int) vf_int("punch_cells_list", 0, 1);
	std::ostringstream os;
	os << " -cells " << n << "\n -shifts " << m << "\n";
	if (list) os << " -punch_cells 1\n";
	static const int F[4] = {-2, 0, 1, 7};
	static const char *FOPT[3] = {" -punch_frequency ", " -selected_output_frequency ", " -print_frequency "};
	int fk = (int) vf_int("frequency_case", 0, 3), fo = (int) vf_int("frequency_option", 0, 2);
	os << FOPT[fo] << F[fk] << "\n";
	os << "END\n";
	std::string text = os.str();
	std::istringstream is(text);
	io.push_istream(&is, false);
	bool threw = false; int rv = 0;
	try { rv = p->read_advection(); } catch (...) { threw = true; }
	io.pop_istream();
	vf_reach("advection.read");
	vf_check("advection.reader_returns_normally", !threw);
	if (threw) return;
	vf_check("advection.block_read", rv == KEYWORD || rv == EOF);
	/* the frequencies are divisors (advection_step % frequency) */
	vf_check("advection.frequencies_usable_as_divisors", p->punch_ad_modulus > 0 && p->print_ad_modulus > 0);
	if (F[fk] > 0) vf_check("advection.frequency_as_written", (fo == 2 ? p->print_ad_modulus : p->punch_ad_modulus) == F[fk]);
	if (n < 0 || m < 0) vf_check("advection.negative_count_reported", g_err > 0 && p->input_error > 0);
	else vf_check("advection.one_switch_per_cell", (int) p->advection_punch.size() == n + 1 && (int) p->advection_print.size() == n + 1);
}
