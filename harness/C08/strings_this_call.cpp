// @id C08.strings_describe_this_call
// @also C09
// @engine B
// @entry vfh_C08_strings_this_call
// @shared_state_watch
// @tier Q
// @reach strings.call_returned
// @funcs IPhreeqc::RunString; IPhreeqc::RunFile; IPhreeqc::RunAccumulated; IPhreeqc::open_output_files; IPhreeqc::check_database; IPhreeqc::update_errors
// @bounds two consecutive calls on one instance through the real entry points, real open_output_files / check_database / update_errors; the first call succeeds and leaves a warning and (by case split) an error text; the second call meets one of: nothing special, an output / error / log file that is switched on but cannot be opened, no database loaded, an input file that does not exist (RunFile), an engine error with stop; file model with unwritable paths
// @oracle the error and warning strings describe that call only: after the second call neither string contains anything the first call reported, whatever goes wrong in the second call and at whatever stage; the second call returns normally, and non-zero exactly when it recorded an error
// @stubs IPhreeqc::do_run (event: second call may report an engine error), close_output_files; Phreeqc engine (events); iostream / file model
// @outside the engine's own messages
#include "../common/engine_stubs.inc"
#include <string.h>

static int g_call = 0, g_engine_error = 0;
int IPhreeqc::close_output_files(void) { return 0; }
void IPhreeqc::do_run(const char *sz_routine, std::istream *pis, PFN_PRERUN_CALLBACK pfn_pre, PFN_POSTRUN_CALLBACK pfn_post, void *cookie)
{
	this->PhreeqcPtr->phrq_io->push_istream(pis, false);
	g_call++;
	if (g_call == 1) { this->AddWarning("first call: a warning\n"); return; }
	if (g_engine_error) { this->PhreeqcPtr->error_msg("second call: engine error", true); }
}
int Phreeqc::get_input_errors(void) { return input_error == 0 ? phrq_io->Get_io_error_count() : input_error; }
void Phreeqc::error_msg(const char *err_str, bool stop) { if (input_error <= 0) input_error = 1; phrq_io->error_msg(err_str, stop); }

extern "C" void vfh_C08_strings_this_call(void)
{
	new (&IPhreeqc::Instances) std::map<size_t, IPhreeqc*>();
	IPhreeqc::InstancesIndex = 0;
	IPhreeqc *ip = new IPhreeqc();
	ip->DatabaseLoaded = true;
	int entry = (int) vf_int("entry_point", 0, 2);
	int trouble = (int) vf_int("second_call_meets", 0, 6);    /* 0 nothing, 1..3 unopenable output/error/log file, 4 no database, 5 missing input file, 6 engine error */
	vf_assume(trouble != 5 || entry == 1);
	vf_file("in.pqi", "SOLUTION 1\nEND\n");
	int rc1 = ip->RunString("SOLUTION 1\nEND\n");
	vf_check("first_call.ok_with_warning", rc1 == 0 && strstr(ip->GetWarningString(), "first call") != 0);
	if (trouble == 1) { vf_unwritable("nodir/o.out"); ip->SetOutputFileName("nodir/o.out"); ip->SetOutputFileOn(true); }
	if (trouble == 2) { vf_unwritable("nodir/e.out"); ip->SetErrorFileName("nodir/e.out"); ip->SetErrorFileOn(true); }
	if (trouble == 3) { vf_unwritable("nodir/l.out"); ip->SetLogFileName("nodir/l.out"); ip->SetLogFileOn(true); }
	if (trouble == 4) ip->DatabaseLoaded = false;
	g_engine_error = trouble == 6;
	int rc = -99; bool threw = false;
	try
	{
		if (entry == 0) rc = ip->RunString("SOLUTION 2\nEND\n");
		else if (entry == 1) rc = ip->RunFile(trouble == 5 ? "missing.pqi" : "in.pqi");
		else { ip->AccumulateLine("SOLUTION 2"); rc = ip->RunAccumulated(); }
	}
	catch (...) { threw = true; }
	vf_reach("strings.call_returned");
	vf_check("second_call.returns_normally", !threw);
	vf_check("second_call.warning_string_has_nothing_of_the_first_call", strstr(ip->GetWarningString(), "first call") == 0);
	vf_check("second_call.error_string_has_nothing_of_the_first_call", strstr(ip->GetErrorString(), "first call") == 0);
	bool should_fail = trouble >= 4;
	if (!threw)
	{
		vf_check("second_call.nonzero_iff_error_recorded", (rc != 0) == (strlen(ip->GetErrorString()) > 0));
		vf_check("second_call.fails_when_it_cannot_run", !should_fail || rc != 0);
	}
}
