// @id C08.run_returns_normally
// @also C04
// @engine B
// @entry vfh_C08_run_returns
// @shared_state_watch
// @tier Q
// @reach run.left
// @funcs IPhreeqc::RunString; IPhreeqc::RunFile; IPhreeqc::RunAccumulated; IPhreeqc::LoadDatabaseString
// @bounds the four public entry points that hand text to the engine (real code), with the engine's work replaced by an event that either completes, reports n errors, stops with the engine's own stop exception (IPhreeqcStop, what error_msg(..., STOP) throws), throws a std::exception (std::length_error, what an over-long token raises; an exception class of the host derived from std::exception) or throws something else (an int); all case split
// @oracle bad input is reported as errors: the call returns normally - no exception leaves it - and the return value is non-zero exactly when the engine reported an error or stopped; after an exception the error string names the routine
// @stubs IPhreeqc::do_run / load_db_str internals via Phreeqc::read_database, open_output_files, close_output_files (events); Phreeqc engine (events)
// @outside what raises the exception inside the engine
#include "../common/engine_stubs.inc"
#include <string.h>
#include <stdexcept>
#include <new>

static int g_outcome = 0;
struct Boom : public std::exception { const char *what() const noexcept { return "boom"; } };
static void engine_event(Phreeqc *p)
{
	switch (g_outcome)
	{
	case 0: return;
	case 1: p->input_error = 2; return;
	case 2: p->input_error = 1; throw IPhreeqcStop();
	case 3: throw std::length_error("Buffer overrun in Utilities::strcpy_safe.");
	case 4: throw Boom();
	default: throw 42;
	}
}
void IPhreeqc::open_output_files(const char *sz_routine) { }
int IPhreeqc::close_output_files(void) { return 0; }
void IPhreeqc::do_run(const char *sz_routine, std::istream *pis, PFN_PRERUN_CALLBACK pfn_pre, PFN_POSTRUN_CALLBACK pfn_post, void *cookie)
{
	this->PhreeqcPtr->phrq_io->push_istream(pis, false);
	engine_event(this->PhreeqcPtr);
}
int Phreeqc::read_database(void) { engine_event(this); return OK; }
int Phreeqc::get_input_errors(void) { return input_error == 0 ? phrq_io->Get_io_error_count() : input_error; }
void Phreeqc::error_msg(const char *err_str, bool stop)
{
	if (input_error <= 0) input_error = 1;
	phrq_io->error_msg(err_str, stop);          /* the wrapper's reporter; throws IPhreeqcStop when stop */
}

extern "C" void vfh_C08_run_returns(void)
{
	new (&IPhreeqc::Instances) std::map<size_t, IPhreeqc*>();
	IPhreeqc::InstancesIndex = 0;
	IPhreeqc *ip = new IPhreeqc();
	ip->DatabaseLoaded = true;
	int entry = (int) vf_int("entry_point", 0, 3);
	g_outcome = (int) vf_int("engine_outcome", 0, 5);
	vf_file("in.pqi", "SOLUTION 1\nEND\n");
	int rc = -99; bool threw = false;
	try
	{
		switch (entry)
		{
		case 0: rc = ip->RunString("SOLUTION 1\nEND\n"); break;
		case 1: rc = ip->RunFile("in.pqi"); break;
		case 2: ip->AccumulateLine("SOLUTION 1"); ip->AccumulateLine("END"); rc = ip->RunAccumulated(); break;
		default: rc = ip->LoadDatabaseString("SOLUTION_MASTER_SPECIES\n"); break;
		}
	}
	catch (...) { threw = true; }
	vf_reach("run.left");
	vf_check("run.no_exception_leaves_the_call", !threw);
	if (!threw)
		vf_check("run.nonzero_iff_error", (rc != 0) == (g_outcome != 0));
	if (g_outcome >= 3)
		vf_check("run.error_string_names_the_routine", strstr(ip->GetErrorString(), entry == 0 ? "RunString" : entry == 1 ? "RunFile" : entry == 2 ? "RunAccumulated" : "LoadDatabaseString") != 0);
}
