// @static_init StorageBinList.cpp dumper.cpp Utils.cxx
// @id C08.requests_consumed
// @also C07
// @engine B
// @entry vfh_C08_requests
// @shared_state_watch
// @tier Q
// @reach requests.done
// @funcs Phreeqc::dump_entities; Phreeqc::delete_entities; PHRQ_io::dump_open
// @bounds a pending DUMP request (all entities or solution 1 only, append or not, printing of dumps on or off) whose dump file can or cannot be opened (case split), and a pending DELETE request for 1..2 kinds
// @oracle a request is consumed by the call that carries it out, whatever the outcome: after dump_entities returns or aborts with an error the DUMP request is no longer pending (a later, unrelated run does not retry it and fail again); an unopenable file is reported as an error; after delete_entities no DELETE item is pending
// @stubs Phreeqc::dump_ostream (event), error_msg (records, throws PhreeqcStop on STOP as the real one), sformatf; virtual file system of the iostream model
// @outside what is written to the dump
#include "Phreeqc.h"
#include "Solution.h"
#include "Exchange.h"
#include "vf.h"
#include <new>
#include <string.h>

static int g_errors = 0, g_dumped = 0;
void Phreeqc::dump_ostream(std::ostream &os) { g_dumped++; os << "SOLUTION_RAW 1\n"; }
void Phreeqc::error_msg(const char *err_str, bool stop) { g_errors++; vf_event_s("error_msg", err_str); if (stop) throw PhreeqcStop(); }
char *Phreeqc::sformatf(const char *format, ...) { static char b[4] = "msg"; return b; }

extern "C" void vfh_C08_requests(void)
{
	PHRQ_io io;
	Phreeqc *p = (Phreeqc *) vf_raw(sizeof(Phreeqc));
	p->phrq_io = &io;
	new (&p->dump_info) dumper(&io);
	new (&p->delete_info) StorageBinList(&io);
	int openable = (int) vf_int("dump_file_openable", 0, 1);
	int what = (int) vf_int("dump_selection", 0, 2);     /* 0: -all, 1: -solution 1, 2: request switched on but nothing selected */
	p->pr.dump = (int) vf_int("print_dump", 0, 1);
	p->dump_info.Set_append(vf_int("append", 0, 1) != 0);
	p->dump_info.Set_file_name("vf_dump.out");
	if (!openable) vf_unwritable("vf_dump.out");
	if (what == 0) p->dump_info.SetAll(true);
	if (what == 1) p->dump_info.Get_StorageBinList().Get_solution().Augment(1);
	p->dump_info.Set_on(true);
	int threw = 0;
	try { p->dump_entities(); } catch (const PhreeqcStop &) { threw = 1; }
	bool should_dump = p->pr.dump != FALSE && what != 2;
	vf_check("dump.request_consumed", p->pr.dump == FALSE || p->dump_info.Get_on() == false);
	vf_check("dump.written_iff_openable", g_dumped == ((should_dump && openable) ? 1 : 0));
	vf_check("dump.unopenable_is_an_error", (g_errors > 0 && threw) == (should_dump && !openable));

	int kinds = (int) vf_int("delete_kinds", 0, 2);
	if (kinds >= 1) p->delete_info.Get_solution().Augment(1);
	if (kinds >= 2) p->delete_info.Get_exchange().Augment(2);
	new (&p->Rxn_solution_map) std::map<int, cxxSolution>();
	new (&p->Rxn_exchange_map) std::map<int, cxxExchange>();
	p->delete_entities();
	vf_check("delete.request_consumed", !p->delete_info.Get_solution().Get_defined() && !p->delete_info.Get_exchange().Get_defined() &&
		 p->delete_info.Get_solution().Get_numbers().empty() && p->delete_info.Get_exchange().Get_numbers().empty());
	vf_reach("requests.done");
}
