// @static_init ALL
// @id C08.long_token_stays_in_its_buffer
// @engine B
// @entry vfh_C08_long_token
// @shared_state_watch
// @tier Q
// @opts max_steps=60000000 budget_s=600
// @reach token.read
// @funcs Phreeqc::read_print; Phreeqc::copy_token; Phreeqc::get_option; Phreeqc::get_true_false
// @bounds a PRINT block read by the real input reader into a really constructed engine whose -reset option is followed by one token of L characters, L over {1, 100, 254, 255, 256, 257, 300, 1000} (case split: below, at and above the 256-character token buffers of the keyword readers); every load and store is bounds-checked by the engine and a violation is confirmed under AddressSanitizer
// @oracle any byte sequence passed as input makes the call return normally: a token of any length is read without writing outside the reader's token buffer (no memory error), the block is read to its end and the option value is either understood or reported
// @stubs PHRQ_io::error_msg / warning_msg / output_msg / echo_msg (events)
// @outside the 140 other call sites of copy_token(char *, ...) in the keyword readers: they share the routine and, with two exceptions of larger size, the buffer size MAX_LENGTH
#include "Phreeqc.h"
#include "vf.h"
#include <new>
#include <sstream>
#include <string.h>

static int g_err = 0, g_warn = 0;
void PHRQ_io::error_msg(const char *err_str, bool stop) { g_err++; vf_event_s("error_msg", err_str); }
void PHRQ_io::warning_msg(const char *err_str) { g_warn++; vf_event_s("warning_msg", err_str); }
void PHRQ_io::output_msg(const char *str) {}
void PHRQ_io::echo_msg(const char *str) {}

extern "C" void vfh_C08_long_token(void)
{
	PHRQ_io io;
	Phreeqc *p = new Phreeqc(&io);
	p->do_initialize();
	static const int LEN[8] = {1, 100, 254, 255, 256, 257, 300, 1000};
	int L = LEN[vf_int("token_length_case", 0, 7)];
	std::string text = " -reset " + std::string((size_t) L, 't') + "\nEND\n";
	std::istringstream is(text);
	io.push_istream(&is, false);
	int rv = p->read_print();
	io.pop_istream();
	vf_reach("token.read");
	vf_check("token.block_read_to_its_end", rv == KEYWORD || rv == EOF);
	vf_check("token.value_understood_or_reported", p->pr.all == TRUE || g_err + g_warn > 0 || p->input_error > 0);
}
