// @id C08.database_without_essential_species
// @engine B
// @entry vfh_C08_essential_species
// @shared_state_watch
// @tier Q
// @reach essential.checked
// @funcs Phreeqc::tidy_model
// @bounds the check for essential species at the end of tidy_model (reached by every database load and every run) on a database in which each of H2O, H+ / H3O+, e-, H2(aq), O2(aq) is defined or missing, and, when defined, has its primary / secondary master species or not (case split over 7 independent conditions); activity model ion-association or Pitzer
// @oracle bad database text is reported as errors and never crashes: whatever is missing, tidy_model performs no invalid memory access; it reports at least one error exactly when something essential is missing and then stops with "Calculations terminating due to input errors"
// @stubs every tidy_* routine (recorders); error_msg (counted; a STOP message ends the routine, as the real one throws); element_store
// @outside the tidy routines themselves
#include "Phreeqc.h"
#include "cxxKinetics.h"
#include "vf.h"
#include <new>
#include <string.h>
#define VF_ERROR_STOPS
#include "../common/tidy_model_stubs.inc"

extern "C" void vfh_C08_essential_species(void)
{
	int h2o = (int) vf_int("H2O", 0, 3);          /* 0 missing, 1 no primary master, 2 no secondary master, 3 complete */
	int hplus = (int) vf_int("H_plus", 0, 3);     /* 0 neither H+ nor H3O+, 1 H+ without primary, 2 H+ without secondary, 3 complete */
	int em = (int) vf_int("electron", 0, 2);      /* 0 missing, 1 no primary master, 2 complete */
	int h2 = (int) vf_int("H2_aq", 0, 1), o2 = (int) vf_int("O2_aq", 0, 1), pitz = (int) vf_int("pitzer_model", 0, 1);
	Phreeqc *p = mk(1, pitz, 0);
	static class species sh2o, shp, sem, sh2, so2; static class master m;
	sh2o.type = H2O; sh2o.primary = h2o == 1 ? NULL : &m; sh2o.secondary = h2o == 2 ? NULL : &m;
	shp.primary = hplus == 1 ? NULL : &m; shp.secondary = hplus == 2 ? NULL : &m;
	sem.primary = em == 1 ? NULL : &m;
	p->s_h2o = h2o ? &sh2o : NULL; p->s_hplus = hplus ? &shp : NULL; p->s_h3oplus = NULL;
	p->s_eminus = em ? &sem : NULL; p->s_h2 = h2 ? &sh2 : NULL; p->s_o2 = o2 ? &so2 : NULL;
	g_mask = 0; g_errs = 0; g_n = 0; g_stopped = 0;
	try { p->tidy_model(); } catch (VfStop &) { }
	vf_reach("essential.checked");
	bool complete = h2o == 3 && hplus == 3 && em == 2 && (pitz || (h2 && o2));
	vf_check("essential.error_iff_something_missing", (g_errs > 0) == !complete);
	vf_check("essential.stops_iff_something_missing", (g_stopped > 0) == !complete);
}
