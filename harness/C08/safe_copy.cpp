// @static_init Utils.cxx
// @id C08.safe_copy_reports_overflow
// @engine B
// @entry vfh_C08_safe_copy
// @shared_state_watch
// @tier Q
// @reach safe_copy.done
// @funcs Utilities::strcpy_safe; Utilities::strcat_safe
// @bounds the bounded string helpers behind the engine's 256-character work buffers (127 call sites); destination capacity 8; source of length 0..12 (case split); for the concatenation a destination already holding 0..7 characters; NULL source or destination (case split)
// @oracle an over-long input token is reported, never fatal: when everything fits the text is copied / appended exactly, NUL terminated, nothing beyond the capacity is written and the new length is returned; otherwise the destination is left unchanged and a C++ exception derived from std::exception is thrown - which the Run* / LoadDatabase* handlers turn into an error message - and in no case is the process terminated (no rethrow without an exception in flight)
// @stubs none
// @outside the callers
#include "Utils.h"
#include "vf.h"
#include <string.h>
#include <exception>

extern "C" void vfh_C08_safe_copy(void)
{
	int op = (int) vf_int("operation", 0, 1);              /* 0 copy, 1 concatenate */
	int n = (int) vf_int("source_length", 0, 12), have = op ? (int) vf_int("already_in_destination", 0, 7) : 0;
	int nul = (int) vf_int("null_argument", 0, 2);         /* 0 none, 1 source, 2 destination */
	char src[16], buf[12], before[12];
	for (int i = 0; i < n; i++) src[i] = (char) ('A' + i);
	src[n] = 0;
	memset(buf, '#', sizeof buf);
	for (int i = 0; i < have; i++) buf[i] = 'a' + i;
	if (op) buf[have] = 0;
	memcpy(before, buf, sizeof buf);
	bool threw_std = false, threw_other = false; size_t ret = 999;
	try
	{
		ret = op ? Utilities::strcat_safe(nul == 2 ? (char *) 0 : buf, 8, nul == 1 ? (const char *) 0 : src)
		         : Utilities::strcpy_safe(nul == 2 ? (char *) 0 : buf, 8, nul == 1 ? (const char *) 0 : src);
	}
	catch (std::exception &) { threw_std = true; }
	catch (...) { threw_other = true; }
	vf_reach("safe_copy.done");
	bool fits = nul == 0 && have + n + 1 <= 8;
	vf_check("safe_copy.throws_a_std_exception_iff_it_does_not_fit", threw_std == !fits && !threw_other);
	if (fits)
	{
		vf_check("safe_copy.returns_new_length", (int) ret == have + n);
		vf_check("safe_copy.text", memcmp(buf + have, src, (size_t) n + 1) == 0 && memcmp(buf, before, (size_t) have) == 0);
	}
	else
		vf_check("safe_copy.destination_unchanged_on_error", memcmp(buf, before, 8) == 0);
	for (int i = 8; i < 12; i++) vf_check("safe_copy.nothing_beyond_capacity", buf[i] == '#');
}
