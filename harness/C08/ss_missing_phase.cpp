// @static_init SS.cxx SScomp.cxx SSassemblage.cxx NameDouble.cxx Utils.cxx
// @id C08.solid_solution_unknown_phase
// @engine B
// @entry vfh_C08_ss_missing_phase
// @shared_state_watch
// @tier Q
// @reach ss.returned
// @funcs Phreeqc::ss_calc_a0_a1
// @bounds a SOLID_SOLUTIONS definition with 0..3 components handed to the routine that derives the Guggenheim parameters (called by tidy_ss_assemblage for every non-ideal solid solution, also after "phase not found" has been reported); each of the first two component names is known to the database or not (case split: 4 x 4 definitions); parameters given as dimensionless a0, a1
// @oracle bad input is reported, never crashes: the routine returns ERROR with an error message whenever fewer than two components are defined or either of the first two phases is unknown, and never dereferences a missing phase (no invalid memory access on any path); with both phases known it returns OK without a message
// @stubs Phreeqc::phase_bsearch (two known phases), error_msg (counted), sformatf
// @outside the other parameter forms (activity coefficients, miscibility gap, ...), which are reached only after this guard
#include "Phreeqc.h"
#include "SS.h"
#include "vf.h"
#include <new>
#include <string.h>

static int g_errs = 0; static class phase g_ph[2];
void Phreeqc::error_msg(const char *err_str, bool stop) { g_errs++; }
char *Phreeqc::sformatf(const char *format, ...) { static char b[4] = "msg"; return b; }
class phase *Phreeqc::phase_bsearch(const char *cptr, int *j, int print)
{
	*j = -1;
	if (!strcmp(cptr, "Calcite")) { *j = 0; return &g_ph[0]; }
	if (!strcmp(cptr, "Strontianite")) { *j = 1; return &g_ph[1]; }
	return NULL;
}

extern "C" void vfh_C08_ss_missing_phase(void)
{
	Phreeqc *p = (Phreeqc *) vf_raw(sizeof(Phreeqc));
	p->LOG_10 = 2.302585092994046;
	int ncomp = (int) vf_int("components", 0, 3), known0 = (int) vf_int("first_phase_known", 0, 1), known1 = (int) vf_int("second_phase_known", 0, 1);
	for (int k = 0; k < 2; k++) { g_ph[k].name = k ? "Strontianite" : "Calcite"; g_ph[k].rxn.logk[logK_T0] = -8.5 - k; }
	cxxSS ss;
	ss.Set_name("CaSrCO3"); ss.Set_tk(298.15); ss.Set_input_case(cxxSS::SS_PARM_A0_A1);
	ss.Get_p().push_back(0.5); ss.Get_p().push_back(0.1); ss.Get_p().push_back(0); ss.Get_p().push_back(0);
	static const char *NAMES[3][2] = {{"NoSuchPhaseA", "Calcite"}, {"NoSuchPhaseB", "Strontianite"}, {"Third", "Third"}};
	for (int k = 0; k < ncomp; k++)
	{
		cxxSScomp c; c.Set_name(NAMES[k][k == 0 ? known0 : k == 1 ? known1 : 0]);
		ss.Get_ss_comps().push_back(c);
	}
	int rc = p->ss_calc_a0_a1(&ss);
	vf_reach("ss.returned");
	bool ok_input = ncomp >= 2 && known0 && known1;
	vf_check("ss.error_iff_bad_definition", (rc == ERROR) == !ok_input);
	vf_check("ss.message_iff_error", (g_errs > 0) == !ok_input && (p->input_error > 0) == !ok_input);
}
