// @id C13.padfstring
// @also C05
// @engine B
// @entry vfh_C13_padf
// @shared_state_watch
// @tier Q
// @reach padf.done
// @funcs padfstring
// @bounds source C string of length 0..6 whose bytes are arbitrary non-NUL values (bit-vector symbols); Fortran buffer length *len in -1..8 (case split); buffer embedded between two guard bytes
// @oracle the Fortran-binding string contract: the first min(len, strlen) bytes are the C string's, the rest up to len are blanks, no NUL is written, nothing outside dest[0..len) is written, *len reports strlen(src)
// @stubs none
// @outside the 70 *F wrappers that call it (C13.f_forward)
#include "vf.h"
#include <string.h>
void padfstring(char *dest, const char *src, int *len);

extern "C" void vfh_C13_padf(void)
{
	int n = (int) vf_int("strlen", 0, 6);
	int L = (int) vf_int("len", -1, 8);
	char src[8];
	for (int i = 0; i < n; i++) src[i] = (char) vf_int("byte", 1, 255);
	src[n] = 0;
	char buf[12];
	for (int i = 0; i < 12; i++) buf[i] = 0x7f;
	int len = L;
	padfstring(buf + 1, src, &len);
	vf_reach("padf.done");
	vf_check("padf.reports_strlen", len == n);
	vf_check("padf.guard_before", buf[0] == 0x7f);
	int LL = L < 0 ? 0 : L;
	for (int i = 0; i < LL; i++)
	{
		if (i < n) vf_check("padf.copies_prefix", buf[1 + i] == src[i]);
		else vf_check("padf.pads_with_blanks", buf[1 + i] == ' ');
	}
	for (int i = LL; i < 10; i++) vf_check("padf.writes_nothing_beyond_len", buf[1 + i] == 0x7f);
}
