// @id C13.value_accessors
// @also C05
// @engine B
// @entry vfh_C13_values
// @shared_state_watch
// @tier Q
// @opts max_steps=30000000
// @reach values.done
// @funcs GetSelectedOutputValue; GetSelectedOutputValue2; GetSelectedOutputValueF; IPhreeqc::GetSelectedOutputValue; IPhreeqc::GetSelectedOutputValue2; CSelectedOutput::Get; padfstring
// @bounds two live instances in the same state (two selected-output tables: user number 1 with headings + one data row holding a long, a double, a string and an empty cell, user number 5 with one string column; current user number in {1, 5, 9 = not defined} by case split); row and column are unconstrained 32-bit values (the Fortran column is the C column + 1 and therefore excludes INT_MAX); text buffer length in {0,1,4,7,30,60} by case split; cell contents concrete (number formatting is done by the C library)
// @oracle every way of reading a cell agrees with the C++ method on the twin instance: the C function returns the translated C++ result and the same VAR (type and payload); the second form returns the same type / number / text as the C++ second form and, relative to the VAR form, only reports a long as a double of the same value; neither writes past the length it was given; the Fortran form addresses the C column col-1 (1-based), returns the C result, type and number and delivers the text blank padded to the buffer length without writing past it; after a failed read both instances report the same error text
// @stubs Phreeqc engine (events)
// @outside rendering of symbolic numbers as text; allocation failure
#include "../common/engine_stubs.inc"
#include "IPhreeqc.h"
#include "IPhreeqc_interface_F.h"
#include "Var.h"

static void fill(IPhreeqc *u, int cur)
{
	CSelectedOutput *t = new CSelectedOutput();
	t->PushBackLong("sim", 7); t->PushBackDouble("pH", 6.5); t->PushBackString("note", "calcite"); t->PushBackEmpty("blank");
	t->EndRow();
	u->SelectedOutputMap[1] = t;
	CSelectedOutput *t5 = new CSelectedOutput();
	t5->PushBackString("state", "react");
	t5->EndRow();
	u->SelectedOutputMap[5] = t5;
	u->CurrentSelectedOutputUserNumber = cur;
}

static IPQ_RESULT translated(VRESULT v)
{
	switch (v)
	{
	case VR_OK: return IPQ_OK;
	case VR_OUTOFMEMORY: return IPQ_OUTOFMEMORY;
	case VR_BADVARTYPE: return IPQ_BADVARTYPE;
	case VR_INVALIDARG: return IPQ_INVALIDARG;
	case VR_INVALIDROW: return IPQ_INVALIDROW;
	case VR_INVALIDCOL: return IPQ_INVALIDCOL;
	default: return IPQ_BADINSTANCE;
	}
}

static bool same_var(const VAR &x, const VAR &y)
{
	if (x.type != y.type) return false;
	switch (x.type)
	{
	case TT_EMPTY: return true;
	case TT_ERROR: return x.vresult == y.vresult;
	case TT_LONG: return x.lVal == y.lVal;
	case TT_DOUBLE: return x.dVal == y.dVal;
	case TT_STRING: return x.sVal && y.sVal && !strcmp(x.sVal, y.sVal);
	}
	return false;
}

static bool same_prefix(const char *a, const char *b, int n)
{
	/* what strncpy(dst, src, n) leaves in dst[0..n) is determined by src */
	for (int i = 0; i < n; i++) { if (a[i] != b[i]) return false; }
	return true;
}

extern "C" void vfh_C13_values(void)
{
	new (&IPhreeqc::Instances) std::map<size_t, IPhreeqc*>();
	IPhreeqc::InstancesIndex = 3;
	int id = ::CreateIPhreeqc(), idb = ::CreateIPhreeqc();
	IPhreeqc *a = IPhreeqc::Instances[(size_t) id], *b = IPhreeqc::Instances[(size_t) idb];
	static const int CUR[3] = {1, 5, 9};
	int cur = CUR[vf_int("current_user_number_case", 0, 2)];
	fill(a, cur); fill(b, cur);
	int row = (int) vf_int("row", -2147483647L - 1, 2147483647L), col = (int) vf_int("col", -2147483647L - 1, 2147483646L);
	static const int LEN[6] = {0, 1, 4, 7, 30, 60};
	int len = LEN[vf_int("buffer_length_case", 0, 5)];
	int form = (int) vf_int("form", 0, 2);

	/* reference: the C++ VAR form on the twin */
	VAR vb; VarInit(&vb);
	VRESULT rb = b->GetSelectedOutputValue(row, col, &vb);
	vf_check("values.cpp_result_and_var_consistent", (rb != VR_OK || vb.type != TT_ERROR) && (vb.type != TT_ERROR || vb.vresult == rb));

	if (form == 0)
	{
		VAR va; VarInit(&va);
		IPQ_RESULT ra = ::GetSelectedOutputValue(id, row, col, &va);
		vf_check("values.c_result_translated", ra == translated(rb));
		vf_check("values.c_var_is_cpp_var", same_var(va, vb));
		vf_check("values.c_error_text_is_cpp_error_text", !strcmp(::GetErrorString(id), b->GetErrorString()));
		::VarClear(&va);
	}
	else
	{
		/* C++ second form on the twin with a large buffer: the reference text */
		char ref[80]; memset(ref, 0, sizeof ref);
		int vtb = -7; double dvb = -7.0;
		VRESULT rb2 = b->GetSelectedOutputValue2(row, col, &vtb, &dvb, ref, 79);
		vf_check("values.second_form_result", rb2 == rb);
		vf_check("values.second_form_type", vtb == (vb.type == TT_LONG ? (int) TT_DOUBLE : (int) vb.type));
		if (vb.type == TT_LONG) vf_check("values.second_form_long_as_double", dvb == (double) vb.lVal);
		if (vb.type == TT_DOUBLE) vf_check("values.second_form_double", dvb == vb.dVal);
		if (vb.type == TT_STRING) vf_check("values.second_form_text", !strcmp(ref, vb.sVal));
		if (vb.type == TT_EMPTY || vb.type == TT_ERROR) vf_check("values.second_form_untouched_without_value", dvb == -7.0 && ref[0] == 0);
		char buf[72]; memset(buf, '#', sizeof buf);
		int vta = -7; double dva = -7.0;
		if (form == 1)
		{
			IPQ_RESULT ra = ::GetSelectedOutputValue2(id, row, col, &vta, &dva, buf, (unsigned int) len);
			vf_check("values.c2_result_translated", ra == translated(rb));
			vf_check("values.c2_type_and_number", vta == vtb && dva == dvb);
			bool has_text = vb.type == TT_LONG || vb.type == TT_DOUBLE || vb.type == TT_STRING;
			int n = (int) strlen(ref); if (n > len) n = len;
			if (has_text) vf_check("values.c2_text", same_prefix(buf, ref, n));
			bool guard = true; for (int i = len; i < (int) sizeof buf; i++) guard = guard && buf[i] == '#';
			vf_check("values.c2_never_writes_past_length", guard);
			if (!has_text) vf_check("values.c2_buffer_untouched_without_value", buf[0] == '#' || len == 0);
		}
		else
		{
			int fcol = col + 1, frow = row, flen = len, fid = id;
			IPQ_RESULT ra = ::GetSelectedOutputValueF(&fid, &frow, &fcol, &vta, &dva, buf, &flen);
			vf_check("values.f_result_is_c_result", ra == translated(rb));
			vf_check("values.f_type_and_number", vta == vtb && dva == dvb);
			vf_check("values.f_arguments_unchanged", frow == row && fcol == col + 1 && fid == id);
			bool has_text = vb.type == TT_LONG || vb.type == TT_DOUBLE || vb.type == TT_STRING;
			if (has_text)
			{
				int n = (int) strlen(ref); bool ok = true;
				for (int i = 0; i < len; i++) ok = ok && buf[i] == (i < n ? ref[i] : ' ');
				vf_check("values.f_text_blank_padded", ok);
			}
			else vf_check("values.f_buffer_untouched_without_value", buf[0] == '#' || len == 0);
			bool guard = true; for (int i = len; i < (int) sizeof buf; i++) guard = guard && buf[i] == '#';
			vf_check("values.f_never_writes_past_length", guard);
		}
	}
	::VarClear(&vb);
	vf_reach("values.done");
}
