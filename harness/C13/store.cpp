// @id C13.defaults
// @also C06
// @engine B
// @entry vfh_C13_defaults
// @shared_state_watch
// @tier Q
// @reach defaults.constructed
// @funcs IPhreeqc::IPhreeqc; IPhreeqc::UnLoadDatabase; IPhreeqc::create_file_name; IPhreeqc::sel_file_name
// @bounds real IPhreeqc constructor run from an arbitrary registry counter InstancesIndex in [0,40] (case split); engine object replaced by events
// @oracle documented defaults (IPhreeqc.hpp): id = previous counter value, counter incremented; file names phreeqc.<id>.out/.err/.log, dump.<id>.out, selected_1.<id>.out; every file and string switch off except ErrorFileOn... (see checks); registry maps id -> this
// @stubs Phreeqc::Phreeqc, ~Phreeqc, clean_up, init, do_initialize (events); iostream model (vf/externs.py)
// @outside engine state behind the wrapper
#include "../common/engine_stubs.inc"
#include <string.h>
#include <stdio.h>

extern "C" void vfh_C13_defaults(void)
{
	long idx = vf_int("InstancesIndex", 0, 40);
	new (&IPhreeqc::Instances) std::map<size_t, IPhreeqc*>();   /* static initialisers are not run in a slice */
	IPhreeqc::InstancesIndex = (size_t) idx;
	IPhreeqc *ip = new IPhreeqc();
	vf_reach("defaults.constructed");
	vf_check("id.is_old_counter", ip->GetId() == (int) idx);
	vf_check("counter.incremented", IPhreeqc::InstancesIndex == (size_t) idx + 1);
	std::map<size_t, IPhreeqc*>::iterator it = IPhreeqc::Instances.find((size_t) idx);
	vf_check("registry.has_id", it != IPhreeqc::Instances.end() && it->second == ip);
	vf_check("registry.size", IPhreeqc::Instances.size() == 1);
	char want[64];
	snprintf(want, sizeof want, "phreeqc.%ld.out", idx);
	vf_check("default.OutputFileName", strcmp(ip->GetOutputFileName(), want) == 0);
	snprintf(want, sizeof want, "phreeqc.%ld.err", idx);
	vf_check("default.ErrorFileName", strcmp(ip->GetErrorFileName(), want) == 0);
	snprintf(want, sizeof want, "phreeqc.%ld.log", idx);
	vf_check("default.LogFileName", strcmp(ip->GetLogFileName(), want) == 0);
	snprintf(want, sizeof want, "dump.%ld.out", idx);
	vf_check("default.DumpFileName", strcmp(ip->GetDumpFileName(), want) == 0);
	snprintf(want, sizeof want, "selected_1.%ld.out", idx);
	vf_check("default.SelectedOutputFileName", strcmp(ip->GetSelectedOutputFileName(), want) == 0);
	vf_check("default.OutputFileOn", ip->GetOutputFileOn() == false);
	vf_check("default.OutputStringOn", ip->GetOutputStringOn() == false);
	vf_check("default.ErrorFileOn", ip->GetErrorFileOn() == false);
	vf_check("default.ErrorStringOn", ip->GetErrorStringOn() == true);
	vf_check("default.ErrorOn", ip->GetErrorOn() == true);
	vf_check("default.LogFileOn", ip->GetLogFileOn() == false);
	vf_check("default.LogStringOn", ip->GetLogStringOn() == false);
	vf_check("default.DumpFileOn", ip->GetDumpFileOn() == false);
	vf_check("default.DumpStringOn", ip->GetDumpStringOn() == false);
	vf_check("default.SelectedOutputFileOn", ip->GetSelectedOutputFileOn() == false);
	vf_check("default.SelectedOutputStringOn", ip->GetSelectedOutputStringOn() == false);
	vf_check("default.CurrentUserNumber", ip->GetCurrentSelectedOutputUserNumber() == 1);
	vf_check("default.no_accumulated", ip->GetAccumulatedLines().size() == 0);
	vf_check("default.dump_info_name", ip->PhreeqcPtr->dump_info.Get_file_name() == std::string(ip->GetDumpFileName()));
}
