// @id C13.defaults
// @also C06
// @engine B
// @entry vfh_C13_defaults
// @shared_state_watch
// @tier Q
// @reach defaults.constructed
// @funcs IPhreeqc::IPhreeqc; IPhreeqc::UnLoadDatabase; IPhreeqc::create_file_name; IPhreeqc::sel_file_name
// @bounds real IPhreeqc constructor run from an arbitrary registry counter InstancesIndex in [0,40] (case split); engine object replaced by events
// @oracle documented defaults (IPhreeqc.hpp): id = previous counter value, counter incremented; file names phreeqc.<id>.out/.err/.log, dump.<id>.out, selected_1.<id>.out; every file and string switch off except ErrorFileOn... (see checks); registry maps id -> this
// @stubs Phreeqc::Phreeqc, ~Phreeqc, clean_up, init, do_initialize (events); iostream model (vf/externs.py)
// @outside engine state behind the wrapper
// @id C13.selected_output_file_names
// @also C06 C09
// @engine B
// @entry vfh_C13_sel_file_names
// @shared_state_watch
// @tier Q
// @reach names.opened
// @funcs IPhreeqc::punch_open; IPhreeqc::sel_file_name
// @bounds the wrapper's punch_open, which the engine calls with its own suggestion "selected_output_<n>.sel" when a SELECTED_OUTPUT n is defined; user number n in {1,2,7}, instance id in 0..3 (registry counter), the definition has a -file option or not, the caller has set a name with SetSelectedOutputFileName or not, the file switch on or off (all case split); file model
// @oracle the file a definition writes to is: the -file name if the definition gives one, else the name the caller set, else the documented default selected_<n>.<id>.out, which embeds the instance id - so that co-existing instances never share a default file; the engine's own suggestion is never used; a file is opened only when the switch for that user number is on, and then under exactly that name
// @stubs Phreeqc engine (events); file model
// @outside what is written
#include "../common/engine_stubs.inc"
#include "SelectedOutput.h"
#include <string.h>
#include <stdio.h>

extern "C" void vfh_C13_defaults(void)
{
	long idx = vf_int("InstancesIndex", 0, 40);
	new (&IPhreeqc::Instances) std::map<size_t, IPhreeqc*>();   /* static initialisers are not run in a slice */
	IPhreeqc::InstancesIndex = (size_t) idx;
	IPhreeqc *ip = new IPhreeqc();
	vf_reach("defaults.constructed");
	vf_check("id.is_old_counter", ip->GetId() == (int) idx);
	vf_check("counter.incremented", IPhreeqc::InstancesIndex == (size_t) idx + 1);
	std::map<size_t, IPhreeqc*>::iterator it = IPhreeqc::Instances.find((size_t) idx);
	vf_check("registry.has_id", it != IPhreeqc::Instances.end() && it->second == ip);
	vf_check("registry.size", IPhreeqc::Instances.size() == 1);
	char want[64];
	snprintf(want, sizeof want, "phreeqc.%ld.out", idx);
	vf_check("default.OutputFileName", strcmp(ip->GetOutputFileName(), want) == 0);
	snprintf(want, sizeof want, "phreeqc.%ld.err", idx);
	vf_check("default.ErrorFileName", strcmp(ip->GetErrorFileName(), want) == 0);
	snprintf(want, sizeof want, "phreeqc.%ld.log", idx);
	vf_check("default.LogFileName", strcmp(ip->GetLogFileName(), want) == 0);
	snprintf(want, sizeof want, "dump.%ld.out", idx);
	vf_check("default.DumpFileName", strcmp(ip->GetDumpFileName(), want) == 0);
	snprintf(want, sizeof want, "selected_1.%ld.out", idx);
	vf_check("default.SelectedOutputFileName", strcmp(ip->GetSelectedOutputFileName(), want) == 0);
	vf_check("default.OutputFileOn", ip->GetOutputFileOn() == false);
	vf_check("default.OutputStringOn", ip->GetOutputStringOn() == false);
	vf_check("default.ErrorFileOn", ip->GetErrorFileOn() == false);
	vf_check("default.ErrorStringOn", ip->GetErrorStringOn() == true);
	vf_check("default.ErrorOn", ip->GetErrorOn() == true);
	vf_check("default.LogFileOn", ip->GetLogFileOn() == false);
	vf_check("default.LogStringOn", ip->GetLogStringOn() == false);
	vf_check("default.DumpFileOn", ip->GetDumpFileOn() == false);
	vf_check("default.DumpStringOn", ip->GetDumpStringOn() == false);
	vf_check("default.SelectedOutputFileOn", ip->GetSelectedOutputFileOn() == false);
	vf_check("default.SelectedOutputStringOn", ip->GetSelectedOutputStringOn() == false);
	vf_check("default.CurrentUserNumber", ip->GetCurrentSelectedOutputUserNumber() == 1);
	vf_check("default.no_accumulated", ip->GetAccumulatedLines().size() == 0);
	vf_check("default.dump_info_name", ip->PhreeqcPtr->dump_info.Get_file_name() == std::string(ip->GetDumpFileName()));
}

extern "C" void vfh_C13_sel_file_names(void)
{
	long idx = vf_int("InstancesIndex", 0, 3);
	new (&IPhreeqc::Instances) std::map<size_t, IPhreeqc*>();
	IPhreeqc::InstancesIndex = (size_t) idx;
	IPhreeqc *ip = new IPhreeqc();
	static const int UN[3] = {1, 2, 7};
	int n = UN[vf_int("user_number_case", 0, 2)];
	int has_file_option = (int) vf_int("definition_has_file_option", 0, 1), caller_set = (int) vf_int("caller_set_a_name", 0, 1), on = (int) vf_int("file_switch_on", 0, 1);
	SelectedOutput &so = ip->PhreeqcPtr->SelectedOutput_map[n];
	so.Set_n_user(n);
	if (has_file_option) { so.Set_file_name("from_option.sel"); so.Set_have_punch_name(true); }
	ip->SetCurrentSelectedOutputUserNumber(n);
	if (caller_set) ip->SetSelectedOutputFileName("from_caller.sel");
	ip->SetSelectedOutputFileOn(on != 0);
	char suggestion[64]; snprintf(suggestion, sizeof suggestion, "selected_output_%d.sel", n);
	bool ok = ip->punch_open(suggestion, std::ios_base::out, n);
	vf_reach("names.opened");
	char want[64];
	if (has_file_option) strcpy(want, "from_option.sel");
	else if (caller_set) strcpy(want, "from_caller.sel");
	else snprintf(want, sizeof want, "selected_%d.%ld.out", n, idx);
	vf_check("names.returns_ok", ok);
	vf_check("names.file_name_of_this_user_number", strcmp(ip->GetSelectedOutputFileName(), want) == 0);
	vf_check("names.opened_iff_switch_on", (ip->punch_ostream != NULL) == (on != 0));
	vf_check("names.engine_suggestion_never_used", strcmp(ip->GetSelectedOutputFileName(), suggestion) != 0);
}
