// @gen gen_c_api.py c_api_table.inc
// @id C13.c_api_getters
// @also C05 C09
// @engine B
// @entry vfh_C13_getters
// @shared_state_watch
// @tier Q
// @opts max_steps=30000000
// @reach c_api.done
// @funcs IPhreeqcLib::GetInstance; GetDumpStringLine; GetErrorString; GetSelectedOutputStringLine; GetNthSelectedOutputUserNumber; GetComponent
// @bounds all 41 id-taking C getters generated from IPhreeqc.h (11 string, 22 integer, 7 indexed string, 1 indexed integer) on a live instance in a used state (errors, warnings, 2-line output/log/dump/selected-output views, 2 components, 2 selected-output user numbers, user file names, switch pattern by case split); the index argument of the indexed getters is an unconstrained 32-bit value (bit-vector symbol)
// @oracle each C function called with a live id returns exactly what the same-named C++ method returns on that object (strings equal, integers equal, booleans as 0/1), for every index including negative and out-of-range ones
// @stubs Phreeqc engine (events); iostream model
// @outside Load*/Run* (C04.entry_equiv), value accessors (C05.table), Fortran wrappers except padfstring
// @id C13.c_api_setters
// @engine B
// @entry vfh_C13_setters
// @shared_state_watch
// @tier Q
// @opts max_steps=30000000
// @reach c_api.done
// @funcs SetDumpFileOn; SetErrorOn; SetSelectedOutputFileName; SetCurrentSelectedOutputUserNumber; IPhreeqc::SetSelectedOutputFileName
// @bounds all 17 id-taking C setters (11 switches, 5 file names, current user number) applied through the C API to one instance and through the C++ methods to a twin in the same state; switch value, file name in {NULL, "", "x.out"}, user number in {-3,0,1,7} by case split; also with an id that was never issued and with a destroyed id
// @oracle after the call both instances show the same state through every getter and the C result is the translated C++ result (a store: what was set is what is read; NULL / empty names and negative user numbers are rejected and change nothing); a call with an id that is not live returns IPQ_BADINSTANCE and changes no instance
// @stubs Phreeqc engine (events)
#include "../common/engine_stubs.inc"
#include "IPhreeqc.h"
#include <c_api_table.inc>   /* generated into the build directory by gen_c_api.py (@gen) */

static void used_state(IPhreeqc *u, int m)
{
	u->SetOutputFileOn(m & 1); u->SetErrorFileOn(m & 2); u->SetLogFileOn(m & 4); u->SetDumpFileOn(m & 8);
	u->SetOutputStringOn(m & 16); u->SetErrorStringOn(m & 32); u->SetLogStringOn(m & 64); u->SetDumpStringOn(m & 128);
	u->SetErrorOn(m & 256);
	u->SetOutputFileName("user.out"); u->SetErrorFileName("user.err"); u->SetLogFileName("user.log"); u->SetDumpFileName("user.dmp");
	u->DatabaseLoaded = true; u->UpdateComponents = false;
	u->Components.push_back("Cl"); u->Components.push_back("Na");
	u->AddError("first error\n"); u->AddWarning("a warning\n");
	u->ErrorLines.push_back("first error"); u->WarningLines.push_back("a warning");
	u->OutputString = "o1\no2\n"; u->OutputLines.push_back("o1"); u->OutputLines.push_back("o2");
	u->LogString = "l1\n"; u->LogLines.push_back("l1");
	u->DumpString = "SOLUTION_RAW 1\n -temp 25\n"; u->DumpLines.push_back("SOLUTION_RAW 1"); u->DumpLines.push_back(" -temp 25");
	for (int n = 1; n <= 5; n += 4)
	{
		u->SelectedOutputMap[n] = new CSelectedOutput();
		u->PhreeqcPtr->SelectedOutput_map[n].Set_n_user(n);
		u->SelectedOutputStringMap[n] = n == 1 ? "h\n1\n" : "k\n";
		u->SelectedOutputLinesMap[n].push_back(n == 1 ? "h" : "k");
		if (n == 1) u->SelectedOutputLinesMap[n].push_back("1");
		u->SelectedOutputFileOnMap[n] = (m & 512) != 0; u->SelectedOutputStringOn[n] = (m & 1024) != 0;
		u->SelectedOutputFileNameMap[n] = n == 1 ? "sel1.out" : "sel5.out";
	}
	u->CurrentSelectedOutputUserNumber = (m & 2048) ? 5 : 1;
}
static int pattern(void)
{
	int pat = (int) vf_int("switch_pattern", 0, 1);
	return pat == 0 ? (1 | 32 | 256 | 1024) : (16 | 64 | 128 | 512 | 2048);
}
static bool same_view(IPhreeqc *a, IPhreeqc *b)
{
	bool ok = true;
#define CMP_S(F) ok = ok && strcmp(a->F(), b->F()) == 0;
#define CMP_I(F) ok = ok && (int) a->F() == (int) b->F();
	C13_G0S(CMP_S)
	C13_G0I(CMP_I)
	return ok;
}

extern "C" void vfh_C13_getters(void)
{
	new (&IPhreeqc::Instances) std::map<size_t, IPhreeqc*>();
	IPhreeqc::InstancesIndex = 2;
	int id = ::CreateIPhreeqc();
	IPhreeqc *ip = IPhreeqc::Instances[(size_t) id];
	used_state(ip, pattern());
#define CHK_S(F) vf_check("c_api." #F, strcmp(::F(id), ip->F()) == 0);
#define CHK_I(F) vf_check("c_api." #F, (int) ::F(id) == (int) ip->F());
	C13_G0S(CHK_S)
	C13_G0I(CHK_I)
	int n = (int) vf_int("index", -2147483647L - 1, 2147483647L);
	/* one indexed getter per path (their in-range / out-of-range branches would otherwise multiply) */
	int which = (int) vf_int("indexed_getter", 0, 7), k = 0;
#define CHK_S1(F) if (which == k++) vf_check("c_api." #F "(n)", strcmp(::F(id, n), ip->F(n)) == 0);
#define CHK_I1(F) if (which == k++) vf_check("c_api." #F "(n)", (int) ::F(id, n) == (int) ip->F(n));
	C13_G1S(CHK_S1)
	C13_G1I(CHK_I1)
	vf_check("c_api.indexed_getter_table_size", k == 8);
	vf_reach("c_api.done");
}

extern "C" void vfh_C13_setters(void)
{
	new (&IPhreeqc::Instances) std::map<size_t, IPhreeqc*>();
	IPhreeqc::InstancesIndex = 0;
	int ida = ::CreateIPhreeqc(), idb = ::CreateIPhreeqc(), idc = ::CreateIPhreeqc();
	IPhreeqc *a = IPhreeqc::Instances[(size_t) ida], *b = IPhreeqc::Instances[(size_t) idb];
	int which = (int) vf_int("target", 0, 2);           /* 0: live id, 1: never issued, 2: destroyed */
	int m = which == 0 ? pattern() : 4095;
	used_state(a, m); used_state(b, m);
	::DestroyIPhreeqc(idc);
	int id = which == 0 ? ida : which == 1 ? ida + 40 : idc;
	int fn = (int) vf_int("setter", 0, 16);
	int v = fn < 11 ? (int) vf_int("switch_value", 0, 1) : 0;
	int nm = (fn >= 11 && fn < 16) ? (int) vf_int("name_case", 0, 2) : 2;
	const char *name = nm == 0 ? (const char *) 0 : nm == 1 ? "" : "x.out";
	static const int UN[4] = {-3, 0, 1, 7};
	int un = fn == 16 ? UN[vf_int("user_number_case", 0, 3)] : 1;
	int k = 0; IPQ_RESULT rc = IPQ_OK;
#define DO_B(F) if (fn == k++) { rc = ::F(id, v); if (which == 0) b->F(v != 0); }
#define DO_S(F) if (fn == k++) { rc = ::F(id, name); if (which == 0) b->F(name); }
	C13_SB(DO_B)
	C13_SS(DO_S)
	VRESULT vr = VR_OK;
	if (fn == k++) { rc = ::SetCurrentSelectedOutputUserNumber(id, un); if (which == 0) vr = b->SetCurrentSelectedOutputUserNumber(un); }
	vf_check("c_api.setter_table_size", k == 17);
	vf_reach("c_api.done");
	if (which == 0)
	{
		vf_check("c_api.setter.same_state_as_cpp", same_view(a, b));
		if (fn == 16) vf_check("c_api.setter.result_translated", (rc == IPQ_OK) == (vr == VR_OK) && (vr == VR_OK || rc == IPQ_INVALIDARG));
		else vf_check("c_api.setter.ok", rc == IPQ_OK);
	}
	else
	{
		vf_check("c_api.setter.bad_instance", rc == IPQ_BADINSTANCE);
		vf_check("c_api.setter.bad_instance_changes_nothing", same_view(a, b));
	}
}
