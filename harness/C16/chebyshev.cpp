// @extract data:_ZZN7Phreeqc13ETHETA_PARAMSEdRdS0_E3AKX
// @id C16.etheta_integrals_consistent
// @engine B
// @entry vfh_C16_chebyshev
// @shared_state_watch
// @tier Q
// @opts timeout_ms=60000 budget_s=300
// @reach chebyshev.done
// @funcs Phreeqc::ETHETA_PARAMS
// @bounds the Chebyshev approximation of Pitzer's integrals J(x) and x J'(x) used for the unsymmetrical mixing terms (ETHETA_PARAMS), both branches (x <= 1: series in z = 4 x^0.2 - 2; x > 1: series in z = (40 x^-0.1 - 22)/9); the power u = x^0.2 resp. x^-0.1 is a symbolic real in (0,1] (pow is replaced by that symbol), x symbolic in its branch
// @oracle E-theta' must be the ionic-strength derivative of E-theta, otherwise solute activity coefficients and the osmotic coefficient are not Gibbs-Duhem consistent: the value returned as x J'(x) is x times the derivative of the returned J(x). With J = x/4 - 1 + S(z(u)), S the Chebyshev sum the routine itself evaluates (coefficients read from the library's own table), x dS/dx = e u z'(u) S'(z) with e = 0.2 resp. -0.1; S'(z) is computed independently from the derivative-coefficient recurrence c'(k-1) = c'(k+1) + 2 k c(k) and its own Clenshaw sum, not from the routine's DK recursion. Both sides are polynomials of degree 20 in u with rational coefficients: exact identity
// @stubs pow (returns the symbol u)
// @outside that the tabulated coefficients approximate Pitzer's integrals (numerical analysis, Harvie 1981)
#include "Phreeqc.h"
#include "vf.h"
#include <new>

static double g_u;
extern "C" double pow(double x, double y) { return g_u; }
extern const double vf_AKX[42] __asm__("_ZZN7Phreeqc13ETHETA_PARAMSEdRdS0_E3AKX");

/* S(z) = sum' a_k T_k(z) (first term halved) by Clenshaw; dS/dz from the derivative series */
static double cheb(const double *a, int n, double z)
{
	double b1 = 0, b2 = 0;
	for (int k = n; k >= 1; k--) { double b0 = 2 * z * b1 - b2 + a[k]; b2 = b1; b1 = b0; }
	return z * b1 - b2 + 0.5 * a[0];
}

extern "C" void vfh_C16_chebyshev(void)
{
	Phreeqc *p = (Phreeqc *) vf_raw(sizeof(Phreeqc));
	int upper = (int) vf_int("x_above_one", 0, 1);
	double X = upper ? vf_double("x", 1.000001, 1000) : vf_double("x", 1e-6, 1.0);
	g_u = vf_double("u", 1e-3, 1.0);
	double J = 0, XJp = 0;
	p->ETHETA_PARAMS(X, J, XJp);
	vf_reach("chebyshev.done");
	const double *a = &vf_AKX[upper ? 21 : 0];
	double u = g_u;
	double z = upper ? (40.0 * u - 22.0) / 9.0 : 4.0 * u - 2.0, dzdu = upper ? 40.0 / 9.0 : 4.0, e = upper ? -0.1 : 0.2;
	/* the routine's own convention for its series: T_k in the variable z/2?  it sums b_k = z b_{k+1} - b_{k+2} + a_k, i.e. Clenshaw for
	   sum' a_k T_k(z/2) with S = (b0 - b2)/2 */
	double c[21]; for (int k = 0; k <= 20; k++) c[k] = a[k];
	double S = cheb(c, 20, z / 2.0);
	vf_close("chebyshev.J_is_x_over_4_minus_1_plus_series", J, X / 4.0 - 1.0 + S, 1e-12, 1e-15);
	/* derivative series in t = z/2: c'_{k-1} = c'_{k+1} + 2 k c_k */
	double d[22]; d[21] = 0; d[20] = 0;
	for (int k = 20; k >= 1; k--) d[k - 1] = d[k + 1] + 2.0 * k * c[k];
	double dSdt = cheb(d, 19, z / 2.0);
	double want = X / 4.0 + e * u * dzdu * 0.5 * dSdt;
	vf_close("chebyshev.xJprime_is_x_times_derivative_of_J", XJp, want, 1e-9, 1e-12);
}
