// @id C16.gammas
// @engine B
// @entry vfh_C16_gammas
// @shared_state_watch
// @tier Q
// @reach gammas.returned
// @funcs Phreeqc::gammas
// @bounds one aqueous species; gflag over {0,1,2,3,5,7,8,9} (case split); LLNL tables absent or 2 temperatures; z in [-4,4]; a0 (dha) in [0,15]; b (dhb) in [-1,1]; mu in [1e-6,6]; A in [0.3,1.5]; B in [0.2,0.5]; moles in [0,10]; T in [273.15,573.15]
// @oracle Davies, extended/WATEQ Debye-Hueckel, b*mu for neutral species, LLNL B-dot, LLNL CO2 polynomial (PHREEQC manual eqs. for log gamma); dg = moles * ln10 * d(log gamma)/d(mu) derived by hand; rtol 1e-9
// @stubs Phreeqc::k_temp (returns OK; DH_A/DH_B are harness inputs), Phreeqc::error_msg (event)
// @outside exchange (gflag 4) and surface (gflag 6) pseudo activity coefficients; Pitzer/SIT branches (C16.aw); IEEE rounding
#include "Phreeqc.h"
#include "vf.h"
#include <math.h>
#include <new>

int Phreeqc::k_temp(LDBLE tc, LDBLE pa) { vf_event("k_temp", 0, 0); return OK; }
void Phreeqc::error_msg(const char *err_str, bool stop) { vf_event_s("error_msg", err_str); if (stop) vf_assume(0); }

extern "C" void vfh_C16_gammas(void)
{
	Phreeqc *p = (Phreeqc *) vf_raw(sizeof(Phreeqc));
	const double ln10 = 2.302585092994046;
	p->LOG_10 = ln10;
	new (&p->s_x) std::vector<class species *>();
	new (&p->llnl_temp) std::vector<double>();
	new (&p->llnl_adh) std::vector<double>();
	new (&p->llnl_bdh) std::vector<double>();
	new (&p->llnl_bdot) std::vector<double>();
	new (&p->llnl_co2_coefs) std::vector<double>();
	p->pitzer_model = FALSE;
	p->sit_model = FALSE;

	int gflag = (int) vf_int("gflag", 0, 9);
	vf_assume(gflag != 4 && gflag != 6);
	int llnl = (int) vf_int("llnl", 0, 1);
	vf_assume(llnl || (gflag != 7 && gflag != 8));

	double A = p->DH_A = vf_double("DH_A", 0.3, 1.5);
	double B = p->DH_B = vf_double("DH_B", 0.2, 0.5);
	double mu = vf_double("mu", 1e-6, 6.0);
	double T = vf_double("tk", 273.15, 573.15);
	p->tk_x = T;
	p->tc_x = T - 273.15;
	double f = 0, t0 = 0, t1 = 0, A0 = 0, A1 = 0, B0 = 0, B1 = 0, D0 = 0, D1 = 0, C[5] = {0, 0, 0, 0, 0};
	if (llnl)
	{
		/* two tabulated temperatures bracketing tc strictly: tc = t0 + f (t1 - t0) */
		t0 = vf_double("llnl_t0", 0.0, 100.0);
		t1 = vf_double("llnl_t1", 100.0, 300.0);
		vf_assume(t0 < p->tc_x && p->tc_x < t1);
		A0 = vf_double("adh0", 0.3, 1.5); A1 = vf_double("adh1", 0.3, 1.5);
		B0 = vf_double("bdh0", 0.2, 0.5); B1 = vf_double("bdh1", 0.2, 0.5);
		D0 = vf_double("bdot0", -0.1, 0.1); D1 = vf_double("bdot1", -0.1, 0.1);
		p->llnl_temp.push_back(t0); p->llnl_temp.push_back(t1);
		p->llnl_adh.push_back(A0); p->llnl_adh.push_back(A1);
		p->llnl_bdh.push_back(B0); p->llnl_bdh.push_back(B1);
		p->llnl_bdot.push_back(D0); p->llnl_bdot.push_back(D1);
		for (int i = 0; i < 5; i++) { C[i] = vf_double("co2c", -10.0, 10.0); p->llnl_co2_coefs.push_back(C[i]); }
	}
	species sp, h2o;
	double z = sp.z = vf_double("z", -4.0, 4.0);
	double a0 = sp.dha = vf_double("dha", 0.0, 15.0);
	double b = sp.dhb = vf_double("dhb", -1.0, 1.0);
	double n = sp.moles = vf_double("moles", 0.0, 10.0);
	sp.gflag = gflag;
	h2o.la = vf_double("la_h2o", -0.2, 0.0);
	p->s_h2o = &h2o;
	p->gfw_water = 0.018016;
	p->s_x.push_back(&sp);

	int rc = p->gammas(mu);
	vf_reach("gammas.returned");
	vf_check("gammas.rc", rc == OK);

	/* ---- reference (manual) ---- */
	double s = sqrt(mu);
	double lg = 0, dg = 0;
	if (llnl) f = (p->tc_x - t0) / (t1 - t0);
	double Al = (1 - f) * A0 + f * A1, Bl = (1 - f) * B0 + f * B1, Dl = (1 - f) * D0 + f * D1;
	switch (gflag)
	{
	case 0: lg = b * mu; dg = b * ln10 * n; break;
	case 1: lg = -A * z * z * (s / (1 + s) - 0.3 * mu);
		dg = -A * z * z * (1 / (2 * s * (1 + s) * (1 + s)) - 0.3) * ln10 * n; break;
	case 2: lg = -A * z * z * s / (1 + B * a0 * s) + b * mu;
		dg = (-A * z * z / (2 * s * (1 + B * a0 * s) * (1 + B * a0 * s)) + b) * ln10 * n; break;
	case 3: case 5: lg = 0; dg = 0; break;
	case 7:
		if (z == 0) { lg = 0; dg = 0; }
		else {
			lg = -Al * z * z * s / (1 + Bl * a0 * s) + Dl * mu;
			dg = (-Al * z * z / (2 * s * (1 + Bl * a0 * s) * (1 + Bl * a0 * s)) + Dl) * ln10 * n;
		}
		break;
	case 8:
		lg = ((C[0] + C[1] * T + C[2] / T) * mu - (C[3] + C[4] * T) * (mu / (mu + 1))) / ln10;
		dg = ((C[0] + C[1] * T + C[2] / T) - (C[3] + C[4] * T) / ((mu + 1) * (mu + 1))) * n;
		break;
	case 9: lg = log10(exp(h2o.la * ln10) * 0.018016); dg = 0; break;
	}
	vf_close("gammas.lg", sp.lg, lg, 1e-9, 1e-12);
	vf_close("gammas.dg", sp.dg, dg, 1e-9, 1e-12);
}
