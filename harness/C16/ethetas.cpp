// @id C16.ethetas
// @engine B
// @entry vfh_C16_ethetas
// @shared_state_watch
// @tier Q
// @reach ethetas.done
// @funcs Phreeqc::ETHETAS
// @bounds unsymmetrical-mixing term for two like-signed ions of charges z_j, z_k in {1,2,3,4} (z_j != z_k and the equal-charge case; case split), ionic strength in [1e-3,20], Debye-Hueckel A0 in [0.3,0.6]; the Chebyshev integrals J(x) and x J'(x) are arbitrary symbolic values (independent of their numerical approximation)
// @oracle Pitzer (1975): E-theta = z_j z_k / (4 I) [J(x_jk) - J(x_jj)/2 - J(x_kk)/2] with x = 6 z z' A0 sqrt(I), and E-theta' is its derivative with respect to ionic strength, E-theta' = -E-theta / I + z_j z_k / (8 I^2) [x_jk J'(x_jk) - x_jj J'(x_jj)/2 - x_kk J'(x_kk)/2] - the relation the Gibbs-Duhem consistency of activity and osmotic coefficients rests on; both vanish for equal charges
// @stubs Phreeqc::ETHETA_PARAMS (returns symbolic J and x J'; records x)
// @outside the Chebyshev approximation of J; the mixing sums that use E-theta (pitzer())
#include "Phreeqc.h"
#include "vf.h"
#include <math.h>

static double g_J[3], g_Q[3], g_X[3]; static int g_n = 0;
void Phreeqc::ETHETA_PARAMS(LDBLE X, LDBLE &JAY, LDBLE &JPRIME)
{
	if (g_n < 3) { g_X[g_n] = X; g_J[g_n] = vf_double("J", -5, 5); g_Q[g_n] = vf_double("xJprime", -5, 5); JAY = g_J[g_n]; JPRIME = g_Q[g_n]; g_n++; }
}

extern "C" void vfh_C16_ethetas(void)
{
	Phreeqc *p = (Phreeqc *) vf_raw(sizeof(Phreeqc));
	double zj = (double) vf_int("z_j", 1, 4), zk = (double) vf_int("z_k", 1, 4);
	double I = vf_double("ionic_strength", 1e-3, 20.0);
	p->A0 = vf_double("A0", 0.3, 0.6);
	double e = 7, ep = 7;
	int rc = p->ETHETAS(zj, zk, I, &e, &ep);
	vf_reach("ethetas.done");
	vf_check("ethetas.rc", rc == OK);
	if (zj == zk)
	{
		vf_close("ethetas.equal_charges.etheta", e, 0.0, 0, 0);
		vf_close("ethetas.equal_charges.ethetap", ep, 0.0, 0, 0);
		return;
	}
	vf_check("ethetas.three_integrals", g_n == 3);
	double s = sqrt(I), xc = 6.0 * p->A0 * s;
	vf_close("ethetas.x_jk", g_X[0], xc * zj * zk, 1e-12, 0);
	vf_close("ethetas.x_jj", g_X[1], xc * zj * zj, 1e-12, 0);
	vf_close("ethetas.x_kk", g_X[2], xc * zk * zk, 1e-12, 0);
	double zz = zj * zk;
	double ref = zz * (g_J[0] - g_J[1] / 2 - g_J[2] / 2) / (4 * I);
	double refp = -ref / I + zz * (g_Q[0] - g_Q[1] / 2 - g_Q[2] / 2) / (8 * I * I);
	vf_close("ethetas.etheta", e, ref, 1e-12, 1e-15);
	vf_close("ethetas.ethetap_is_dEtheta_dI", ep, refp, 1e-12, 1e-15);
}
