// @id C16.pitzer_neutral_terms_gibbs_duhem
// @engine B
// @entry vfh_C16_pitzer_neutral
// @shared_state_watch
// @tier Q
// @opts budget_s=300 timeout_ms=60000
// @reach pitzer.done
// @funcs Phreeqc::pitzer_tidy; Phreeqc::pitzer_make_lists; Phreeqc::pitzer
// @bounds the real chain set-up of interaction coefficients (pitzer_tidy) -> lists of present species and parameters (pitzer_make_lists) -> Pitzer routine, for a solution of two neutral solutes n, n' and one cation / one anion with the -LAMBDA parameters (n,n), (n,n'), (n,cation), (n',anion) - each present or absent (16 subsets, case split) with symbolic value in [-0.5,0.5]; log molalities symbolic in [-3,0.7] (the routine works with m = 10^lm, an uninterpreted positive value); Debye-Hueckel slope 0 (the electrostatic term is C16.pitzer_osmotic_and_water_activity), temperature functions already evaluated, MacInnes scaling off
// @oracle Gibbs-Duhem for the second-virial terms, independent of any coefficient table: every -LAMBDA term is homogeneous of degree 2 in the molalities, so with phi from the osmotic sum and ln gamma_k from the routine, sum_k m_k ln gamma_k = 2 (phi - 1) sum_k m_k over all solutes (exact polynomial identity); and water activity = exp(-phi sum m / 55.50837)
// @stubs string_hsave (interned constants), warning_msg / error_msg (events), sformatf
// @outside ion-ion parameters and third-order (-MU, -ETA, -ZETA) terms, temperature / pressure functions
#include "Phreeqc.h"
#include "vf.h"
#include <new>
#include <math.h>
#include <string.h>

static int g_errs = 0;
void Phreeqc::error_msg(const char *err_str, bool stop) { g_errs++; vf_event_s("error_msg", err_str); }
int Phreeqc::warning_msg(const char *err_str) { return OK; }
char *Phreeqc::sformatf(const char *format, ...) { static char b[4] = "msg"; return b; }
static const char *KP = "K+", *CLM = "Cl-";
const char *Phreeqc::string_hsave(const char *str) { return !strcmp(str, "K+") ? KP : !strcmp(str, "Cl-") ? CLM : str; }

extern "C" void vfh_C16_pitzer_neutral(void)
{
	Phreeqc *p = (Phreeqc *) vf_raw(sizeof(Phreeqc));
	new (&p->s) std::vector<class species *>();
	new (&p->s_list) std::vector<int>(); new (&p->ion_list) std::vector<int>(); new (&p->cation_list) std::vector<int>();
	new (&p->anion_list) std::vector<int>(); new (&p->neutral_list) std::vector<int>(); new (&p->param_list) std::vector<int>();
	new (&p->spec) std::vector<class species *>(); new (&p->M) std::vector<double>(); new (&p->LGAMMA) std::vector<double>();
	new (&p->IPRSNT) std::vector<int>(); new (&p->pitz_params) std::vector<class pitz_param *>(); new (&p->theta_params) std::vector<class theta_param *>();
	new (&p->pitz_param_map) std::map<std::string, size_t>();
	p->LOG_10 = 2.302585092994046; p->MIN_TOTAL = 1e-25; p->itmax = 100;
	enum { S_W, S_E, S_N, S_NP, S_C, S_A, NSP };
	static class species sp[NSP];
	static const char *NM[NSP] = {"H2O", "e-", "CO2", "B(OH)3", "Na+", CLM};
	static const double Z[NSP] = {0, -1, 0, 0, 1, -1};
	static const char *MN[NSP] = {"", "", "log10_m_n", "log10_m_n2", "log10_m_cation", "log10_m_anion"};
	for (int i = 0; i < NSP; i++)
	{
		sp[i].name = NM[i]; sp[i].z = Z[i]; sp[i].in = TRUE; sp[i].type = i == S_W ? H2O : i == S_E ? EMINUS : AQ;
		sp[i].lm = i >= S_N ? vf_double(MN[i], -3, 0.7) : 0.0;      /* molality 10^lm, 1e-3 .. 5 */
		p->s.push_back(&sp[i]);
	}
	p->s_h2o = &sp[S_W]; p->s_eminus = &sp[S_E];
	static class pitz_param pz[4];
	static const int PAIR[4][2] = {{S_N, S_N}, {S_N, S_NP}, {S_N, S_C}, {S_NP, S_A}};
	static const char *LN[4] = {"lambda_nn", "lambda_nn2", "lambda_n_cation", "lambda_n2_anion"};
	static const char *PN[4] = {"has_lambda_nn", "has_lambda_nn2", "has_lambda_n_cation", "has_lambda_n2_anion"};
	for (int k = 0; k < 4; k++)
	{
		if (!vf_int(PN[k], 0, 1)) continue;
		double lam = vf_double(LN[k], -0.5, 0.5);
		pz[k].type = TYPE_LAMBDA; pz[k].species[0] = NM[PAIR[k][0]]; pz[k].species[1] = NM[PAIR[k][1]]; pz[k].species[2] = NULL;
		pz[k].p = lam; pz[k].a[0] = lam;
		p->pitz_params.push_back(&pz[k]);
	}
	p->ICON = FALSE; p->mcb0 = p->mcb1 = p->mcc0 = NULL; p->use_etheta = FALSE;
	int rc = p->pitzer_tidy();
	vf_check("tidy.rc", rc == OK && g_errs == 0);
	p->pitzer_make_lists();
	p->mu_x = vf_double("ionic_strength", 1e-3, 6); p->tk_x = 298.15; p->patm_x = 1.0; p->OTEMP = 298.15; p->OPRESS = 1.0; p->A0 = 0.0;
	rc = p->pitzer();
	vf_reach("pitzer.done");
	vf_check("pitzer.rc", rc == OK);
	double sum_m = 0, sum_mlng = 0;
	for (size_t k = 0; k < p->s_list.size(); k++)
	{
		int i = p->s_list[k];
		sum_m += p->M[i]; sum_mlng += p->M[i] * p->LGAMMA[i];
	}
	vf_check("pitzer.all_solutes_listed", p->s_list.size() == 4);
	vf_close("pitzer.gibbs_duhem_second_virial_terms", sum_mlng, 2.0 * (p->COSMOT - 1.0) * sum_m, 1e-9, 1e-12);
	vf_close("pitzer.water_activity", p->AW, exp(-sum_m * p->COSMOT / 55.50837), 1e-9, 1e-12);
}
