// @id C16.pitzer_osmotic_and_water_activity
// @engine B
// @entry vfh_C16_pitzer_sums
// @shared_state_watch
// @tier Q
// @opts budget_s=300
// @reach pitzer.done
// @funcs Phreeqc::pitzer
// @bounds the real Pitzer routine on a solution of two ions (z = +1, -1) and one neutral solute with symbolic molalities in [1e-3,5], ionic strength in [1e-3,6] and Debye-Hueckel slope A0 in [0.3,0.6]; interaction parameters: none, or one neutral-ion lambda with symbolic value (case split); 25 C, 1 atm (temperature functions already evaluated); MacInnes scaling off
// @oracle Pitzer (1991) eqs. for the osmotic coefficient and water activity: phi - 1 = 2 [ -A0 I^1.5/(1+1.2 sqrt I) + sum_{neutral,ion} m_n m_i lambda ] / sum_k m_k with the sum over ALL solutes, neutral ones included, and a_w = exp(-phi sum_k m_k / 55.50837); ions get ln gamma = z^2 F (+ 2 m_n lambda from the neutral), the neutral solute 2 m_i lambda; hence Gibbs-Duhem consistency of a_w with the solute activities
// @stubs none (PTEMP finds the temperature unchanged)
// @outside binary and ternary ion-ion parameters, the unsymmetrical mixing terms (C16.ethetas), temperature and pressure functions
#include "Phreeqc.h"
#include "vf.h"
#include <new>
#include <math.h>

extern "C" void vfh_C16_pitzer_sums(void)
{
	Phreeqc *p = (Phreeqc *) vf_raw(sizeof(Phreeqc));
	new (&p->s_list) std::vector<int>(); new (&p->ion_list) std::vector<int>(); new (&p->cation_list) std::vector<int>();
	new (&p->anion_list) std::vector<int>(); new (&p->neutral_list) std::vector<int>(); new (&p->param_list) std::vector<int>();
	new (&p->spec) std::vector<class species *>(); new (&p->M) std::vector<double>(); new (&p->LGAMMA) std::vector<double>();
	new (&p->IPRSNT) std::vector<int>(); new (&p->pitz_params) std::vector<class pitz_param *>(); new (&p->theta_params) std::vector<class theta_param *>();
	p->LOG_10 = 2.302585092994046; p->MIN_TOTAL = 1e-25;
	static class species sp[3];
	double m[3] = {vf_double("m_cation", 1e-3, 5), vf_double("m_anion", 1e-3, 5), vf_double("m_neutral", 1e-3, 5)};
	double I = vf_double("ionic_strength", 1e-3, 6), A0 = vf_double("A0", 0.3, 0.6);
	int with_lambda = (int) vf_int("neutral_ion_lambda", 0, 1);
	double lam = with_lambda ? vf_double("lambda", -0.5, 0.5) : 0.0;
	static const double Z[3] = {1, -1, 0};
	for (int i = 0; i < 3; i++)
	{
		sp[i].z = Z[i]; sp[i].in = TRUE; sp[i].type = AQ; sp[i].lm = log10(m[i]);
		p->spec.push_back(&sp[i]); p->M.push_back(0); p->LGAMMA.push_back(99); p->IPRSNT.push_back(0); p->s_list.push_back(i);
		if (Z[i] != 0) p->ion_list.push_back(i); else p->neutral_list.push_back(i);
	}
	p->cation_list.push_back(0); p->anion_list.push_back(1);
	static class pitz_param pz;
	if (with_lambda)
	{
		pz.type = TYPE_LAMBDA; pz.ispec[0] = 2; pz.ispec[1] = 0; pz.ispec[2] = -1; pz.p = lam;
		pz.ln_coef[0] = 2; pz.ln_coef[1] = 2; pz.os_coef = 2;        /* neutral-ion lambda: 2 m lambda in ln gamma, 2 m m lambda in the osmotic sum */
		for (int k = 0; k < 6; k++) pz.a[k] = 0; pz.a[0] = lam;
		p->pitz_params.push_back(&pz); p->param_list.push_back(0);
	}
	p->mu_x = I; p->tk_x = 298.15; p->patm_x = 1.0; p->OTEMP = 298.15; p->OPRESS = 1.0; p->A0 = A0;
	p->use_etheta = FALSE; p->ICON = FALSE; p->IC = -1;
	int rc = p->pitzer();
	vf_reach("pitzer.done");
	vf_check("pitzer.rc", rc == OK);
	/* under(lm) returns 10^lm: the molalities the routine sees */
	double mm[3]; for (int i = 0; i < 3; i++) mm[i] = p->M[i];
	double sum_all = mm[0] + mm[1] + mm[2];
	double DI = sqrt(I), B = 1.2;
	double osm = -(A0) * pow(I, (LDBLE) 1.5) / (1.0 + B * DI) + (with_lambda ? mm[2] * mm[0] * lam * 2 : 0.0);
	double phi = 1.0 + 2.0 * osm / sum_all;
	vf_close("pitzer.osmotic_coefficient_over_all_solutes", p->COSMOT, phi, 1e-9, 1e-12);
	vf_close("pitzer.water_activity", p->AW, exp(-sum_all * phi / 55.50837), 1e-9, 1e-12);
	double F = -A0 * (DI / (1.0 + B * DI) + 2.0 * log(1.0 + B * DI) / B);
	double CONV = 1.0 / p->LOG_10;
	vf_close("pitzer.cation_log_gamma", sp[0].lg_pitzer, (F + (with_lambda ? mm[2] * lam * 2 : 0.0)) * CONV, 1e-9, 1e-12);
	vf_close("pitzer.anion_log_gamma", sp[1].lg_pitzer, F * CONV, 1e-9, 1e-12);
	vf_close("pitzer.neutral_log_gamma", sp[2].lg_pitzer, (with_lambda ? mm[0] * lam * 2 : 0.0) * CONV, 1e-9, 1e-12);
}
