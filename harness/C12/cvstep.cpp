// @extract _ZL6CVStepP11CVodeMemRec
// @id C12.cvode_last_good_state
// @engine B
// @entry vfh_C12_cvstep
// @shared_state_watch
// @tier Q
// @reach cvstep.returned
// @funcs CVStep; N_VScale; N_VNew
// @bounds one call of the CVODE single-step driver CVStep for a system of one equation, from an accepted state (time t0 symbolic in [0,1e6], solution y0 symbolic, step size h in [1e-6,1e3]); the numerical parts of an attempt are an arbitrary environment that follows their documented contract: the predictor advances time and the Nordsieck array, the corrector leaves an arbitrary value in the work vector y and reports solved or not, the error test passes or fails; after a failed solve or error test time and Nordsieck array are restored (CVRestore) and the step is attempted again or given up; up to 3 attempts with every pattern of {corrector failure, error-test failure, success, give-up} (case split); the rate function reports no error
// @oracle a restart continues from a state the integrator accepted: whenever CVStep returns - with a completed step or with a failure code that makes run_reactions restart the integration - the pair (cvode_last_good_time, cvode_last_good_y) that run_reactions restarts from is the accepted solution at that time: last good time t0 goes with y0, not with the value a rejected corrector iteration left behind; the previous-good pair is an accepted pair as well
// @stubs CVAdjustParams, CVPredict, CVSet, CVnls, CVHandleNFlag, CVDoErrorTest, CVCompleteStep, CVPrepareNextStep, CVBDFStab (file-local callees of CVStep, resolved through their mangled names); the rate function f
// @outside the numerical content of predictor, corrector and error test (floating-point step control, not encodable); systems of more than one equation (the bookkeeping is per vector)
#include "Phreeqc.h"
#include "cvode.h"
#include "nvector_serial.h"
#include "vf.h"
#include <new>
#include <string.h>

#define FIRST_CALL 0
#define PREV_CONV_FAIL -1
#define PREV_ERR_FAIL -2
#define SOLVED 0
#define CONV_FAIL -1
#define SUCCESS_STEP 0
#define REP_ERR_FAIL -1
#define REP_CONV_FAIL -2
#define PREDICT_AGAIN -5
#define DO_ERROR_TEST 1

extern "C" int vf_CVStep(CVodeMem cv_mem) __asm__("_ZL6CVStepP11CVodeMemRec");

static double g_t0, g_y0, g_corr[3];
static int g_attempt = 0, g_fate[3];     /* per attempt: 0 success, 1 corrector fails - try again, 2 error test fails - try again, 3 corrector fails - give up, 4 error test fails - give up */
static double &Y(N_Vector v) { return NV_Ith_S(v, 0); }
static void restore(CVodeMem m) { m->cv_tn = g_t0; Y(m->cv_zn[0]) = g_y0; }

extern "C" void s_CVAdjustParams(CVodeMem) __asm__("_ZL14CVAdjustParamsP11CVodeMemRec");
extern "C" void s_CVAdjustParams(CVodeMem) { }
extern "C" void s_CVPredict(CVodeMem) __asm__("_ZL9CVPredictP11CVodeMemRec");
extern "C" void s_CVPredict(CVodeMem m) { m->cv_tn += m->cv_h; Y(m->cv_zn[0]) += m->cv_h * Y(m->cv_zn[1]); }
extern "C" void s_CVSet(CVodeMem) __asm__("_ZL5CVSetP11CVodeMemRec");
extern "C" void s_CVSet(CVodeMem) { }
extern "C" int s_CVnls(CVodeMem, int) __asm__("_ZL5CVnlsP11CVodeMemReci");
extern "C" int s_CVnls(CVodeMem m, int nflag)
{
	Y(m->cv_y) = g_corr[g_attempt];           /* whatever the iteration ended on */
	int f = g_fate[g_attempt];
	return (f == 1 || f == 3) ? CONV_FAIL : SOLVED;
}
extern "C" int s_CVHandleNFlag(CVodeMem, int *, double, int *) __asm__("_ZL13CVHandleNFlagP11CVodeMemRecPidS1_");
extern "C" int s_CVHandleNFlag(CVodeMem m, int *nflagPtr, double saved_t, int *ncfPtr)
{
	if (*nflagPtr == SOLVED) return DO_ERROR_TEST;
	restore(m);
	int f = g_fate[g_attempt++];
	if (f == 3) return REP_CONV_FAIL;
	*nflagPtr = PREV_CONV_FAIL;
	return PREDICT_AGAIN;
}
extern "C" int s_CVDoErrorTest(CVodeMem, int *, int *, double, int *, double *) __asm__("_ZL13CVDoErrorTestP11CVodeMemRecPiS1_dS1_Pd");
extern "C" int s_CVDoErrorTest(CVodeMem m, int *nflagPtr, int *kflagPtr, double saved_t, int *nefPtr, double *dsmPtr)
{
	*dsmPtr = 0.5;
	int f = g_fate[g_attempt];
	if (f == 0) return TRUE;
	g_attempt++;
	restore(m);
	*nflagPtr = PREV_ERR_FAIL;
	*kflagPtr = f == 4 ? REP_ERR_FAIL : SUCCESS_STEP;
	return FALSE;
}
extern "C" void s_CVCompleteStep(CVodeMem) __asm__("_ZL14CVCompleteStepP11CVodeMemRec");
extern "C" void s_CVCompleteStep(CVodeMem m) { m->cv_nst++; Y(m->cv_zn[0]) = Y(m->cv_y); }
extern "C" void s_CVPrepareNextStep(CVodeMem, double) __asm__("_ZL17CVPrepareNextStepP11CVodeMemRecd");
extern "C" void s_CVPrepareNextStep(CVodeMem, double) { }
extern "C" void s_CVBDFStab(CVodeMem) __asm__("_ZL9CVBDFStabP11CVodeMemRec");
extern "C" void s_CVBDFStab(CVodeMem) { }

static Phreeqc *g_p;
static void rate(integertype N, realtype t, N_Vector y, N_Vector ydot, void *f_data) { g_p->cvode_error = FALSE; Y(ydot) = -Y(y); }

extern "C" void vfh_C12_cvstep(void)
{
	Phreeqc *p = g_p = (Phreeqc *) vf_raw(sizeof(Phreeqc));
	M_Env env = M_EnvInit_Serial(1);
	env->phreeqc_ptr = p;
	CVodeMem m = (CVodeMem) vf_raw(sizeof(struct CVodeMemRec));
	m->cv_machenv = env; m->cv_N = 1; m->cv_f = rate; m->cv_f_data = p;
	m->cv_zn[0] = N_VNew(1, env); m->cv_zn[1] = N_VNew(1, env); m->cv_y = N_VNew(1, env); m->cv_ftemp = N_VNew(1, env); m->cv_acor = N_VNew(1, env); Y(m->cv_acor) = 0.25; m->cv_tq[2] = 2.0;
	p->cvode_last_good_y = N_VNew(1, env); p->cvode_prev_good_y = N_VNew(1, env);
	g_t0 = vf_double("t0", 0, 1e6); g_y0 = vf_double("y0", -10, 10);
	double h = vf_double("h", 1e-6, 1e3);
	double t_before = vf_double("earlier_good_time", 0, 1e6), y_before = vf_double("earlier_good_y", -10, 10);
	vf_assume(t_before < g_t0);            /* an earlier accepted time */
	m->cv_tn = g_t0; m->cv_h = h; m->cv_hprime = h; m->cv_nst = 1; m->cv_sldeton = FALSE;
	Y(m->cv_zn[0]) = g_y0; Y(m->cv_zn[1]) = vf_double("scaled_derivative", -10, 10); Y(m->cv_y) = g_y0; Y(m->cv_ftemp) = 0;
	p->cvode_last_good_time = t_before; Y(p->cvode_last_good_y) = y_before;
	p->cvode_prev_good_time = 0; Y(p->cvode_prev_good_y) = 0;
	p->cvode_error = FALSE; p->cvode_test = FALSE;
	static const char *CN[3] = {"corrector_result_1", "corrector_result_2", "corrector_result_3"};
	int gave_up = 0, done = 0;
	for (int a = 0; a < 3; a++)
	{
		g_corr[a] = vf_double(CN[a], -10, 10);
		g_fate[a] = (gave_up || done) ? 0 : (int) vf_int("attempt_fate", 0, a == 2 ? 0 : 4) ;
		if (a == 2 && !(gave_up || done)) g_fate[a] = (int) vf_int("last_attempt_fate", 0, 2) == 0 ? 0 : ((int) vf_int("last_attempt_gives_up_on", 3, 4));
		if (g_fate[a] == 0) done = 1;
		if (g_fate[a] >= 3) gave_up = 1;
	}
	int rc = vf_CVStep(m);
	vf_reach("cvstep.returned");
	vf_check("cvstep.return_code", gave_up ? rc < 0 : rc == SUCCESS_STEP);
	/* what run_reactions would restart from */
	if (p->cvode_last_good_time == g_t0) vf_check("cvstep.last_good_state_is_the_accepted_solution_at_that_time", Y(p->cvode_last_good_y) == g_y0);
	if (p->cvode_last_good_time == t_before) vf_check("cvstep.last_good_state_is_the_accepted_solution_at_that_time", Y(p->cvode_last_good_y) == y_before);
	vf_check("cvstep.last_good_time_is_an_accepted_time", p->cvode_last_good_time == g_t0 || p->cvode_last_good_time == t_before);
	if (p->cvode_prev_good_time == g_t0) vf_check("cvstep.previous_good_state_is_an_accepted_solution", Y(p->cvode_prev_good_y) == g_y0);
	if (p->cvode_prev_good_time == t_before) vf_check("cvstep.previous_good_state_is_an_accepted_solution", Y(p->cvode_prev_good_y) == y_before);
	if (!gave_up) vf_check("cvstep.completed_step_advances", m->cv_tn == g_t0 + h && m->cv_nst == 2);
	else vf_check("cvstep.failed_step_leaves_time", m->cv_tn == g_t0);
}
