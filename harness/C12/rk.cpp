// @static_init cxxKinetics.cxx KineticsComp.cxx NameDouble.cxx Solution.cxx Utils.cxx
// @id C12.rk_zero_order
// @engine B
// @entry vfh_C12_rk_zero
// @shared_state_watch
// @tier Q
// @opts loop_bound=40 timeout_ms=10000 budget_s=300
// @reach rk.done
// @funcs Phreeqc::rk_kinetics
// @bounds the real Runge-Kutta driver with one kinetic reactant whose rate law is zero order (rate r mol/s over {0.003, 0.05, 0.12, 0.25, 0.5, -0.05, -0.3}: below, at and above the 0.1 mol-per-step limit, and negative rates for a reactant that forms; initial amount m0 symbolic in [0.6,50]); time T = 1 s; -runge_kutta in {1,2,3,6}, -step_divide in {1 (default), 2, 0.05 (maximum moles per step)} by case split; tolerance 1e-8; up to 40 accepted or rejected sub-steps (a larger count is reported, not assumed away)
// @oracle exact solution: the reactant amount after T is m0 - r T (never negative) and the time integrated is exactly T, whatever the integrator order and however T is cut into sub-steps, including sub-steps forced by the 0.1 mol-per-step limit
// @stubs Phreeqc::calc_kinetic_reaction (the rate law), set_and_run_wrapper, saver, set_reaction, calc_final_kinetic_reaction, status (events); error_msg
// @outside the equilibrium solve between stages; CVODE integrator
// @id C12.rk_first_order
// @engine B
// @entry vfh_C12_rk_first
// @shared_state_watch
// @tier Q
// @opts loop_bound=12 timeout_ms=10000 budget_s=300
// @reach rk.done
// @funcs Phreeqc::rk_kinetics
// @bounds one reactant with first-order rate law k m, k T in [0.01,0.5], m0 in [0.01,0.09] (below the moles-per-step limit), -runge_kutta 6 (Cash-Karp), one accepted step (tolerance 1: the embedded error estimate is accepted)
// @oracle the amount after the step equals one step of the Cash-Karp fifth-order formula written from its published tableau (Cash & Karp 1990 / Numerical Recipes) applied to the same rate law: rtol 1e-12; this pins every coefficient of the tableau used by the driver
// @stubs as C12.rk_zero_order
// @outside step-size control beyond the first step; IEEE rounding
// @id C12.rk_keeps_saved_state
// @also C02
// @engine B
// @entry vfh_C12_rk_saved
// @shared_state_watch
// @tier Q
// @opts loop_bound=40 timeout_ms=10000 budget_s=300
// @reach rk.done
// @funcs Phreeqc::rk_kinetics
// @bounds the real Runge-Kutta driver for a cell that also holds an equilibrium-phase assemblage and a solid-solution assemblage; zero-order rate law (7 rates as in C12.rk_zero_order) with -runge_kutta in {1,2,3,6} and -step_divide in {1,2,0.05}, or first-order rate law (k T in [0.01,0.5], symbolic) with -runge_kutta in {3,6} and tolerance 1 (one accepted full step); optionally the k-th equilibrium solve (k in 1..3) reports a mass-balance failure so that the step is repeated with a smaller sub-step; case split
// @oracle a kinetic step advances the reactants together with the reaction that released them: every time the driver stores the result of a sub-step (saver) the solution, the equilibrium phases and the solid solutions of the cell are stored together, and when the driver hands the cell to the closing equilibrium calculation and when it returns, all three still carry the result of the same (latest) stored sub-step - no assemblage has been rolled back to an earlier sub-step while the solution moved on
// @stubs saver (stamps solution, equilibrium-phase and solid-solution entry of the cell with a running number), set_reaction (points the use-structure at the cell's entries, as the real one does), others as C12.rk_zero_order
// @outside the equilibrium solve itself; CVODE (C12.cvode_restart)
#include "Phreeqc.h"
#include "cxxKinetics.h"
#include "Solution.h"
#include "PPassemblage.h"
#include "SSassemblage.h"
#include "vf.h"
#include <new>
#include <string.h>

static int g_law = 0; static double g_r = 0, g_k = 0; static int g_ncalls = 0;
int Phreeqc::calc_kinetic_reaction(cxxKinetics *kinetics_ptr, LDBLE time_step)
{
	g_ncalls++;
	for (size_t j = 0; j < kinetics_ptr->Get_kinetics_comps().size(); j++)
	{
		cxxKineticsComp &c = kinetics_ptr->Get_kinetics_comps()[j];
		double rate = g_law == 0 ? g_r : g_k * c.Get_m();
		c.Set_moles(c.Get_moles() + rate * time_step);
	}
	return OK;
}
int Phreeqc::calc_final_kinetic_reaction(cxxKinetics *kinetics_ptr) { return OK; }
static int g_track = 0, g_stamp = 0, g_wrapper_calls = 0, g_fail_at = 0, g_closing_seen = 0, g_closing_consistent = 0;
static bool consistent(Phreeqc *p)
{
	double sol = p->Rxn_solution_map[1].Get_total_h();
	double pp = p->Rxn_pp_assemblage_map[1].Get_pp_assemblage_comps()["Calcite"].Get_moles();
	double ss = p->Rxn_ss_assemblage_map[1].Get_SSs()["BaSr"].Get_tk();
	return sol == (double) g_stamp && pp == (double) g_stamp && ss == (double) g_stamp;
}
int Phreeqc::set_and_run_wrapper(int i, int use_mix, int use_kinetics, int nsaver, LDBLE step_fraction)
{
	iterations = 1;
	if (g_track)
	{
		/* without kinetics: the opening equilibration of the cell and the closing one after the last sub-step */
		if (use_kinetics == FALSE) { g_closing_seen++; g_closing_consistent += consistent(this) ? 1 : 0; }
		else if (++g_wrapper_calls == g_fail_at) return MASS_BALANCE;
	}
	return OK;
}
int Phreeqc::saver(void)
{
	if (g_track)
	{
		/* the result of the sub-step is stored: solution, equilibrium phases and solid solutions together */
		g_stamp++;
		Rxn_solution_map[1].Set_total_h((double) g_stamp);
		Rxn_pp_assemblage_map[1].Get_pp_assemblage_comps()["Calcite"].Set_moles((double) g_stamp);
		Rxn_ss_assemblage_map[1].Get_SSs()["BaSr"].Set_tk((double) g_stamp);
	}
	return OK;
}
int Phreeqc::set_reaction(int i, int use_mix, int use_kinetics)
{
	if (g_track)
	{
		use.Set_pp_assemblage_ptr(&Rxn_pp_assemblage_map[1]);
		use.Set_ss_assemblage_ptr(&Rxn_ss_assemblage_map[1]);
	}
	return OK;
}
int Phreeqc::set_transport(int i, int use_mix, int use_kinetics, int nsaver) { return OK; }
int Phreeqc::set_advection(int i, int use_mix, int use_kinetics, int nsaver) { return OK; }
int Phreeqc::status(int count, const char *str, bool kinetics) { return OK; }
void Phreeqc::error_msg(const char *err_str, bool stop) { vf_event_s("error_msg", err_str); vf_assume(0); }
char *Phreeqc::sformatf(const char *format, ...) { static char b[4] = "msg"; return b; }

static Phreeqc *mk(double m0, int rk, double step_divide, double tol)
{
	Phreeqc *p = (Phreeqc *) vf_raw(sizeof(Phreeqc));
	new (&p->Rxn_kinetics_map) std::map<int, cxxKinetics>();
	new (&p->Rxn_solution_map) std::map<int, cxxSolution>();
	new (&p->Rxn_pp_assemblage_map) std::map<int, cxxPPassemblage>();
	new (&p->Rxn_ss_assemblage_map) std::map<int, cxxSSassemblage>();
	new (&p->m_temp) std::vector<double>(4, 0.0);
	new (&p->rk_moles) std::vector<double>();
	p->state = REACTION;
	p->count_cells = 1;
	cxxKinetics kin;
	kin.Set_n_user(1); kin.Set_n_user_end(1);
	kin.Set_rk(rk); kin.Set_step_divide(step_divide); kin.Set_bad_step_max(500);
	cxxKineticsComp c;
	c.Set_rate_name("R"); c.Set_m(m0); c.Set_m0(m0); c.Set_tol(tol); c.Set_moles(0.0);
	kin.Get_kinetics_comps().push_back(c);
	p->Rxn_kinetics_map[1] = kin;
	cxxSolution s; s.Set_n_user(1); s.Set_n_user_end(1);
	p->Rxn_solution_map[1] = s;
	return p;
}

extern "C" void vfh_C12_rk_zero(void)
{
	static const int RK[4] = {1, 2, 3, 6};
	static const double SD[3] = {1.0, 2.0, 0.05};
	int rk = RK[vf_int("runge_kutta", 0, 3)];
	double sd = SD[vf_int("step_divide_case", 0, 2)];
	g_law = 0;
	static const double RATE[7] = {0.003, 0.05, 0.12, 0.25, 0.5, -0.05, -0.3};      /* negative: the reactant forms */
	g_r = RATE[vf_int("rate_case", 0, 6)];
	double m0 = vf_double("m0", 0.6, 50.0), T = 1.0;
	Phreeqc *p = mk(m0, rk, sd, 1e-8);
	int rc = p->rk_kinetics(1, T, NOMIX, 1, 1.0);
	vf_reach("rk.done");
	vf_check("rk.rc", rc == OK);
	cxxKinetics *k = &p->Rxn_kinetics_map[1];
	double m = k->Get_kinetics_comps()[0].Get_m();
	vf_close("rk.zero_order_exact", m, m0 - g_r * T, 1e-9, 1e-12);
	vf_check("rk.amount_nonnegative", m >= 0.0);
}

extern "C" void vfh_C12_rk_first(void)
{
	g_law = 1;
	double kT = vf_double("k_times_T", 0.01, 0.5), m0 = vf_double("m0", 0.01, 0.09), T = 1.0;
	g_k = kT;
	Phreeqc *p = mk(m0, 6, 1.0, 1.0);
	int rc = p->rk_kinetics(1, T, NOMIX, 1, 1.0);
	vf_reach("rk.done");
	vf_check("rk.rc", rc == OK);
	double m = p->Rxn_kinetics_map[1].Get_kinetics_comps()[0].Get_m();
	/* Cash-Karp tableau (Cash & Karp, ACM TOMS 16 (1990); Numerical Recipes 16.2), y' = f(y) = -k y, one step h = T.
	   k_i here are the amounts reacted (k y h), as in the driver. */
	const double a21 = 1. / 5, a31 = 3. / 40, a32 = 9. / 40, a41 = 3. / 10, a42 = -9. / 10, a43 = 6. / 5,
		a51 = -11. / 54, a52 = 5. / 2, a53 = -70. / 27, a54 = 35. / 27,
		a61 = 1631. / 55296, a62 = 175. / 512, a63 = 575. / 13824, a64 = 44275. / 110592, a65 = 253. / 4096,
		b1 = 37. / 378, b3 = 250. / 621, b4 = 125. / 594, b6 = 512. / 1771;
	double h = T, K = kT / T;
	double k1 = K * m0 * h;
	double k2 = K * (m0 - a21 * k1) * h;
	double k3 = K * (m0 - (a31 * k1 + a32 * k2)) * h;
	double k4 = K * (m0 - (a41 * k1 + a42 * k2 + a43 * k3)) * h;
	double k5 = K * (m0 - (a51 * k1 + a52 * k2 + a53 * k3 + a54 * k4)) * h;
	double k6 = K * (m0 - (a61 * k1 + a62 * k2 + a63 * k3 + a64 * k4 + a65 * k5)) * h;
	double ref = m0 - (b1 * k1 + b3 * k3 + b4 * k4 + b6 * k6);
	vf_close("rk.cash_karp_step", m, ref, 1e-12, 1e-15);
}

extern "C" void vfh_C12_rk_saved(void)
{
	static const int RK[4] = {1, 2, 3, 6};
	static const double SD[3] = {1.0, 2.0, 0.05};
	static const double RATE[7] = {0.003, 0.05, 0.12, 0.25, 0.5, -0.05, -0.3};
	g_track = 1;
	g_law = (int) vf_int("rate_law_order", 0, 1);
	int rk; double sd = 1.0, tol = 1e-8, m0, T = 1.0;
	if (g_law == 0)
	{
		rk = RK[vf_int("runge_kutta", 0, 3)];
		sd = SD[vf_int("step_divide_case", 0, 2)];
		g_r = RATE[vf_int("rate_case", 0, 6)];
		m0 = vf_double("m0", 0.6, 50.0);
	}
	else
	{
		rk = RK[vf_int("runge_kutta", 2, 3)];
		g_k = vf_double("k_times_T", 0.01, 0.5); tol = 1.0;
		m0 = vf_double("m0", 0.01, 0.09);
	}
	g_fail_at = (int) vf_int("failing_equilibrium_solve", 0, 3);         /* 0: none */
	Phreeqc *p = mk(m0, rk, sd, tol);
	new (&p->use) cxxUse();
	cxxPPassemblage pp; pp.Set_n_user(1); pp.Set_n_user_end(1);
	cxxPPassemblageComp pc; pc.Set_name("Calcite"); pc.Set_moles(0.0);
	pp.Get_pp_assemblage_comps()["Calcite"] = pc;
	p->Rxn_pp_assemblage_map[1] = pp;
	cxxSSassemblage ssa; ssa.Set_n_user(1); ssa.Set_n_user_end(1);
	cxxSS ss; ss.Set_name("BaSr"); ss.Set_tk(0.0);
	ssa.Get_SSs()["BaSr"] = ss;
	p->Rxn_ss_assemblage_map[1] = ssa;
	p->Rxn_solution_map[1].Set_total_h(0.0);
	int rc = p->rk_kinetics(1, T, NOMIX, 1, 1.0);
	vf_reach("rk.done");
	vf_check("rk.rc", rc == OK);
	vf_check("rk.sub_step_results_were_stored", g_stamp >= 1);
	vf_check("rk.opening_and_closing_equilibrium", g_closing_seen == 2);
	vf_check("rk.closing_equilibrium_sees_one_sub_step_result", g_closing_consistent == g_closing_seen);
	vf_check("rk.returned_state_is_latest_stored_sub_step", consistent(p));
}
