// @static_init cxxKinetics.cxx KineticsComp.cxx NameDouble.cxx Solution.cxx Utils.cxx
// @id C12.cvode_time_bookkeeping
// @also C02
// @engine B
// @entry vfh_C12_cvode_restart
// @shared_state_watch
// @tier Q
// @opts budget_s=300
// @reach cvode.done
// @funcs Phreeqc::run_reactions; Phreeqc::free_cvode; N_VNew; N_VScale
// @bounds the real -cvode branch of run_reactions for one kinetic reactant over the time interval T in [1e-3,1e6] s; the integrator is an arbitrary environment: each CVode call either completes the interval it was asked for or gives up after an arbitrary good time g_k in [0, requested] (0..3 give-ups in a row, case split; -bad_step_max 10); the amount reacted it reports on completion is arbitrary in [-1,20] mol with initial amount m0 in [0,10]
// @oracle time is neither lost nor integrated twice: the first call is asked for T, every restart for exactly what is left, T - (g_1 + ... + g_k), so the completed pieces add up to T whatever the sequence of give-ups; each give-up restarts from the last good state; afterwards simulation time has advanced by exactly T, the reactant amount is never negative and amount + moles transferred equals the initial amount; the mineral assemblage and the solid-solution assemblage of the cell - each present or absent by case split - which the integrator's trial rate evaluations have overwritten, are both back at their state before the integration when the final equilibrium step starts (otherwise that step counts the transfers twice)
// @stubs CVode, CVodeMalloc, CVDense, CVodeFree (environment, as above); Phreeqc::set_and_run_wrapper, saver, store_get_equi_reactants, calc_final_kinetic_reaction, status, sformatf, error_msg, warning_msg
// @outside the integrator itself (cvode.cpp: 3500 lines of floating-point step control, not encodable); the rate functions; the "FAIL 2" re-entry after a completed integration
// @id C11.kinetic_cell_is_mixed_once
// @also C12
// @engine B
// @entry vfh_C11_kinetic_cell_mixing
// @shared_state_watch
// @tier Q
// @opts budget_s=300
// @reach step.done
// @funcs Phreeqc::run_reactions; Phreeqc::rk_kinetics
// @bounds the reaction step of one transport cell that holds kinetic reactants (run_reactions in a TRANSPORT calculation): integrator Runge-Kutta (order 1, 3 or 6) or CVODE, multicomponent diffusion on or off, mixing requested by the transport driver = none / dispersive mix / stagnant mix / boundary mix (case split); rates zero (the integration is trivial); CVODE completes at once
// @oracle transport only moves dissolved mass: a cell's dispersive (or stagnant) mixing recipe is applied exactly once per step - the first equilibrium calculation of the step is asked for the mixing the transport driver requested, every later calculation of the step for none - whichever integrator the cell's KINETICS block selects and whether or not multicomponent diffusion is switched on (a cell that skips its recipe while its neighbours apply theirs creates or loses mass)
// @stubs as C12.cvode_time_bookkeeping; calc_kinetic_reaction (zero rates), set_transport
// @outside the mixing itself (C02.add_mix), the recipes (C11.init_mix, C11.stagnant_exchange_conserves)
#include "Phreeqc.h"
#include "cxxKinetics.h"
#include "Solution.h"
#include "cxxMix.h"
#include "PPassemblage.h"
#include "SSassemblage.h"
#include "cvode.h"
#include "cvdense.h"
#include "nvector_serial.h"
#include "vf.h"
#include <new>
#include <string.h>

static Phreeqc *g_p;
static int g_calls = 0, g_fail = 0, g_mallocs = 0, g_frees = 0;
static double g_req[8], g_good[8], g_y_final, g_y_at_restart[8];
static char g_mem[8];

static int g_wrapper_calls = 0;
static int g_mixrec[16], g_nmixrec = 0;
int Phreeqc::calc_kinetic_reaction(cxxKinetics *kinetics_ptr, LDBLE time_step) { return OK; }      /* zero rates */
int Phreeqc::set_transport(int i, int use_mix, int use_kinetics, int nsaver) { return OK; }
int Phreeqc::set_reaction(int i, int use_mix, int use_kinetics) { return OK; }
int Phreeqc::set_advection(int i, int use_mix, int use_kinetics, int nsaver) { return OK; }
static int g_final_pp_ok = -1, g_final_ss_ok = -1, g_has_pp = 0, g_has_ss = 0;
int Phreeqc::set_and_run_wrapper(int i, int use_mix, int use_kinetics, int nsaver, LDBLE step_fraction)
{
	iterations = 1;
	if (g_nmixrec < 16) g_mixrec[g_nmixrec++] = use_mix;
	/* as the real routine does: the assemblages of cell i are the ones in use */
	use.Set_pp_assemblage_ptr(Utilities::Rxn_find(Rxn_pp_assemblage_map, i));
	use.Set_ss_assemblage_ptr(Utilities::Rxn_find(Rxn_ss_assemblage_map, i));
	if (++g_wrapper_calls >= 2)
	{
		/* the final equilibrium step after the integration: what does it start from? */
		cxxPPassemblage *pp = Utilities::Rxn_find(Rxn_pp_assemblage_map, i);
		cxxSSassemblage *ss = Utilities::Rxn_find(Rxn_ss_assemblage_map, i);
		g_final_pp_ok = (pp == NULL) ? 2 : (pp->Get_description() == "before integration");
		g_final_ss_ok = (ss == NULL) ? 2 : (ss->Get_description() == "before integration");
	}
	return OK;
}
int Phreeqc::saver(void) { return OK; }
int Phreeqc::store_get_equi_reactants(int k, int kin_end) { return OK; }
int Phreeqc::calc_final_kinetic_reaction(cxxKinetics *kinetics_ptr) { return OK; }
int Phreeqc::status(int count, const char *str, bool kinetics) { return OK; }
void Phreeqc::error_msg(const char *err_str, bool stop) { vf_event_s("error_msg", err_str); vf_assume(0); }
int Phreeqc::warning_msg(const char *err_str) { vf_event_s("warning_msg", err_str); return OK; }
char *Phreeqc::sformatf(const char *format, ...) { static char b[4] = "msg"; return b; }

void *CVodeMalloc(integertype N, RhsFn f, realtype t0, N_Vector y0, int lmm, int iter, int itol, realtype *reltol, void *abstol,
	void *f_data, FILE *errfp, booleantype optIn, long int iopt[], realtype ropt[], M_Env machEnv)
{
	g_mallocs++;
	vf_check("cvode.restart_from_time_zero", t0 == 0.0);
	if (g_calls > 0 && g_calls < 8) g_y_at_restart[g_calls] = NV_Ith_S(y0, 0);
	return g_mem;
}
int CVDense(void *cvode_mem, CVDenseJacFn djac, void *jac_data) { return SUCCESS; }
void CVodeFree(void *cvode_mem) { g_frees++; }
static void scribble(void)
{
	/* what the trial rate evaluations inside the integrator do to the cell's assemblages */
	if (g_has_pp) g_p->Rxn_pp_assemblage_map[1].Set_description("trial");
	if (g_has_ss) g_p->Rxn_ss_assemblage_map[1].Set_description("trial");
}
int CVode(void *cvode_mem, realtype tout, N_Vector yout, realtype *t, int itask)
{
	int k = g_calls++;
	scribble();
	if (k < 8) g_req[k] = tout;
	if (k < g_fail)
	{
		/* gives up: the last state the rate routine accepted is at g <= tout, saved in cvode_last_good_y */
		double g = g_good[k];
		vf_assume(g >= 0.0 && g <= tout);
		g_p->cvode_last_good_time = g;
		NV_Ith_S(g_p->cvode_last_good_y, 0) = 0.25 * (k + 1);
		NV_Ith_S(yout, 0) = 99.0;                 /* garbage beyond the good state */
		*t = g;
		return -1;
	}
	g_p->cvode_last_good_time = tout;
	NV_Ith_S(yout, 0) = g_y_final;
	*t = tout;
	return SUCCESS;
}

extern "C" void vfh_C12_cvode_restart(void)
{
	Phreeqc *p = g_p = (Phreeqc *) vf_raw(sizeof(Phreeqc));
	new (&p->Rxn_kinetics_map) std::map<int, cxxKinetics>();
	new (&p->Rxn_solution_map) std::map<int, cxxSolution>();
	new (&p->Rxn_pp_assemblage_map) std::map<int, cxxPPassemblage>();
	new (&p->Rxn_ss_assemblage_map) std::map<int, cxxSSassemblage>();
	new (&p->m_temp) std::vector<double>();
	new (&p->m_original) std::vector<double>();
	new (&p->use) cxxUse();
	p->state = REACTION; p->count_cells = 1;
	p->use.Set_kinetics_in(true);
	double m0 = vf_double("m0", 0, 10), T = vf_double("T", 1e-3, 1e6), t_start = vf_double("sim_time_start", 0, 1e6);
	g_y_final = vf_double("moles_reacted_reported", -1, 20);
	g_fail = (int) vf_int("give_ups", 0, 3);
	g_good[0] = vf_double("good_time_1", 0, 1e6); g_good[1] = vf_double("good_time_2", 0, 1e6); g_good[2] = vf_double("good_time_3", 0, 1e6);
	p->rate_sim_time_start = t_start; p->rate_sim_time = t_start;
	cxxKinetics kin;
	kin.Set_n_user(1); kin.Set_n_user_end(1);
	kin.Set_use_cvode(true); kin.Set_bad_step_max(10); kin.Set_cvode_steps(100); kin.Set_cvode_order(5);
	cxxKineticsComp c;
	c.Set_rate_name("R"); c.Set_m(m0); c.Set_m0(m0); c.Set_tol(1e-8); c.Set_moles(0.0);
	kin.Get_kinetics_comps().push_back(c);
	p->Rxn_kinetics_map[1] = kin;
	cxxSolution s; s.Set_n_user(1); s.Set_n_user_end(1);
	p->Rxn_solution_map[1] = s;
	g_has_pp = (int) vf_int("cell_has_equilibrium_phases", 0, 1); g_has_ss = (int) vf_int("cell_has_solid_solutions", 0, 1);
	if (g_has_pp) { cxxPPassemblage a; a.Set_n_user(1); a.Set_n_user_end(1); a.Set_description("before integration"); p->Rxn_pp_assemblage_map[1] = a; }
	if (g_has_ss) { cxxSSassemblage a; a.Set_n_user(1); a.Set_n_user_end(1); a.Set_description("before integration"); p->Rxn_ss_assemblage_map[1] = a; }

	int rc = p->run_reactions(1, T, NOMIX, 1.0);
	vf_reach("cvode.done");
	vf_check("cvode.rc", rc == OK);
	vf_check("cvode.one_call_per_piece", g_calls == g_fail + 1);
	vf_close("cvode.first_piece_is_whole_interval", g_req[0], T, 0, 0);
	double done = 0;
	for (int k = 0; k < g_fail; k++)
	{
		done += g_good[k];
		vf_close("cvode.restart_asks_for_what_is_left", g_req[k + 1], T - done, 1e-12, 0);
		vf_check("cvode.restart_from_last_good_state", g_y_at_restart[k + 1] == 0.25 * (k + 1));
	}
	vf_close("cvode.sim_time_advanced_by_T", p->rate_sim_time, t_start + T, 1e-12, 0);
	vf_check("cvode.final_step_starts_from_saved_equilibrium_phases", g_final_pp_ok == (g_has_pp ? 1 : 2));
	vf_check("cvode.final_step_starts_from_saved_solid_solutions", g_final_ss_ok == (g_has_ss ? 1 : 2));
	vf_check("cvode.memory_released", g_mallocs == g_frees && p->kinetics_y == NULL && p->kinetics_cvode_mem == NULL);
	cxxKineticsComp &kc = p->Rxn_kinetics_map[1].Get_kinetics_comps()[0];
	vf_check("cvode.amount_nonnegative", kc.Get_m() >= 0.0);
	vf_close("cvode.amount_plus_transfer_is_initial", kc.Get_m() + kc.Get_moles(), m0, 1e-12, 1e-15);
	double want_m = m0 - g_y_final; if (want_m < 0) want_m = 0;
	vf_close("cvode.amount_is_initial_minus_reacted", kc.Get_m(), want_m, 1e-12, 1e-15);
}

extern "C" void vfh_C11_kinetic_cell_mixing(void)
{
	Phreeqc *p = g_p = (Phreeqc *) vf_raw(sizeof(Phreeqc));
	new (&p->Rxn_kinetics_map) std::map<int, cxxKinetics>();
	new (&p->Rxn_solution_map) std::map<int, cxxSolution>();
	new (&p->Rxn_pp_assemblage_map) std::map<int, cxxPPassemblage>();
	new (&p->Rxn_ss_assemblage_map) std::map<int, cxxSSassemblage>();
	new (&p->Rxn_mix_map) std::map<int, cxxMix>();
	new (&p->Dispersion_mix_map) std::map<int, cxxMix>();
	new (&p->m_temp) std::vector<double>();
	new (&p->m_original) std::vector<double>();
	new (&p->rk_moles) std::vector<double>();
	new (&p->use) cxxUse();
	p->state = TRANSPORT; p->count_cells = 3;
	p->use.Set_kinetics_in(true);
	static const int INTEG[4] = {0, 1, 3, 6};       /* 0: CVODE */
	int integ = INTEG[vf_int("integrator", 0, 3)];
	p->multi_Dflag = (int) vf_int("multicomponent_diffusion", 0, 1);
	static const int MIXK[4] = {NOMIX, DISP, STAG, MIX_BS};
	int req = MIXK[vf_int("mixing_requested", 0, 3)];
	g_fail = 0; g_y_final = 0.0;
	p->rate_sim_time_start = 0; p->rate_sim_time = 0;
	cxxKinetics kin;
	kin.Set_n_user(2); kin.Set_n_user_end(2);
	kin.Set_use_cvode(integ == 0); kin.Set_rk(integ ? integ : 3); kin.Set_bad_step_max(10); kin.Set_cvode_steps(100); kin.Set_cvode_order(5); kin.Set_step_divide(1.0);
	cxxKineticsComp c;
	c.Set_rate_name("R"); c.Set_m(1.0); c.Set_m0(1.0); c.Set_tol(1e-8); c.Set_moles(0.0);
	kin.Get_kinetics_comps().push_back(c);
	p->Rxn_kinetics_map[2] = kin;
	cxxSolution s; s.Set_n_user(2); s.Set_n_user_end(2);
	p->Rxn_solution_map[2] = s;
	int rc = p->run_reactions(2, 3600.0, req, 1.0);
	vf_reach("step.done");
	vf_check("step.rc", rc == OK);
	vf_check("step.equilibrium_calculations_recorded", g_nmixrec >= 2 && g_nmixrec < 16);
	vf_check("step.first_calculation_applies_the_requested_mixing", g_nmixrec >= 1 && g_mixrec[0] == req);
	bool later_none = true;
	for (int k = 1; k < g_nmixrec; k++) later_none = later_none && g_mixrec[k] == NOMIX;
	vf_check("step.later_calculations_do_not_mix_again", later_none);
}
