// @static_init cxxKinetics.cxx KineticsComp.cxx NameDouble.cxx Solution.cxx cxxMix.cxx Utils.cxx
// @id C12.transport_reaction_time
// @also C11
// @engine B
// @entry vfh_C12_transport_time
// @shared_state_watch
// @tier Q
// @opts max_steps=30000000 budget_s=300
// @reach transport.done
// @funcs Phreeqc::transport; Phreeqc::transport_cleanup
// @bounds the real TRANSPORT driver (transport(): set-up, shift loop, advective step, mixing runs) with every callee that computes chemistry replaced by a recorder: columns of 1..3 cells, 1..2 shifts, flow forward / backward / diffusion only, 0..2 mixing runs per shift (what init_mix returns), kinetic reactants defined in every cell or in none (then the times handed out are immaterial and only their sign is checked), boundary conditions flux or constant (case split); time step symbolic in [1,1e6] s
// @oracle kinetic reactions integrate exactly the time that passes: in every shift the reaction times handed to run_reactions for the column cells add up to (number of cells) x (time step) and every cell is given exactly one time step per shift - the resident water of the first cell of an advective column of two or more cells is given half a step before it moves on and the inflowing water the other half, a one-cell column gets exactly one step - whatever the number of mixing runs, the flow direction and the boundary conditions; boundary cells are never given reaction time; no call gets a negative time
// @stubs Phreeqc::run_reactions (records cell and time), init_mix (returns the chosen number of mixing runs), init_heat_mix, set_initial_moles, set_and_run_wrapper, saver, print_punch, fill_spec, mix_stag, heat_mix, multi_D, diffuse_implicit, disp_surf, mobile_surface_copy, dump, dup_print, status, screen_msg, error_msg, warning_msg, sformatf
// @outside stagnant zones (C11.stagnant_exchange_conserves covers their mixing factors), multicomponent and implicit diffusion, thermal diffusion
// @id C11.stagnant_exchange_conserves
// @engine B
// @entry vfh_C11_stagnant_mix
// @shared_state_watch
// @tier Q
// @opts max_steps=30000000 budget_s=300
// @reach transport.done
// @funcs Phreeqc::transport
// @bounds the dual-porosity set-up of the real TRANSPORT driver (-stagnant 1 with exchange factor): 1..2 mobile cells each with an immobile cell, exchange factor in [1e-7,1e-3] 1/s, mobile and immobile porosities in [0.05,0.5], time step in [1,1e4] s, mobile water mass in [0.1,10] kg and immobile water mass in proportion to the porosities (the documented set-up); all symbolic; one diffusion-only shift with one mixing run
// @oracle transport only moves dissolved mass: in the mixing recipes written for a mobile cell and its immobile cell, the share of the mobile solution that the immobile cell receives equals the share the mobile cell gives up, and vice versa (what leaves one cell arrives in the other), every fraction is within [0,1] and each recipe's own share plus the share given up is 1
// @stubs as C12.transport_reaction_time; exp() is an uninterpreted function
// @outside the mixing itself (C02.add_mix), more than one stagnant layer (explicit MIX input)
#include "Phreeqc.h"
#include "cxxKinetics.h"
#include "Solution.h"
#include "cxxMix.h"
#include "Surface.h"
#include "vf.h"
#include <new>
#include <string.h>

static int g_nmix = 0, g_errs = 0;
static int g_ncalls = 0, g_cell[256], g_step[256]; static double g_time[256];
int Phreeqc::run_reactions(int i, LDBLE kin_time, int use_mix, LDBLE step_fraction)
{
	if (g_ncalls < 256) { g_cell[g_ncalls] = i; g_time[g_ncalls] = kin_time; g_step[g_ncalls] = transport_step; g_ncalls++; }
	return OK;
}
int Phreeqc::init_mix(void) { return g_nmix; }
int Phreeqc::init_heat_mix(int l_nmix) { return 0; }
int Phreeqc::set_initial_moles(int i) { return OK; }
int Phreeqc::set_and_run_wrapper(int i, int use_mix, int use_kinetics, int nsaver, LDBLE step_fraction) { return OK; }
int Phreeqc::saver(void) { return OK; }
void Phreeqc::print_punch(int i, boolean active) { }
int Phreeqc::fill_spec(int l_cell_no, int ref_cell) { return OK; }
static std::map<int, cxxMix> *g_snapshot = 0;
int Phreeqc::mix_stag(int i, LDBLE stagkin_time, int punch, LDBLE step_fraction)
{
	/* the stagnant mixing step: this is where the recipes are used (transport_cleanup discards them afterwards) */
	if (!g_snapshot) g_snapshot = new std::map<int, cxxMix>(Rxn_mix_map);
	return OK;
}
int Phreeqc::heat_mix(int l_heat_nmix) { return OK; }
int Phreeqc::multi_D(LDBLE DDt, int mobile_cell, int stagnant) { return OK; }
void Phreeqc::diffuse_implicit(LDBLE DDt, int stagnant) { }
int Phreeqc::disp_surf(LDBLE stagkin_time) { return OK; }
cxxSurface Phreeqc::mobile_surface_copy(cxxSurface *surface_old_ptr, int n_user_new, bool move_old) { return cxxSurface(); }
int Phreeqc::dump(void) { return OK; }
int Phreeqc::dup_print(const char *cptr, int emphasis) { return OK; }
int Phreeqc::status(int count, const char *str, bool kinetics) { return OK; }
void Phreeqc::screen_msg(const char *str) { }
void Phreeqc::error_msg(const char *err_str, bool stop) { g_errs++; vf_event_s("error_msg", err_str); vf_assume(0); }
int Phreeqc::warning_msg(const char *err_str) { return OK; }
char *Phreeqc::sformatf(const char *format, ...) { static char b[4] = "msg"; return b; }

static Phreeqc *mk(int cells, int stag)
{
	Phreeqc *p = (Phreeqc *) vf_raw(sizeof(Phreeqc));
	new (&p->Rxn_solution_map) std::map<int, cxxSolution>();
	new (&p->Rxn_kinetics_map) std::map<int, cxxKinetics>();
	new (&p->Rxn_mix_map) std::map<int, cxxMix>();
	new (&p->Dispersion_mix_map) std::map<int, cxxMix>();
	new (&p->Rxn_surface_map) std::map<int, cxxSurface>();
	new (&p->cell_data) std::vector<class cell_data>();
	new (&p->elements) std::vector<class element *>();
	new (&p->use) cxxUse();
	new (&p->last_model) Model();
	new (&p->dif_spec_names) std::set<std::string>();
	p->phrq_io = new PHRQ_io();
	p->count_cells = cells; p->all_cells = (1 + stag) * cells + 2 + stag;
	p->cell_data.resize(p->all_cells + 2);
	for (int i = 0; i <= cells + 1; i++) { cxxSolution s; s.Set_n_user(i); s.Set_n_user_end(i); s.Set_mass_water(1.0); p->Rxn_solution_map[i] = s; }
	p->transport_start = 1; p->print_modulus = 1; p->punch_modulus = 1;
	p->diffc = 0.3e-9; p->tempr = 2.0; p->heat_diffc = 0.3e-9;
	return p;
}

extern "C" void vfh_C12_transport_time(void)
{
	int cells = (int) vf_int("cells", 1, 3), shifts = (int) vf_int("shifts", 1, 2), dir = (int) vf_int("flow_direction", -1, 1);
	g_nmix = (int) vf_int("mixing_runs", 0, 2);
	int kin = (int) vf_int("kinetic_reactants_defined", 0, 1), bc = (int) vf_int("boundary_conditions", 0, 1);
	vf_assume(dir != 0 || g_nmix > 0);                       /* diffusion only without any mixing run does nothing */
	Phreeqc *p = mk(cells, 0);
	double dt = vf_double("time_step", 1, 1e6);
	p->count_shifts = shifts; p->ishift = dir; p->timest = dt;
	p->bcon_first = bc ? 1 : 3; p->bcon_last = bc ? 1 : 3;
	if (kin) for (int c = 1; c <= cells; c++) { cxxKinetics k; k.Set_n_user(c); k.Set_n_user_end(c); p->Rxn_kinetics_map[c] = k; }
	int rc = p->transport();
	vf_reach("transport.done");
	vf_check("transport.rc", rc == OK && g_errs == 0);
	for (int s = 1; s <= shifts; s++)
	{
		double column = 0;
		for (int k = 0; k < g_ncalls; k++)
		{
			if (g_step[k] != s) continue;
			vf_check("time.no_reaction_time_for_boundary_cells", (g_cell[k] >= 1 && g_cell[k] <= cells) || g_time[k] == 0.0);
			vf_check("time.never_negative", g_time[k] >= 0.0);
			if (g_cell[k] >= 1 && g_cell[k] <= cells) column += g_time[k];
		}
		if (kin) vf_close("time.column_reaction_time_is_cells_times_step", column, cells * dt, 1e-12, 0);
		/* ... and every cell integrates exactly one time step per shift (the inflow cell in two halves) */
		if (kin) for (int c = 1; c <= cells; c++)
		{
			double own = 0;
			for (int k = 0; k < g_ncalls; k++) if (g_step[k] == s && g_cell[k] == c) own += g_time[k];
			vf_close("time.each_cell_integrates_one_step_per_shift", own, dt, 1e-12, 0);
		}
	}
	vf_check("time.calls_recorded", g_ncalls > 0 && g_ncalls < 256);
}

extern "C" void vfh_C11_stagnant_mix(void)
{
	int cells = (int) vf_int("cells", 1, 2);
	g_nmix = 1;
	Phreeqc *p = mk(cells, 1);
	double alpha = vf_double("exchange_factor", 1e-7, 1e-3), th_m = vf_double("mobile_porosity", 0.05, 0.5), th_im = vf_double("immobile_porosity", 0.05, 0.5);
	double dt = vf_double("time_step", 1, 1e4), wm = vf_double("mobile_water_mass", 0.1, 10);
	double wim = wm * th_im / th_m;
	p->stag_data.count_stag = 1; p->stag_data.exch_f = alpha; p->stag_data.th_m = th_m; p->stag_data.th_im = th_im;
	p->count_shifts = 1; p->ishift = 0; p->timest = dt; p->bcon_first = 3; p->bcon_last = 3;
	for (int j = 1; j <= cells; j++)
	{
		int jim = j + 1 + cells;
		p->Rxn_solution_map[j].Set_mass_water(wm);
		cxxSolution s; s.Set_n_user(jim); s.Set_n_user_end(jim); s.Set_mass_water(wim); p->Rxn_solution_map[jim] = s;
	}
	int rc = p->transport();
	vf_reach("transport.done");
	vf_check("transport.rc", rc == OK && g_errs == 0);
	for (int j = 1; j <= cells; j++)
	{
		int jim = j + 1 + cells;
		vf_check("stagnant.recipes_written", g_snapshot != 0 && g_snapshot->count(j) == 1 && g_snapshot->count(jim) == 1);
		if (!g_snapshot) return;
		std::map<int, LDBLE> m = (*g_snapshot)[j].Get_mixComps(), im = (*g_snapshot)[jim].Get_mixComps();
		vf_check("stagnant.two_sources_each", m.size() == 2 && im.size() == 2);
		/* fractions refer to whole solutions: the mobile cell keeps m[j] of itself and takes m[jim] of the immobile solution */
		vf_close("stagnant.immobile_receives_what_mobile_gives_up", im[j], 1.0 - m[j], 1e-9, 1e-12);
		vf_close("stagnant.mobile_receives_what_immobile_gives_up", m[jim], 1.0 - im[jim], 1e-9, 1e-12);
		vf_check("stagnant.fractions_within_unit_interval", m[j] >= 0 && m[j] <= 1 && im[jim] >= 0 && im[jim] <= 1 && m[jim] >= 0 && im[j] >= 0);
	}
}
