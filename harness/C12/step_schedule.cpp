// @static_init cxxKinetics.cxx KineticsComp.cxx NameDouble.cxx Utils.cxx
// @id C12.step_schedule
// @engine B
// @entry vfh_C12_step_schedule
// @shared_state_watch
// @tier Q
// @reach schedule.done
// @funcs cxxKinetics::Current_step; cxxKinetics::Get_reaction_steps
// @bounds the time schedule of a KINETICS block as the batch-reaction loop asks for it, step after step: "-steps T in n steps" with n in 1..6 (case split) and T symbolic in [1e-3,1e9] s, or an explicit list of 1..3 symbolic times; cumulative and incremental (INCREMENTAL_REACTIONS true) mode; reaction steps 1..n+2 (two beyond the defined ones)
// @oracle kinetic reactions integrate exactly the time that is asked for: with "T in n steps" the run has n steps, in incremental mode the n increments are equal and add up to T and further steps add no time; in cumulative mode step k stands at the sum of the first k increments (k T / n) and stays at T afterwards, so both modes reach the same times; an explicit list is handed out entry by entry in both modes and a step beyond the list repeats its last entry; no time is negative
// @stubs none
// @outside the integrators (C12.rk_*, C12.cvode_restart), the reading of the block
#include "cxxKinetics.h"
#include "vf.h"

extern "C" void vfh_C12_step_schedule(void)
{
	cxxKinetics k;
	int equal = (int) vf_int("T_in_n_steps", 0, 1);
	if (equal)
	{
		int n = (int) vf_int("n", 1, 6);
		double T = vf_double("T", 1e-3, 1e9);
		k.Get_steps().push_back(T); k.Set_count(n); k.Set_equalIncrements(true);
		vf_check("schedule.number_of_steps", k.Get_reaction_steps() == n);
		double sum = 0;
		for (int s = 1; s <= n + 2; s++)
		{
			double inc = k.Current_step(true, s), cum = k.Current_step(false, s);
			vf_check("schedule.no_negative_time", inc >= 0 && cum >= 0);
			if (s <= n) vf_close("schedule.equal_increments", inc, T / n, 1e-12, 0);
			else vf_check("schedule.no_time_beyond_the_last_step", inc == 0.0);
			sum += inc;
			vf_close("schedule.cumulative_time_is_sum_of_increments", cum, sum, 1e-12, 0);
		}
		vf_close("schedule.increments_add_up_to_T", sum, T, 1e-12, 0);
	}
	else
	{
		int m = (int) vf_int("list_length", 1, 3);
		static const char *NM[3] = {"t1", "t2", "t3"};
		double t[3];
		for (int i = 0; i < m; i++) { t[i] = vf_double(NM[i], 0, 1e9); k.Get_steps().push_back(t[i]); }
		k.Set_equalIncrements(false); k.Set_count(0);
		vf_check("schedule.number_of_steps", k.Get_reaction_steps() == m);
		for (int s = 1; s <= m + 2; s++)
		{
			double want = t[s <= m ? s - 1 : m - 1];
			vf_check("schedule.list_entry_by_entry", k.Current_step(true, s) == want && k.Current_step(false, s) == want);
		}
	}
	vf_reach("schedule.done");
}
