// @static_init StorageBinList.cpp Utils.cxx
// @id C14.delete_selection
// @engine B
// @entry vfh_C14_delete_selection
// @shared_state_watch
// @tier Q
// @reach delete.second_read
// @funcs StorageBinList::Read; StorageBinList::SetAll; StorageBinList::TransferAll; StorageBinListItem::Augment; CParser::get_option
// @bounds a history of two DELETE blocks read into the same instance-wide selection object with the reset the engine performs between simulations (SetAll(false)); each block is one of {-cell a, -cell a b, -solution a, -solution a-b, -exchange a, -cell a then -kinetics b} with a, b in 1..3 (case split over both blocks; quick: 3 forms x 4 number pairs for the first block, 6 forms x 6 pairs for the second; thorough: 6 x 9 for both); text is parsed by the real CParser
// @oracle after the second block the selection names exactly what the second block names: -cell n selects number n of every one of the 11 kinds, -<kind> n only that kind, the reset between simulations clears every kind, ranges a-b every number in between; nothing named only by the first block is still selected (DELETE removes exactly the named entries)
// @stubs PHRQ_io::error_msg / warning_msg (counted)
// @outside the map erase loop of delete_entities (straight-line code over the selection), RUN_CELLS/COPY which use the same reader class
#include "Phreeqc.h"
#include "StorageBinList.h"
#include "Parser.h"
#include "vf.h"
#include <sstream>
#include <string.h>
#include <stdio.h>
#ifndef VF_TIER
#define VF_TIER 1
#endif

static int g_errs = 0;
void PHRQ_io::error_msg(const char *err_str, bool stop) { g_errs++; vf_event_s("error_msg", err_str); }
void PHRQ_io::warning_msg(const char *err_str) { vf_event_s("warning_msg", err_str); }

struct Want { bool sol[4], exch[4], kin[4], any_other[4]; };
static void block(char *buf, size_t n, int form, int a, int b, Want &w)
{
	memset(&w, 0, sizeof w);
	int lo = a < b ? a : b, hi = a < b ? b : a;
	switch (form)
	{
	case 0: snprintf(buf, n, "DELETE\n -cell %d\n", a); w.sol[a] = w.exch[a] = w.kin[a] = w.any_other[a] = true; break;
	case 1: snprintf(buf, n, "DELETE\n -cell %d %d\n", a, b); w.sol[a] = w.exch[a] = w.kin[a] = w.any_other[a] = true; w.sol[b] = w.exch[b] = w.kin[b] = w.any_other[b] = true; break;
	case 2: snprintf(buf, n, "DELETE\n -solution %d\n", a); w.sol[a] = true; break;
	case 3: snprintf(buf, n, "DELETE\n -solution %d-%d\n", lo, hi); for (int i = lo; i <= hi; i++) w.sol[i] = true; break;
	case 4: snprintf(buf, n, "DELETE\n -exchange %d\n", a); w.exch[a] = true; break;
	default: snprintf(buf, n, "DELETE\n -cell %d\n -kinetics %d\n", a, b); w.sol[a] = w.exch[a] = w.kin[a] = w.any_other[a] = true; w.kin[b] = true; break;
	}
}
static void read_block(StorageBinList &sel, const char *text, PHRQ_io *io)
{
	std::string s(text);
	std::istringstream iss(s);
	CParser parser(iss, io);
	parser.set_echo_file(CParser::EO_NONE);
	std::vector<std::string> none;
	std::istream::pos_type next_char;
	parser.get_option(none, next_char);      /* consumes the keyword line, as Phreeqc::read_delete does */
	sel.Read(parser);
}
static bool has(StorageBinListItem &it, int n) { return it.Get_numbers().count(n) != 0; }

extern "C" void vfh_C14_delete_selection(void)
{
	PHRQ_io io;
	StorageBinList sel(&io);
	char t1[96], t2[96];
	Want w1, w2;
#if VF_TIER >= 2
	int f1 = (int) vf_int("first_form", 0, 5), a1 = (int) vf_int("first_a", 1, 3), b1 = (int) vf_int("first_b", 1, 3);
	int f2 = (int) vf_int("second_form", 0, 5), a2 = (int) vf_int("second_a", 1, 3), b2 = (int) vf_int("second_b", 1, 3);
#else
	int f1 = (int) vf_int("first_form", 0, 2), a1 = (int) vf_int("first_a", 1, 2), b1 = (int) vf_int("first_b", 2, 3);
	int f2 = (int) vf_int("second_form", 0, 5), a2 = (int) vf_int("second_a", 1, 3), b2 = 1 + 2 * (int) vf_int("second_b", 0, 1);
#endif
	block(t1, sizeof t1, f1, a1, b1, w1);
	block(t2, sizeof t2, f2, a2, b2, w2);
	read_block(sel, t1, &io);
	sel.SetAll(false);                       /* end of delete_entities(): "turn off delete until next read" */
	read_block(sel, t2, &io);
	vf_reach("delete.second_read");
	vf_check("delete.no_errors", g_errs == 0);
	for (int n = 1; n <= 3; n++)
	{
		vf_check("delete.solution_selection", has(sel.Get_solution(), n) == w2.sol[n]);
		vf_check("delete.exchange_selection", has(sel.Get_exchange(), n) == w2.exch[n]);
		vf_check("delete.kinetics_selection", has(sel.Get_kinetics(), n) == w2.kin[n]);
		vf_check("delete.surface_selection", has(sel.Get_surface(), n) == w2.any_other[n]);
		vf_check("delete.gas_phase_selection", has(sel.Get_gas_phase(), n) == w2.any_other[n]);
		vf_check("delete.pp_assemblage_selection", has(sel.Get_pp_assemblage(), n) == w2.any_other[n]);
		/* -cell n names number n of every kind of reactant */
		vf_check("delete.every_other_kind_selected_with_the_cell", has(sel.Get_ss_assemblage(), n) == w2.any_other[n] && has(sel.Get_mix(), n) == w2.any_other[n]
			&& has(sel.Get_reaction(), n) == w2.any_other[n] && has(sel.Get_temperature(), n) == w2.any_other[n] && has(sel.Get_pressure(), n) == w2.any_other[n]);
	}
	/* the reset between simulations reaches every kind: a kind named only by the first block is not selected any more */
	StorageBinList probe(&io);
	probe.Get_pressure().Augment(2); probe.Get_temperature().Augment(2); probe.Get_mix().Augment(2); probe.Get_reaction().Augment(2); probe.Get_ss_assemblage().Augment(2);
	probe.SetAll(false);
	vf_check("delete.reset_reaches_every_kind", !probe.Get_pressure().Get_defined() && !probe.Get_temperature().Get_defined() && !probe.Get_mix().Get_defined()
		&& !probe.Get_reaction().Get_defined() && !probe.Get_ss_assemblage().Get_defined()
		&& probe.Get_pressure().Get_numbers().empty() && probe.Get_temperature().Get_numbers().empty());
	bool any_sol = w2.sol[1] || w2.sol[2] || w2.sol[3];
	vf_check("delete.solution_defined_iff_named", sel.Get_solution().Get_defined() == any_sol);
}
