// @id C14.copy_use_saver
// @engine B
// @entry vfh_C14_copy_use_saver
// @shared_state_watch
// @tier Q
// @reach copy_use.saved
// @funcs Phreeqc::copy_use; Phreeqc::saver; Utilities::Rxn_copy; Utilities::Rxn_copies
// @bounds one instance whose keyed store holds entries 1 and 3 of all 11 entity kinds; the USE selection names entry 1 of an arbitrary subset of the kinds (quick: every subset of at most two kinds, 55 case-split paths; thorough: all 1024 subsets, symbolic flags); the SAVE bookkeeping left behind by earlier simulations is arbitrary (every flag and every first/last number symbolic in [-3,4]); scratch number -2 (the only value the engine passes)
// @oracle copy_use(-2) makes, for every kind in USE, an entry -2 whose content is the content of the used entry (description marker, n_user = n_user_end = -2) and leaves entries 1 and 3 unchanged; the intermediate SAVE that follows (saver, with the per-kind write-back routines replaced by "store a result under n") creates or overwrites entry -2 only: afterwards the key set of every kind is {1,3} plus -2 exactly for solution and for the kinds in USE - no other number is created or overwritten (markers of 1 and 3 intact), whatever the stale SAVE range was
// @stubs Phreeqc::xsolution_save / xpp_assemblage_save / xexchange_save / xsurface_save / xgas_save / xss_assemblage_save (store a default result under the number passed, and record the number)
// @outside the content of the calculated result (C02); RUN_CELLS driver loop
// @opts presplit=0
#include "Phreeqc.h"
#include "Solution.h"
#include "Exchange.h"
#include "GasPhase.h"
#include "cxxKinetics.h"
#include "PPassemblage.h"
#include "SSassemblage.h"
#include "Surface.h"
#include "cxxMix.h"
#include "Reaction.h"
#include "Temperature.h"
#include "Pressure.h"
#include "vf.h"
#include <new>
#include <string.h>
#ifndef VF_TIER
#define VF_TIER 1
#endif

static int g_saved_n[6];
int Phreeqc::xsolution_save(int n) { g_saved_n[0] = n; cxxSolution t; t.Set_n_user(n); t.Set_n_user_end(n); t.Set_description("result"); Rxn_solution_map[n] = t; return OK; }
int Phreeqc::xpp_assemblage_save(int n) { g_saved_n[1] = n; cxxPPassemblage t; t.Set_n_user(n); t.Set_n_user_end(n); t.Set_description("result"); Rxn_pp_assemblage_map[n] = t; return OK; }
int Phreeqc::xexchange_save(int n) { g_saved_n[2] = n; cxxExchange t; t.Set_n_user(n); t.Set_n_user_end(n); t.Set_description("result"); Rxn_exchange_map[n] = t; return OK; }
int Phreeqc::xsurface_save(int n) { g_saved_n[3] = n; cxxSurface t; t.Set_n_user(n); t.Set_n_user_end(n); t.Set_description("result"); Rxn_surface_map[n] = t; return OK; }
int Phreeqc::xgas_save(int n) { g_saved_n[4] = n; cxxGasPhase t; t.Set_n_user(n); t.Set_n_user_end(n); t.Set_description("result"); Rxn_gas_phase_map[n] = t; return OK; }
int Phreeqc::xss_assemblage_save(int n) { g_saved_n[5] = n; cxxSSassemblage t; t.Set_n_user(n); t.Set_n_user_end(n); t.Set_description("result"); Rxn_ss_assemblage_map[n] = t; return OK; }

template <class T> static void seed(std::map<int, T> &m)
{
	T a; a.Set_n_user(1); a.Set_n_user_end(1); a.Set_description("used"); m[1] = a;
	T b; b.Set_n_user(3); b.Set_n_user_end(3); b.Set_description("bystander"); m[3] = b;
}
template <class T> static bool marker(std::map<int, T> &m, int n, const char *d)
{
	typename std::map<int, T>::iterator it = m.find(n);
	return it != m.end() && it->second.Get_n_user() == n && it->second.Get_n_user_end() == n && it->second.Get_description() == d;
}
template <class T> static bool keys_are(std::map<int, T> &m, bool with_scratch)
{
	if (m.size() != (with_scratch ? 3u : 2u)) return false;
	if (m.find(1) == m.end() || m.find(3) == m.end()) return false;
	return !with_scratch || m.find(-2) != m.end();
}
template <class T> static void after_copy(const char *l1, const char *l2, std::map<int, T> &m, bool in)
{
	vf_check(l1, !in || marker(m, -2, "used"));
	vf_check(l2, marker(m, 1, "used") && marker(m, 3, "bystander"));
}
template <class T> static void after_save(const char *l1, const char *l2, std::map<int, T> &m, bool scratch)
{
	vf_check(l1, keys_are(m, scratch));
	vf_check(l2, marker(m, 1, "used") && marker(m, 3, "bystander"));
}

extern "C" void vfh_C14_copy_use_saver(void)
{
	Phreeqc *p = (Phreeqc *) vf_raw(sizeof(Phreeqc));
	new (&p->Rxn_solution_map) std::map<int, cxxSolution>();
	new (&p->Rxn_exchange_map) std::map<int, cxxExchange>();
	new (&p->Rxn_gas_phase_map) std::map<int, cxxGasPhase>();
	new (&p->Rxn_kinetics_map) std::map<int, cxxKinetics>();
	new (&p->Rxn_pp_assemblage_map) std::map<int, cxxPPassemblage>();
	new (&p->Rxn_ss_assemblage_map) std::map<int, cxxSSassemblage>();
	new (&p->Rxn_surface_map) std::map<int, cxxSurface>();
	new (&p->Rxn_mix_map) std::map<int, cxxMix>();
	new (&p->Rxn_reaction_map) std::map<int, cxxReaction>();
	new (&p->Rxn_temperature_map) std::map<int, cxxTemperature>();
	new (&p->Rxn_pressure_map) std::map<int, cxxPressure>();
	new (&p->use) cxxUse();
	new (&p->save) save();
	new (&p->description_x) std::string();
	p->state = REACTION;
	p->simulation = 1;
	seed(p->Rxn_solution_map); seed(p->Rxn_exchange_map); seed(p->Rxn_gas_phase_map); seed(p->Rxn_kinetics_map);
	seed(p->Rxn_pp_assemblage_map); seed(p->Rxn_ss_assemblage_map); seed(p->Rxn_surface_map); seed(p->Rxn_mix_map);
	seed(p->Rxn_reaction_map); seed(p->Rxn_temperature_map); seed(p->Rxn_pressure_map);

	bool in[11];
#if VF_TIER >= 2
	in[0] = vf_int("use_mix", 0, 1) != 0; in[1] = vf_int("use_solution", 0, 1) != 0; in[2] = vf_int("use_pp_assemblage", 0, 1) != 0;
	in[3] = vf_int("use_reaction", 0, 1) != 0; in[4] = vf_int("use_exchange", 0, 1) != 0; in[5] = vf_int("use_kinetics", 0, 1) != 0;
	in[6] = vf_int("use_surface", 0, 1) != 0; in[7] = vf_int("use_temperature", 0, 1) != 0; in[8] = vf_int("use_pressure", 0, 1) != 0;
	in[9] = vf_int("use_gas_phase", 0, 1) != 0; in[10] = vf_int("use_ss_assemblage", 0, 1) != 0;
#else
	int a = (int) vf_int("first_kind_in_use", 0, 10), b = (int) vf_int("second_kind_in_use", 0, 10);
	vf_assume(a <= b);
	for (int k = 0; k < 11; k++) in[k] = (k == a || k == b);
#endif
	cxxUse &u = p->use;
	u.Set_mix_in(in[0]); u.Set_solution_in(in[1]); u.Set_pp_assemblage_in(in[2]); u.Set_reaction_in(in[3]); u.Set_exchange_in(in[4]);
	u.Set_kinetics_in(in[5]); u.Set_surface_in(in[6]); u.Set_temperature_in(in[7]); u.Set_pressure_in(in[8]); u.Set_gas_phase_in(in[9]);
	u.Set_ss_assemblage_in(in[10]);
	u.Set_n_mix_user(1); u.Set_n_solution_user(1); u.Set_n_pp_assemblage_user(1); u.Set_n_reaction_user(1); u.Set_n_exchange_user(1);
	u.Set_n_kinetics_user(1); u.Set_n_surface_user(1); u.Set_n_temperature_user(1); u.Set_n_pressure_user(1); u.Set_n_gas_phase_user(1);
	u.Set_n_ss_assemblage_user(1);

	/* what earlier SAVE requests of this instance left behind: only the flags are reset per simulation */
	class save &s = p->save;
	s.solution = (int) vf_int("stale_save_solution", 0, 1); s.n_solution_user = (int) vf_int("stale_solution_first", -3, 4); s.n_solution_user_end = (int) vf_int("stale_solution_last", -3, 4);
	s.pp_assemblage = (int) vf_int("stale_save_pp", 0, 1); s.n_pp_assemblage_user = (int) vf_int("stale_pp_first", -3, 4); s.n_pp_assemblage_user_end = (int) vf_int("stale_pp_last", -3, 4);
	s.exchange = (int) vf_int("stale_save_exchange", 0, 1); s.n_exchange_user = (int) vf_int("stale_exchange_first", -3, 4); s.n_exchange_user_end = (int) vf_int("stale_exchange_last", -3, 4);
	s.surface = (int) vf_int("stale_save_surface", 0, 1); s.n_surface_user = (int) vf_int("stale_surface_first", -3, 4); s.n_surface_user_end = (int) vf_int("stale_surface_last", -3, 4);
	s.gas_phase = (int) vf_int("stale_save_gas", 0, 1); s.n_gas_phase_user = (int) vf_int("stale_gas_first", -3, 4); s.n_gas_phase_user_end = (int) vf_int("stale_gas_last", -3, 4);
	s.ss_assemblage = (int) vf_int("stale_save_ss", 0, 1); s.n_ss_assemblage_user = (int) vf_int("stale_ss_first", -3, 4); s.n_ss_assemblage_user_end = (int) vf_int("stale_ss_last", -3, 4);
	s.kinetics = (int) vf_int("stale_save_kinetics", 0, 1); s.n_kinetics_user = (int) vf_int("stale_kinetics_first", -3, 4); s.n_kinetics_user_end = (int) vf_int("stale_kinetics_last", -3, 4);
	s.reaction = (int) vf_int("stale_save_reaction", 0, 1); s.n_reaction_user = (int) vf_int("stale_reaction_first", -3, 4); s.n_reaction_user_end = (int) vf_int("stale_reaction_last", -3, 4);

	p->copy_use(-2);
	after_copy("copy.mix_copied", "copy.mix_sources_intact", p->Rxn_mix_map, in[0]);
	after_copy("copy.solution_copied", "copy.solution_sources_intact", p->Rxn_solution_map, in[1]);
	after_copy("copy.pp_assemblage_copied", "copy.pp_assemblage_sources_intact", p->Rxn_pp_assemblage_map, in[2]);
	after_copy("copy.reaction_copied", "copy.reaction_sources_intact", p->Rxn_reaction_map, in[3]);
	after_copy("copy.exchange_copied", "copy.exchange_sources_intact", p->Rxn_exchange_map, in[4]);
	after_copy("copy.kinetics_copied", "copy.kinetics_sources_intact", p->Rxn_kinetics_map, in[5]);
	after_copy("copy.surface_copied", "copy.surface_sources_intact", p->Rxn_surface_map, in[6]);
	after_copy("copy.temperature_copied", "copy.temperature_sources_intact", p->Rxn_temperature_map, in[7]);
	after_copy("copy.pressure_copied", "copy.pressure_sources_intact", p->Rxn_pressure_map, in[8]);
	after_copy("copy.gas_phase_copied", "copy.gas_phase_sources_intact", p->Rxn_gas_phase_map, in[9]);
	after_copy("copy.ss_assemblage_copied", "copy.ss_assemblage_sources_intact", p->Rxn_ss_assemblage_map, in[10]);

	for (int k = 0; k < 6; k++) g_saved_n[k] = -99;
	p->saver();                                  /* the write-back after an intermediate reaction step */
	vf_reach("copy_use.saved");
	vf_check("save.solution_result_under_scratch", g_saved_n[0] == -2);
	vf_check("save.pp_result_under_scratch_iff_used", g_saved_n[1] == (in[2] ? -2 : -99));
	vf_check("save.exchange_result_under_scratch_iff_used", g_saved_n[2] == (in[4] ? -2 : -99));
	vf_check("save.surface_result_under_scratch_iff_used", g_saved_n[3] == (in[6] ? -2 : -99));
	vf_check("save.gas_result_under_scratch_iff_used", g_saved_n[4] == (in[9] ? -2 : -99));
	vf_check("save.ss_result_under_scratch_iff_used", g_saved_n[5] == (in[10] ? -2 : -99));
	after_save("save.mix_keys", "save.mix_entries_intact", p->Rxn_mix_map, in[0]);
	after_save("save.solution_keys", "save.solution_entries_intact", p->Rxn_solution_map, true);
	after_save("save.pp_assemblage_keys", "save.pp_assemblage_entries_intact", p->Rxn_pp_assemblage_map, in[2]);
	after_save("save.reaction_keys", "save.reaction_entries_intact", p->Rxn_reaction_map, in[3]);
	after_save("save.exchange_keys", "save.exchange_entries_intact", p->Rxn_exchange_map, in[4]);
	after_save("save.kinetics_keys", "save.kinetics_entries_intact", p->Rxn_kinetics_map, in[5]);
	after_save("save.surface_keys", "save.surface_entries_intact", p->Rxn_surface_map, in[6]);
	after_save("save.temperature_keys", "save.temperature_entries_intact", p->Rxn_temperature_map, in[7]);
	after_save("save.pressure_keys", "save.pressure_entries_intact", p->Rxn_pressure_map, in[8]);
	after_save("save.gas_phase_keys", "save.gas_phase_entries_intact", p->Rxn_gas_phase_map, in[9]);
	after_save("save.ss_assemblage_keys", "save.ss_assemblage_entries_intact", p->Rxn_ss_assemblage_map, in[10]);
}
