// @static_init cxxKinetics.cxx KineticsComp.cxx NameDouble.cxx Utils.cxx
// @id C14.kinetics_elements_listed
// @engine B
// @entry vfh_C14_kinetics_elements
// @shared_state_watch
// @tier Q
// @reach kinetics.totals_built
// @funcs Phreeqc::calc_dummy_kinetic_reaction_tally; Phreeqc::add_elt_list; Phreeqc::elt_list_NameDouble
// @bounds the routine that derives, for the component list, the element content of a KINETICS entry: 1..3 reactants (case split), each either a single phase name found in the database (K-feldspar-like, calcite-like, halite-like phases over the elements K, Al, Si, O, Ca, C, Na, Cl) or a -formula of 1..2 terms with symbolic coefficients in [0.1,3]
// @oracle the component list reported to the caller contains every element present in any defined reactant: the totals of the entry hold, for every element, the sum over ALL its reactants of the element's coefficient (formula coefficient 1 per reactant, as the routine's "positive amount of each reactant"), nothing is lost when an entry has several reactants, and nothing stale from an earlier call survives
// @stubs Phreeqc::phase_bsearch (three phases), get_elts_in_species (element table for the formula terms)
// @outside the other entity kinds of list_components (they read stored totals); the elements of the solution master species
#include "Phreeqc.h"
#include "cxxKinetics.h"
#include "vf.h"
#include <new>
#include <string.h>

enum { EK, EAL, ESI, EO, ECA, EC, ENA, ECL, N_ELTS };
static const char *EN[N_ELTS] = {"K", "Al", "Si", "O", "Ca", "C", "Na", "Cl"};
static class element g_e[N_ELTS]; static class phase g_ph[3];
static const char *PN[3] = {"K-feldspar", "Calcite", "Halite"};
static const double PHASE[3][N_ELTS] = {{1, 1, 3, 8, 0, 0, 0, 0}, {0, 0, 0, 3, 1, 1, 0, 0}, {0, 0, 0, 0, 0, 0, 1, 1}};
/* formula terms a reactant may use instead of a phase name */
static const char *FT[3] = {"NaCl", "CaCO3", "SiO2"};
static const double FORM[3][N_ELTS] = {{0, 0, 0, 0, 0, 0, 1, 1}, {0, 0, 0, 3, 1, 1, 0, 0}, {0, 0, 1, 2, 0, 0, 0, 0}};

class phase *Phreeqc::phase_bsearch(const char *cptr, int *j, int print)
{
	for (int k = 0; k < 3; k++) if (!strcmp(cptr, PN[k])) { *j = k; return &g_ph[k]; }
	*j = -1; return NULL;
}
int Phreeqc::get_elts_in_species(const char **t_ptr, LDBLE coef)
{
	int k = -1;
	for (int i = 0; i < 3; i++) if (!strcmp(*t_ptr, FT[i])) k = i;
	if (k < 0) vf_fail("unknown formula term");
	for (int e = 0; e < N_ELTS; e++)
	{
		if (FORM[k][e] == 0) continue;
		if (count_elts + 1 >= elt_list.size()) elt_list.resize(count_elts + 2);
		elt_list[count_elts].elt = &g_e[e]; elt_list[count_elts].coef = FORM[k][e] * coef; count_elts++;
	}
	return OK;
}

extern "C" void vfh_C14_kinetics_elements(void)
{
	Phreeqc *p = (Phreeqc *) vf_raw(sizeof(Phreeqc));
	new (&p->elt_list) std::vector<class elt_list>();
	for (int e = 0; e < N_ELTS; e++) g_e[e].name = EN[e];
	for (int k = 0; k < 3; k++)
	{
		g_ph[k].name = PN[k];
		class elt_list el;
		for (int e = 0; e < N_ELTS; e++) if (PHASE[k][e] != 0) { el.elt = &g_e[e]; el.coef = PHASE[k][e]; g_ph[k].next_elt.push_back(el); }
		el.elt = NULL; el.coef = 0; g_ph[k].next_elt.push_back(el);
	}
	int n = (int) vf_int("reactants", 1, 3);
	double want[N_ELTS]; for (int e = 0; e < N_ELTS; e++) want[e] = 0;
	cxxKinetics kin;
	kin.Get_totals()["Stale"] = 5.0;                   /* left by an earlier call */
	for (int r = 0; r < n; r++)
	{
		int kind = (int) vf_int("reactant_kind", 0, 5);   /* 0..2 phase name, 3..5 formula starting with term kind-3 */
		cxxKineticsComp c; c.Set_rate_name("R");
		if (kind < 3)
		{
			c.Get_namecoef()[PN[kind]] = 1.0;
			for (int e = 0; e < N_ELTS; e++) want[e] += PHASE[kind][e];
		}
		else
		{
			int t1 = kind - 3, t2 = (t1 + 1) % 3;
			double c1 = vf_double("formula_coefficient", 0.1, 3), c2 = vf_double("formula_coefficient", 0.1, 3);
			c.Get_namecoef()[FT[t1]] = c1; c.Get_namecoef()[FT[t2]] = c2;
			for (int e = 0; e < N_ELTS; e++) want[e] += FORM[t1][e] + FORM[t2][e];
		}
		kin.Get_kinetics_comps().push_back(c);
	}
	int rc = p->calc_dummy_kinetic_reaction_tally(&kin);
	vf_reach("kinetics.totals_built");
	vf_check("kinetics.rc", rc == OK);
	size_t listed = 0;
	for (int e = 0; e < N_ELTS; e++)
	{
		cxxNameDouble::iterator it = kin.Get_totals().find(EN[e]);
		vf_check("kinetics.every_element_of_every_reactant_listed", (it != kin.Get_totals().end()) == (want[e] != 0));
		if (it != kin.Get_totals().end()) { listed++; vf_close("kinetics.element_amount", it->second, want[e], 1e-12, 0); }
	}
	vf_check("kinetics.nothing_else_listed", kin.Get_totals().size() == listed);
}
