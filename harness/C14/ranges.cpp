// @static_init ALL
// @id C14.range_expanded_once
// @engine B
// @entry vfh_C14_ranges
// @shared_state_watch
// @tier Q
// @opts max_steps=30000000
// @reach ranges.done
// @funcs Phreeqc::tidy_model; cxxKinetics::read_raw; cxxNumKeyword::read_number_description
// @bounds a number range of kinetic reactants, defined either by KINETICS_RAW 4-6 read by the real reader (Rxn_read_raw, which makes the copies itself) or by a KINETICS 4-6 block as the keyword reader stores it (one entry carrying the range, expanded by the real tidy_model of that simulation); then KINETICS_MODIFY 5 and a redefinition of 6 (amounts symbolic); then a later simulation that contains some other KINETICS block (tidy_model runs its duplication step again); case split over the two ways of definition
// @oracle numbered reactants are a keyed store: a range creates its entries once; afterwards every entry is independent - a later simulation that defines another entry leaves 4, 5 and 6 with the content they had (the modified amount of 5 and the redefined 6 are not overwritten by a copy of 4), and every number of the range exists
// @stubs every tidy_* routine tidy_model calls (recorders, harness/common/tidy_model_stubs.inc); cleanup_after_parser
// @outside the other reactant kinds (their ranges are expanded by their readers), the content of the copies (C10 round trips)
#include "Phreeqc.h"
#include "cxxKinetics.h"
#include "Utils.h"
#include "vf.h"
#include <new>
#include <sstream>
#include <string.h>
#include "../common/tidy_model_stubs.inc"

int Phreeqc::cleanup_after_parser(CParser &parser) { return OK; }

static double amount(Phreeqc *p, int n)
{
	cxxKinetics *k = Utilities::Rxn_find(p->Rxn_kinetics_map, n);
	return (k && k->Get_kinetics_comps().size() == 1) ? k->Get_kinetics_comps()[0].Get_m() : -1.0;
}

extern "C" void vfh_C14_ranges(void)
{
	Phreeqc *p = mk(1, 0, 0);
	new (&p->Rxn_new_kinetics) std::set<int>();
	int raw = (int) vf_int("defined_by_KINETICS_RAW", 0, 1);
	if (raw)
	{
		std::string text =
			"KINETICS_RAW 4-6\n -step_divide 1\n -rk 3\n -bad_step_max 500\n -use_cvode 0\n -cvode_steps 100\n -cvode_order 5\n"
			" -component R1\n  -tol 1e-08\n  -m 1\n  -m0 1\n  -namecoef\n   NaCl 1\n -equalIncrements 0\n -count 0\n -steps\n  1\nEND\n";
		std::istringstream is(text);
		p->phrq_io->push_istream(&is, false);
		p->phrq_io->get_line();
		p->reading_db = FALSE;
		Utilities::Rxn_read_raw(p->Rxn_kinetics_map, p->Rxn_new_kinetics, p);
		p->phrq_io->pop_istream();
		/* KINETICS_RAW is not counted as a KINETICS keyword */
	}
	else
	{
		cxxKinetics k; k.Set_n_user(4); k.Set_n_user_end(6);
		cxxKineticsComp c; c.Set_rate_name("R1"); c.Set_m(1.0); c.Set_m0(1.0);
		k.Get_kinetics_comps().push_back(c);
		p->Rxn_kinetics_map[4] = k;
		p->keycount[Keywords::KEY_KINETICS] = 1;
	}
	p->tidy_model();                                 /* end of the simulation that defines the range */
	vf_check("ranges.every_number_defined", amount(p, 4) == 1.0 && amount(p, 5) == 1.0 && amount(p, 6) == 1.0);
	/* KINETICS_MODIFY 5, and KINETICS 6 defined anew */
	double m5 = vf_double("modified_amount_of_5", 2, 9), m6 = vf_double("new_amount_of_6", 2, 9);
	cxxKinetics *k5 = Utilities::Rxn_find(p->Rxn_kinetics_map, 5), *k6 = Utilities::Rxn_find(p->Rxn_kinetics_map, 6);
	if (!k5 || !k6) return;
	k5->Get_kinetics_comps()[0].Set_m(m5);
	k6->Get_kinetics_comps()[0].Set_m(m6); k6->Set_n_user(6); k6->Set_n_user_end(6);
	/* a later simulation with some other KINETICS block */
	cxxKinetics k9; k9.Set_n_user(9); k9.Set_n_user_end(9);
	cxxKineticsComp c9; c9.Set_rate_name("R1"); c9.Set_m(7.0); k9.Get_kinetics_comps().push_back(c9);
	p->Rxn_kinetics_map[9] = k9;
	p->simulation = 2; p->keycount[Keywords::KEY_KINETICS] = 1;
	p->tidy_model();
	vf_reach("ranges.done");
	vf_check("ranges.entries_keep_their_content", amount(p, 4) == 1.0 && amount(p, 9) == 7.0);
	vf_check("ranges.modified_entry_not_overwritten", amount(p, 5) == m5);
	vf_check("ranges.redefined_entry_not_overwritten", amount(p, 6) == m6);
	vf_check("ranges.no_entry_invented", p->Rxn_kinetics_map.size() == 4);
}
