// @static_init ALL
// @id C14.modify_names_the_component
// @engine B
// @entry vfh_C14_modify_component
// @shared_state_watch
// @tier Q
// @opts max_steps=30000000
// @reach modify.read
// @funcs cxxPPassemblage::read_raw; cxxPPassemblageComp::read_raw; cxxExchange::read_raw; cxxExchComp::read_raw
// @bounds EQUILIBRIUM_PHASES_MODIFY and EXCHANGE_MODIFY text read by the real readers into an existing entry (check = false, as Rxn_read_modify does): an assemblage with Calcite and Dolomite, the -component line naming Calcite in the stored spelling, in lower case or in upper case; an exchanger with the components NaX and CaX2 (as DUMP writes them: -component <formula>), the -component line naming NaX by its formula in stored or lower-case spelling; the modified value symbolic through a placeholder-free concrete text (5 mol, log activity 0.5); case split
// @oracle *_MODIFY changes only the named quantities of the named entry: after the block the entry has the same components as before (none added, none lost), the named component carries the new value, all its other quantities (target saturation index, totals of the exchanger component) and every other component are unchanged; names of phases and exchange species are case-insensitive as everywhere else in the input
// @stubs PHRQ_io::error_msg / warning_msg (events)
// @outside the other *_MODIFY readers (their component look-ups are by exact key), the reading of numbers
#include <set>
#include <map>
#include "Phreeqc.h"
#include "PPassemblage.h"
#include "Exchange.h"
#include "Parser.h"
#include "vf.h"
#include <sstream>
#include <string.h>

static int g_errs = 0;
void PHRQ_io::error_msg(const char *err_str, bool stop) { g_errs++; vf_event_s("error_msg", err_str); }
void PHRQ_io::warning_msg(const char *err_str) { vf_event_s("warning_msg", err_str); }

template<class T> static void modify(const char *text, T &y, PHRQ_io *io)
{
	std::string s(text);
	std::istringstream is(s);
	io->push_istream(&is, false);
	io->get_line();
	CParser parser(io);
	y.read_raw(parser, false);
	io->clear_istream();
}

extern "C" void vfh_C14_modify_component(void)
{
	PHRQ_io io;
	int kind = (int) vf_int("kind", 0, 1), spelling = (int) vf_int("spelling", 0, 2);
	if (kind == 0)
	{
		cxxPPassemblage pp(&io); pp.Set_n_user(1); pp.Set_n_user_end(1);
		cxxPPassemblageComp a(&io); a.Set_name("Calcite"); a.Set_moles(10.0); a.Set_si(0.25);
		cxxPPassemblageComp b(&io); b.Set_name("Dolomite"); b.Set_moles(3.0); b.Set_si(-0.5);
		pp.Get_pp_assemblage_comps()["Calcite"] = a; pp.Get_pp_assemblage_comps()["Dolomite"] = b;
		static const char *T[3] = {"EQUILIBRIUM_PHASES_MODIFY 1\n -component Calcite\n  -moles 5\nEND\n", "EQUILIBRIUM_PHASES_MODIFY 1\n -component calcite\n  -moles 5\nEND\n",
			"EQUILIBRIUM_PHASES_MODIFY 1\n -component CALCITE\n  -moles 5\nEND\n"};
		modify(T[spelling], pp, &io);
		vf_reach("modify.read");
		vf_check("modify.no_errors", g_errs == 0);
		vf_check("modify.same_components_as_before", pp.Get_pp_assemblage_comps().size() == 2);
		cxxPPassemblageComp *c = pp.Find("Calcite"), *d = pp.Find("Dolomite");
		vf_check("modify.named_component_changed", c != 0 && c->Get_moles() == 5.0);
		vf_check("modify.other_quantities_unchanged", c != 0 && c->Get_si() == 0.25 && c->Get_name() == "Calcite");
		vf_check("modify.other_components_unchanged", d != 0 && d->Get_moles() == 3.0 && d->Get_si() == -0.5);
		double total = 0;
		for (std::map<std::string, cxxPPassemblageComp>::iterator it = pp.Get_pp_assemblage_comps().begin(); it != pp.Get_pp_assemblage_comps().end(); it++) total += it->second.Get_moles();
		vf_check("modify.inventory_is_modified_plus_untouched", total == 8.0);
	}
	else
	{
		vf_assume(spelling <= 1);
		cxxExchange ex(&io); ex.Set_n_user(1); ex.Set_n_user_end(1);
		cxxExchComp a(&io); a.Set_formula("NaX"); { cxxNameDouble nd; nd["Na"] = 0.1; nd["X"] = 0.1; a.Set_totals(nd); } a.Set_la(-1.0); a.Set_charge_balance(0.0);
		cxxExchComp b(&io); b.Set_formula("CaX2"); { cxxNameDouble nd; nd["Ca"] = 0.2; nd["X"] = 0.4; b.Set_totals(nd); } b.Set_la(-2.0);
		ex.Get_exchange_comps().push_back(a); ex.Get_exchange_comps().push_back(b);
		static const char *T[2] = {"EXCHANGE_MODIFY 1\n -component NaX\n  -la 0.5\nEND\n", "EXCHANGE_MODIFY 1\n -component nax\n  -la 0.5\nEND\n"};
		modify(T[spelling], ex, &io);
		vf_reach("modify.read");
		vf_check("modify.no_errors", g_errs == 0);
		vf_check("modify.same_components_as_before", ex.Get_exchange_comps().size() == 2);
		int n_nax = 0; cxxExchComp *c = 0, *d = 0;
		for (size_t j = 0; j < ex.Get_exchange_comps().size(); j++)
		{
			if (ex.Get_exchange_comps()[j].Get_formula() == "NaX") { n_nax++; c = &ex.Get_exchange_comps()[j]; }
			if (ex.Get_exchange_comps()[j].Get_formula() == "CaX2") d = &ex.Get_exchange_comps()[j];
		}
		vf_check("modify.named_component_changed", n_nax == 1 && c != 0 && c->Get_la() == 0.5);
		vf_check("modify.other_quantities_unchanged", c != 0 && c->Get_totals().size() == 2 && c->Get_totals()["Na"] == 0.1 && c->Get_totals()["X"] == 0.1);
		vf_check("modify.other_components_unchanged", d != 0 && d->Get_la() == -2.0 && d->Get_totals()["X"] == 0.4);
	}
}
