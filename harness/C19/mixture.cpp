// @static_init ALL
// @id C19.pr_mixture_two_routes
// @engine B
// @entry vfh_C19_two_routes
// @tier Q
// @opts timeout_ms=20000 budget_s=300
// @reach routes.compared
// @funcs Phreeqc::calc_PR
// @bounds a fixed-volume gas phase with 2 components with CO2-like and CH4-like constants at 298.15 or 373.15 K (case split), moles of each in [0.05,5], volume in [0.5,50] L (symbolic), molar volume above the co-volume, binary interaction k_12 = k_21 symbolic in [0.4,1]; iterations = 0 (outside the 3-root search)
// @oracle the library has two implementations of the Peng-Robinson mixture (the one used by the analytic fixed-volume gas phase and the one used for gases as EQUILIBRIUM_PHASES / the numerical fixed-volume formulation); for the same mixture at the same molar volume they give the same pressure, the same mole-fraction shares (partial pressures summing to P) and, per component, the same mixing sum and the same fugacity coefficient (rtol 1e-9) - so every gas obeys one equation of state
// @stubs Phreeqc::calc_gas_binary_parameter (symmetric symbolic k_ij, 1 on the diagonal), error_msg
// @outside cubic solve for V_m at given P; 3-root region
// @id C19.binary_parameters_symmetric
// @engine B
// @entry vfh_C19_binary_params
// @shared_state_watch
// @tier Q
// @opts max_steps=30000000
// @reach params.read
// @funcs Phreeqc::read_gas_binary_parameters; Phreeqc::calc_gas_binary_parameter; Phreeqc::get_option
// @bounds a GAS_BINARY_PARAMETERS block of 1..3 lines read by the real input reader; pair given in either order, a second pair, or the same pair defined again in the other order (case split); the coefficient is a symbolic real in [-0.5,0.9]
// @oracle the interaction coefficient is a property of the unordered pair: after the block is read, lookups (gas1,gas2) and (gas2,gas1) both return 1 - k, for the pair as written and for a second pair; a later definition of a pair replaces the earlier one (as a GAS_BINARY_PARAMETERS block in the input replaces the database's value); unrelated pairs keep their default
// @stubs PHRQ_io::error_msg / warning_msg / output_msg / echo_msg (events); the engine object is really constructed
// @outside the mixing rule that uses the coefficient (C19.pr_mixture_two_routes)
#include "Phreeqc.h"
#include "GasPhase.h"
#include "vf.h"
#include <new>
#include <sstream>
#include <string.h>
#include <math.h>

static double g_k12 = 1.0; static int g_stub_kij = 0;
static int g_err = 0;
void PHRQ_io::error_msg(const char *err_str, bool stop) { g_err++; vf_event_s("error_msg", err_str); }
void PHRQ_io::warning_msg(const char *err_str) { vf_event_s("warning_msg", err_str); }
void PHRQ_io::output_msg(const char *str) {}
void PHRQ_io::echo_msg(const char *str) {}

static class phase g_ph[2][2]; static unknown g_u[2];

extern "C" void vfh_C19_two_routes(void)
{
	const double R = 0.0820597;
	/* two representative gases (CO2-like and CH4-like constants at one of two temperatures); composition, volume and
	   interaction coefficient stay symbolic */
	int tc = (int) vf_int("temperature_case", 0, 1);
	double T = tc ? 373.15 : 298.15, V = vf_double("volume", 0.5, 50.0);
	double a[2] = {3.6, 2.25}, b[2] = {0.0267, 0.0268}, al[2] = {tc ? 0.85 : 1.0, tc ? 0.6 : 0.75}, n[2];
	for (int i = 0; i < 2; i++) n[i] = vf_double("moles", 0.05, 5.0);
	double Vm = V / (n[0] + n[1]);
	vf_assume(Vm > 0.3);
	Phreeqc *p = (Phreeqc *) vf_raw(sizeof(Phreeqc));
	p->LOG_10 = 2.302585092994046;
	new (&p->gas_unknowns) std::vector<class unknown *>();
	new (&p->gas_binary_parameters) std::map<std::pair<std::string, std::string>, double>();
	double k = vf_double("k_ij", -0.2, 0.6);
	p->gas_binary_parameters[std::make_pair(std::string("A(g)"), std::string("B(g)"))] = k;
	p->gas_binary_parameters[std::make_pair(std::string("B(g)"), std::string("A(g)"))] = k;
	cxxGasPhase *gp = (cxxGasPhase *) vf_raw(sizeof(cxxGasPhase));
	gp->type = cxxGasPhase::GP_VOLUME; gp->volume = V;
	p->use.gas_phase_ptr = gp;
	p->iterations = 0; p->tk_x = T;
	for (int r = 0; r < 2; r++) for (int i = 0; i < 2; i++)
	{
		class phase &ph = g_ph[r][i];
		ph.name = i ? "B(g)" : "A(g)"; ph.t_c = 300; ph.p_c = 50; ph.omega = 0.1;
		ph.pr_a = a[i]; ph.pr_b = b[i]; ph.pr_alpha = al[i]; ph.pr_tk = T; ph.moles_x = n[i];
	}
	/* route 1: calc_PR(void) on the gas unknowns */
	for (int i = 0; i < 2; i++) { g_u[i].moles = n[i]; g_u[i].phase = &g_ph[0][i]; p->gas_unknowns.push_back(&g_u[i]); }
	double v1 = p->calc_PR();
	double P1 = gp->total_p;
	/* route 2: calc_PR(phases, P, TK, V_m) at the same molar volume */
	std::vector<class phase *> v; v.push_back(&g_ph[1][0]); v.push_back(&g_ph[1][1]);
	p->calc_PR(v, 0.0, T, Vm);
	vf_reach("routes.compared");
	vf_assume(P1 > 1e-3);
	vf_close("routes.molar_volume", v1, Vm, 1e-9, 0);
	for (int i = 0; i < 2; i++)
	{
		vf_close("routes.fraction", g_ph[0][i].fraction_x, g_ph[1][i].fraction_x, 1e-9, 0);
		vf_close("routes.mixing_sum", g_ph[0][i].pr_aa_sum2, g_ph[1][i].pr_aa_sum2, 1e-9, 0);
		vf_close("routes.partial_pressure", g_ph[0][i].pr_p, g_ph[1][i].pr_p, 1e-9, 0);
		vf_close("routes.fugacity_coefficient_log", g_ph[0][i].pr_si_f, g_ph[1][i].pr_si_f, 1e-9, 1e-12);
		vf_close("routes.share_of_total", g_ph[0][i].pr_p, P1 * n[i] / (n[0] + n[1]), 1e-9, 0);
	}
	vf_close("routes.partial_pressures_sum_to_total", g_ph[0][0].pr_p + g_ph[0][1].pr_p, P1, 1e-9, 0);
}

extern "C" void vfh_C19_binary_params(void)
{
	PHRQ_io io;
	Phreeqc *p = new Phreeqc(&io);
	p->do_initialize();
	int order = (int) vf_int("order_as_written", 0, 1), lines = (int) vf_int("lines", 1, 3);
	double k = vf_double("k", -0.5, 0.9), k2 = vf_double("k_second_pair", -0.5, 0.9);
	std::ostringstream os; os.precision(17);
	os << (order ? "CH4(g) CO2(g) " : "CO2(g) CH4(g) ") << k << "\n";
	if (lines == 2) os << "H2O(g) CO2(g) " << k2 << "\n";
	if (lines == 3) os << (order ? "CO2(g) CH4(g) " : "CH4(g) CO2(g) ") << k2 << "\n";      /* the same pair again, other order: the later line is in force */
	os << "END\n";
	std::string text = os.str();
	std::istringstream is(text);
	io.push_istream(&is, false);
	int rv = p->read_gas_binary_parameters();
	vf_reach("params.read");
	vf_check("params.no_errors", g_err == 0 && p->input_error == 0);
	double kk = lines == 3 ? k2 : k;
	vf_close(lines == 3 ? "params.redefinition_in_force" : "params.as_written", p->calc_gas_binary_parameter(order ? "CH4(g)" : "CO2(g)", order ? "CO2(g)" : "CH4(g)"), 1.0 - kk, 1e-12, 0);
	vf_close(lines == 3 ? "params.redefinition_in_force_other_order" : "params.other_order", p->calc_gas_binary_parameter(order ? "CO2(g)" : "CH4(g)", order ? "CH4(g)" : "CO2(g)"), 1.0 - kk, 1e-12, 0);
	if (lines == 2)
	{
		vf_close("params.second_pair", p->calc_gas_binary_parameter("H2O(g)", "CO2(g)"), 1.0 - k2, 1e-12, 0);
		vf_close("params.second_pair_other_order", p->calc_gas_binary_parameter("CO2(g)", "H2O(g)"), 1.0 - k2, 1e-12, 0);
	}
	else if (lines == 1)
		vf_close("params.default_kept", p->calc_gas_binary_parameter("CO2(g)", "H2O(g)"), 0.81, 0, 0);
	vf_close("params.unrelated_pair", p->calc_gas_binary_parameter("N2(g)", "CH4(g)"), 1.0, 0, 0);
}
