// @id C19.pr_params
// @engine B
// @entry vfh_C19_pr_params
// @shared_state_watch
// @tier Q
// @reach pr_params.returned
// @funcs Phreeqc::calc_PR
// @bounds 1 gas component with zero moles (calc_PR computes the component constants and returns); T_c in [100,700] K, P_c in [10,250] atm, omega in [-0.3,0.7], T in [273.15,473.15] K; both the first-use branch (pr_a==0) and the temperature-changed branch (pr_tk != TK)
// @oracle Peng-Robinson constants: a=0.457235 R^2 Tc^2/Pc, b=0.077796 R Tc/Pc, alpha=(1+kappa(1-sqrt(T/Tc)))^2, kappa=0.37464+1.54226w-0.26992w^2, R=0.0820597 L atm/(K mol); rtol 1e-9
// @stubs Phreeqc::error_msg (event)
// @outside IEEE rounding
// @id C19.pr_eos
// @engine B
// @entry vfh_C19_pr_eos
// @shared_state_watch
// @tier Q
// @reach pr_eos.returned
// @funcs Phreeqc::calc_PR
// @bounds fixed-volume gas phase, 1 component whose a, b, alpha are independent symbols (a in [0.1,30], b in [0.01,0.2], alpha in [0.3,3]); T in [273.15,473.15] K, moles in [0.01,100], V in [0.5,100] L; only states with P>1e-3 atm, V_m > 1.5 b, Z > 1.001 B, outside the 3-root test (iterations=0)
// @oracle P=RT/(V-b)-a alpha k/(V^2+2bV-b^2); partial pressure = x P, fraction = 1; ln(phi)=B_r(Z-1)-ln(Z-B)+A/(2 sqrt2 B)(B_r-2 sum2/sum)ln((Z+(1+sqrt2)B)/(Z-(sqrt2-1)B)) clamped to [-4.6, 4.44] (phi in 0.01..85), sqrt2 constants rounded to 8 digits (4e-8 relative, inside the property's 1e-6); pr_si_f = ln(phi)/ln10; pr_phi = exp(ln phi)
// @stubs Phreeqc::calc_gas_binary_parameter (returns a symbolic k_ij in [0.4,1]); Phreeqc::error_msg (event)
// @outside Newton iteration on V_m in the 3-root region; fixed-pressure branch (dead code behind assert(false)); coupling to the solution; ln/exp are uninterpreted (functional consistency only)
#include "Phreeqc.h"
#include "vf.h"
#include <math.h>
#include <new>

#ifndef VF_TIER
#define VF_TIER 1
#endif
#define NG 1

static double g_kij[8]; static int g_nk = 0;
double Phreeqc::calc_gas_binary_parameter(std::string name1, std::string name2) const
{
	double k = vf_double("kij", 0.4, 1.0);
	if (g_nk < 8) g_kij[g_nk++] = k;
	return k;
}
void Phreeqc::error_msg(const char *err_str, bool stop) { vf_event_s("error_msg", err_str); if (stop) vf_assume(0); }

static Phreeqc *mk(cxxGasPhase **gpp, double V)
{
	Phreeqc *p = (Phreeqc *) vf_raw(sizeof(Phreeqc));
	p->LOG_10 = 2.302585092994046;
	new (&p->gas_unknowns) std::vector<class unknown *>();
	cxxGasPhase *gp = (cxxGasPhase *) vf_raw(sizeof(cxxGasPhase));
	gp->type = cxxGasPhase::GP_VOLUME;
	gp->volume = V;
	p->use.gas_phase_ptr = gp;
	p->iterations = 0;
	*gpp = gp;
	return p;
}

extern "C" void vfh_C19_pr_params(void)
{
	const double R = 0.0820597;
	cxxGasPhase *gp;
	Phreeqc *p = mk(&gp, 1.0);
	double T = p->tk_x = vf_double("tk", 273.15, 473.15);
	phase ph; unknown u;
	double Tc = ph.t_c = vf_double("t_c", 100.0, 700.0);
	double Pc = ph.p_c = vf_double("p_c", 10.0, 250.0);
	double w = ph.omega = vf_double("omega", -0.3, 0.7);
	int variant = (int) vf_int("variant", 0, 1);
	double a_old = 0;
	if (variant == 1)
	{	/* constants already present from an earlier temperature */
		a_old = ph.pr_a = vf_double("pr_a_old", 0.1, 30.0);
		ph.pr_b = vf_double("pr_b_old", 0.01, 0.2);
		ph.pr_alpha = vf_double("pr_alpha_old", 0.3, 3.0);
		ph.pr_tk = vf_double("pr_tk_old", 273.15, 473.15);
		vf_assume(ph.pr_tk != T);
	}
	double b_old = ph.pr_b;
	u.moles = 0.0;
	ph.name = "G(g)";
	u.phase = &ph;
	p->gas_unknowns.push_back(&u);
	p->calc_PR();
	vf_reach("pr_params.returned");
	double kappa = 0.37464 + 1.54226 * w - 0.26992 * w * w;
	double sq = sqrt(T / Tc);
	double alpha = (1 + kappa * (1 - sq)) * (1 + kappa * (1 - sq));
	if (variant == 0)
	{
		vf_close("pr.pr_a", ph.pr_a, 0.457235 * R * R * Tc * Tc / Pc, 1e-9, 0);
		vf_close("pr.pr_b", ph.pr_b, 0.077796 * R * Tc / Pc, 1e-9, 0);
	}
	else
	{
		vf_close("pr.pr_a.kept", ph.pr_a, a_old, 0, 0);
		vf_close("pr.pr_b.kept", ph.pr_b, b_old, 0, 0);
	}
	vf_close("pr.alpha", ph.pr_alpha, alpha, 1e-9, 0);
	vf_close("pr.pr_tk", ph.pr_tk, T, 0, 0);
}

extern "C" void vfh_C19_pr_eos(void)
{
	const double ln10 = 2.302585092994046;
	const double R = 0.0820597;
	cxxGasPhase *gp;
	double V = vf_double("volume", 0.5, 100.0);
	Phreeqc *p = mk(&gp, V);
	double T = p->tk_x = vf_double("tk", 273.15, 473.15);
	phase ph; unknown u;
	ph.t_c = 300.0; ph.p_c = 50.0; ph.omega = 0.1;
	double a = ph.pr_a = vf_double("pr_a", 0.1, 30.0);
	double b = ph.pr_b = vf_double("pr_b", 0.01, 0.2);
	double alpha = ph.pr_alpha = vf_double("pr_alpha", 0.3, 3.0);
	ph.pr_tk = T;
	double n = u.moles = vf_double("moles", 0.01, 100.0);
	ph.name = "G(g)";
	u.phase = &ph;
	p->gas_unknowns.push_back(&u);
	double Vm = V / n;
	vf_assume(Vm > 1.5 * b);

	double rv = p->calc_PR();
	vf_reach("pr_eos.returned");
	double k = g_kij[0];
	vf_check("pr.kij_calls", g_nk == 1);
	double aa = a * alpha * k;
	double P = R * T / (Vm - b) - aa / (Vm * Vm + 2 * b * Vm - b * b);
	vf_assume(P > 1e-3);
	vf_close("pr.V_m", rv, Vm, 1e-9, 0);
	vf_close("pr.total_p", gp->total_p, P, 1e-9, 0);
	vf_close("pr.partial_p", ph.pr_p, P, 1e-9, 0);       /* x = 1 */
	vf_close("pr.fraction", ph.fraction_x, 1.0, 1e-12, 0);
	double Z = P * Vm / (R * T), A = aa * P / (R * T * R * T), B = b * P / (R * T);
	vf_assume(Z > B * 1.001);
	double lnphi = 1.0 * (Z - 1) - log(Z - B) + A / (2.828427 * B) * (1.0 - 2.0 * aa / aa) * log((Z + 2.41421356 * B) / (Z - 0.41421356 * B));
	double cl = lnphi > 4.44 ? 4.44 : (lnphi < -4.6 ? -4.6 : lnphi);
	vf_close("pr.si_f", ph.pr_si_f, cl / ln10, 1e-6, 1e-9);
	vf_close("pr.phi", ph.pr_phi, exp(cl), 1e-6, 0);
}
