// @static_init PPassemblage.cxx PPassemblageComp.cxx NameDouble.cxx Solution.cxx Utils.cxx
// @id C19.each_gas_phase_alone
// @engine B
// @entry vfh_C19_pp_gases
// @shared_state_watch
// @tier Q
// @reach pp_gases.adjusted
// @funcs Phreeqc::adjust_setup_pure_phases
// @bounds an EQUILIBRIUM_PHASES assemblage of 2..3 phases in any mix of minerals and gases with critical constants (case split over which are gases), target partial pressures given as log10 P (symbolic in [-3,3.5]); the equation of state itself is replaced by an event that records which phases it is asked to treat together and returns an arbitrary fugacity correction
// @oracle a gas that is equilibrated as a pure phase at pressure P obeys the equation of state of that gas alone at P and T: the equation of state is evaluated once per gas, each time for exactly that one gas (never for a mixture of the assemblage's phases), with P = 10^target and the solution temperature; the target saturation index becomes log10 P + log10 phi of that evaluation; minerals are left alone
// @stubs Phreeqc::calc_PR(std::vector<phase*>, P, T, V_m) (records its arguments, sets pr_si_f)
// @outside the Peng-Robinson equations themselves (C19.pr_params, pr_eos, pr_mixture_two_routes)
#include "Phreeqc.h"
#include "PPassemblage.h"
#include "Solution.h"
#include "vf.h"
#include <new>
#include <math.h>

static int g_calls = 0, g_sizes[8]; static class phase *g_first[8]; static double g_P[8], g_T[8], g_phi[8];
LDBLE Phreeqc::calc_PR(std::vector<class phase *> phase_ptrs, LDBLE P, LDBLE TK, LDBLE V_m)
{
	if (g_calls < 8)
	{
		g_sizes[g_calls] = (int) phase_ptrs.size(); g_first[g_calls] = phase_ptrs.size() ? phase_ptrs[phase_ptrs.size() - 1] : 0;
		g_P[g_calls] = P; g_T[g_calls] = TK;
		for (size_t k = 0; k < phase_ptrs.size(); k++) { phase_ptrs[k]->pr_si_f = g_phi[g_calls]; phase_ptrs[k]->pr_in = true; phase_ptrs[k]->pr_p = P; phase_ptrs[k]->pr_tk = TK; }
	}
	g_calls++;
	return 1.0;
}

extern "C" void vfh_C19_pp_gases(void)
{
	Phreeqc *p = (Phreeqc *) vf_raw(sizeof(Phreeqc));
	new (&p->x) std::vector<class unknown *>();
	new (&p->use) cxxUse();
	p->LOG_10 = 2.302585092994046;
	int n = (int) vf_int("phases", 2, 3), gas_mask = (int) vf_int("which_are_gases", 0, 7);
	static class phase ph[3]; static class unknown u[3]; static cxxPPassemblageComp comp[3];
	cxxPPassemblage pp; cxxSolution sol; sol.Set_tc(vf_double("temperature_C", 0, 100));
	p->use.Set_pp_assemblage_ptr(&pp); p->use.Set_solution_ptr(&sol);
	double target[3];
	for (int i = 0; i < n; i++)
	{
		bool gas = (gas_mask >> i) & 1;
		ph[i].t_c = gas ? 300 : 0; ph[i].p_c = gas ? 70 : 0; ph[i].pr_in = false; ph[i].pr_si_f = 0;
		target[i] = vf_double("target_log10_P", -3, 3.5);
		comp[i].Set_si_org(target[i]);
		u[i].type = PP; u[i].phase = &ph[i]; u[i].pp_assemblage_comp_ptr = &comp[i]; u[i].si = target[i];
		p->x.push_back(&u[i]);
		g_phi[i] = vf_double("log10_phi", -1, 1);
	}
	p->count_unknowns = n;
	int rc = p->adjust_setup_pure_phases();
	vf_reach("pp_gases.adjusted");
	vf_check("pp_gases.rc", rc == OK);
	int ngas = 0, call = 0;
	for (int i = 0; i < n; i++)
	{
		bool gas = (gas_mask >> i) & 1;
		if (!gas) { vf_close("pp_gases.mineral_target_untouched", u[i].si, target[i], 0, 0); continue; }
		ngas++;
		vf_check("pp_gases.equation_of_state_for_this_gas_alone", call < g_calls && g_sizes[call] == 1 && g_first[call] == &ph[i]);
		if (call < g_calls)
		{
			vf_close("pp_gases.evaluated_at_target_pressure", g_P[call], exp(target[i] * p->LOG_10), 1e-12, 0);
			vf_close("pp_gases.evaluated_at_solution_temperature", g_T[call], sol.Get_tc() + 273.15, 1e-12, 0);
			vf_close("pp_gases.target_includes_fugacity_correction", u[i].si, target[i] + g_phi[call], 1e-12, 1e-12);
		}
		call++;
	}
	vf_check("pp_gases.one_evaluation_per_gas", g_calls == ngas);
}
