#!/bin/sh
# dev helper: ./t harness/Cxx/file.cpp [tier]
cd /verif
VF_TRACE=1 timeout ${T:-900} python3-vt -m vf.worker "$1" "${2:-quick}" 0 /tmp/r.$$.json 2>&1 | tail -${LINES_OUT:-25}
python3 - /tmp/r.$$.json <<'PY'
import json,sys
for r in json.load(open(sys.argv[1])):
    print(r['id'], r['status'], 'paths=',r.get('paths'), r.get('ended'), 'solver_s=',r.get('solver_s'), 'wall=',r.get('wall_s'), 'val=', (r.get('validation') or {}).get('agreed'), '/', (r.get('validation') or {}).get('vectors'))
    if r.get('error'): print('   ERROR:', r['error'][-1800:])
    if r.get('trace'): print(r['trace'][-900:])
    bad={k:v for k,v in (r.get('checks') or {}).items() if v['concrete_fail'] or v['sat'] or v['unknown']}
    if bad: print('   FAILING:', bad)
    for c in (r.get('cex') or [])[:2]: print('   CEX', c['label'], c['replayed'], c['inputs'], c.get('detail'))
    if (r.get('validation') or {}).get('mismatches'): print('   VALMISMATCH', r['validation']['mismatches'][:1])
PY
rm -f /tmp/r.$$.json
