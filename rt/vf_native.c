/* Native implementation of the vf_* harness API: encoder validation and counterexample replay.
   Inputs come from the file named by $VF_INPUTS (lines "name value"); results go to stdout. */
#include <stdio.h>
#include <stdlib.h>
#include <string.h>
#include <math.h>
#include "vf.h"

#define MAXIN 4096
static char *in_name[MAXIN]; static char *in_val[MAXIN]; static int n_in = -1;
static char *seen[MAXIN]; static int n_seen = 0;

static void load_inputs(void)
{
	n_in = 0;
	const char *f = getenv("VF_INPUTS");
	if (!f) return;
	FILE *fp = fopen(f, "r");
	if (!fp) { fprintf(stderr, "vf_native: cannot open %s\n", f); exit(3); }
	char nm[512], val[512];
	while (n_in < MAXIN && fscanf(fp, "%511s %511s", nm, val) == 2) {
		in_name[n_in] = strdup(nm); in_val[n_in] = strdup(val); n_in++;
	}
	fclose(fp);
}

static const char *lookup(const char *name)
{
	if (n_in < 0) load_inputs();
	int k = 0;
	for (int i = 0; i < n_seen; i++) if (!strcmp(seen[i], name)) k++;
	if (n_seen < MAXIN) seen[n_seen++] = strdup(name);
	char key[600];
	snprintf(key, sizeof key, "@%d", n_seen - 1);                 /* positional inputs (engine A replays) */
	for (int i = 0; i < n_in; i++) if (!strcmp(in_name[i], key)) return in_val[i];
	if (k == 0) snprintf(key, sizeof key, "%s", name); else snprintf(key, sizeof key, "%s#%d", name, k);
	for (int i = 0; i < n_in; i++) if (!strcmp(in_name[i], key)) return in_val[i];
	for (int i = 0; i < n_in; i++) if (!strcmp(in_name[i], name)) return in_val[i];
	printf("MISSING-INPUT %s\n", key); fflush(stdout); exit(4);
}

double vf_double(const char *name, double lo, double hi)
{
	double v = strtod(lookup(name), 0);
	if (!(v >= lo && v <= hi)) { printf("ASSUME-FALSE %s\n", name); fflush(stdout); exit(0); }
	return v;
}
long vf_int(const char *name, long lo, long hi)
{
	long v = strtol(lookup(name), 0, 10);
	if (!(v >= lo && v <= hi)) { printf("ASSUME-FALSE %s\n", name); fflush(stdout); exit(0); }
	return v;
}
void vf_assume(int c) { if (!c) { printf("ASSUME-FALSE\n"); fflush(stdout); exit(0); } }
void vf_reach(const char *label) { printf("REACH %s\n", label); }
void vf_check(const char *label, int c) { printf("CHECK %s %d\n", label, c ? 1 : 0); fflush(stdout); }
void vf_close(const char *label, double impl, double ref, double rtol, double atol)
{
	int ok;
	if (isnan(impl) || isnan(ref)) ok = isnan(impl) && isnan(ref);
	else if (isinf(impl) || isinf(ref)) ok = impl == ref;
	else ok = fabs(impl - ref) <= atol + rtol * (fabs(impl) + fabs(ref));
	printf("CLOSE %s %d %.17g %.17g\n", label, ok, impl, ref); fflush(stdout);
}
void vf_event(const char *sink, long a, long b) { printf("EVENT %s %ld %ld\n", sink, a, b); }
void vf_event_d(const char *sink, double a) { printf("EVENTD %s %.17g\n", sink, a); }
void vf_event_s(const char *sink, const char *s) { printf("EVENTS %s %s\n", sink, s ? s : "<null>"); }
void *vf_raw(size_t n) { void *p = calloc(1, n ? n : 1); if (!p) exit(5); return p; }
void vf_fail(const char *why) { printf("HARNESS-FAIL %s\n", why); fflush(stdout); exit(6); }

void vf_file(const char *name, const char *content)
{
	FILE *fp = fopen(name, "w");
	if (!fp) { printf("HARNESS-FAIL cannot create %s\n", name); exit(6); }
	fputs(content, fp); fclose(fp);
}
#include <sys/stat.h>
void vf_unwritable(const char *name) { remove(name); mkdir(name, 0755); }   /* a directory cannot be opened as a file */
#ifndef VF_NO_CXX
long vf_stream_content_cxx(void *is, char *buf, long cap);   /* rt/vf_native_cxx.cpp */
long vf_stream_content(void *is, char *buf, long cap) { return vf_stream_content_cxx(is, buf, cap); }
#endif

void vf_guarded(void *p, size_t n, void *mutex, const char *name) { (void) p; (void) n; (void) mutex; (void) name; }
void vf_guard_enable(int on) { (void) on; }
#ifdef VF_WATCH_TABLE
/* confirmation build (vf/runner.py build_watch_native): the variables engine B saw written sit alone on pages of
 * section "vfwatch"; while the watch is on the pages are read-only and the first store to each is reported */
#include <signal.h>
#include <sys/mman.h>
#include <unistd.h>
#include <stdint.h>
extern char __start_vfwatch[], __stop_vfwatch[];
extern long vf_watch_n; extern char *vf_watch_addr[]; extern long vf_watch_size[]; extern char *vf_watch_names[];
static int vf_watch_on = 0;
static void vf_on_segv(int sig, siginfo_t *si, void *ctx)
{
	char *a = (char *) si->si_addr;
	(void) ctx;
	if (vf_watch_on && a >= __start_vfwatch && a < __stop_vfwatch)
	{
		for (long i = 0; i < vf_watch_n; i++)
		{
			uintptr_t lo = (uintptr_t) vf_watch_addr[i] & ~(uintptr_t) 4095;
			uintptr_t hi = ((uintptr_t) vf_watch_addr[i] + (uintptr_t) vf_watch_size[i] + 4095) & ~(uintptr_t) 4095;
			if ((uintptr_t) a >= lo && (uintptr_t) a < hi)
			{
				char b[256];
				int n = snprintf(b, sizeof b, "CHECK lock.discipline.%s 0\n", vf_watch_names[i]);
				fflush(stdout);
				(void) !write(1, b, (size_t) n);
				mprotect((void *) lo, hi - lo, PROT_READ | PROT_WRITE);   /* report once, then let the store through */
				return;
			}
		}
		mprotect(__start_vfwatch, (size_t) (__stop_vfwatch - __start_vfwatch), PROT_READ | PROT_WRITE);
		return;
	}
	signal(sig, SIG_DFL);
	raise(sig);
}
void vf_watch_shared_state(int on)
{
	static int installed = 0;
	size_t len = (size_t) (__stop_vfwatch - __start_vfwatch) & ~(size_t) 4095;
	if (!installed)
	{
		struct sigaction sa;
		memset(&sa, 0, sizeof sa);
		sa.sa_sigaction = vf_on_segv; sa.sa_flags = SA_SIGINFO | SA_NODEFER;
		sigaction(SIGSEGV, &sa, 0);
		installed = 1;
	}
	fflush(stdout);
	vf_watch_on = on;
	mprotect(__start_vfwatch, len, on ? PROT_READ : (PROT_READ | PROT_WRITE));
}
#else
void vf_watch_shared_state(int on) { (void) on; }
#endif
long vf_locks_held(void) { return 0; }

/* layout tables are exported by engine B (build dir, file layout.<type>.txt: "offset size kind") */
static char (*lay_names)[64];
static int load_layout(const char *type_name, long **offs, long **sizes, char **kinds)
{
	char path[1024]; const char *dir = getenv("VF_LAYOUT_DIR");
	snprintf(path, sizeof path, "%s/layout.%s.txt", dir ? dir : ".", type_name);
	FILE *fp = fopen(path, "r");
	if (!fp) { printf("HARNESS-FAIL no layout table %s\n", path); exit(6); }
	int cap = 1 << 16, n = 0; *offs = malloc(cap * sizeof(long)); *sizes = malloc(cap * sizeof(long)); *kinds = malloc(cap);
	lay_names = malloc((size_t) cap * 64);
	long o, s; char k; char nm[256];
	while (n < cap && fscanf(fp, "%ld %ld %c %255s", &o, &s, &k, nm) == 4) { (*offs)[n] = o; (*sizes)[n] = s; (*kinds)[n] = k; strncpy(lay_names[n], nm, 63); lay_names[n][63] = 0; n++; }
	fclose(fp);
	return n;
}
static int has_prefix(const char *name, const char *prefixes)
{
	const char *q = prefixes;
	while (q && *q)
	{
		const char *e = strchr(q, '|'); size_t len = e ? (size_t) (e - q) : strlen(q);
		if (len && strncmp(name, q, len) == 0) return 1;
		q = e ? e + 1 : 0;
	}
	return 0;
}
void vf_havoc_except(void *p, const char *type_name, const char *skip)
{
	long *o, *s; char *k; int n = load_layout(type_name, &o, &s, &k);
	for (int i = 0; i < n; i++) if (k[i] != 'p' && !has_prefix(lay_names[i], skip)) memset((char *) p + o[i], 0x5A, (size_t) s[i]);
}
void vf_havoc(void *p, const char *type_name) { vf_havoc_except(p, type_name, ""); }
void vf_same_scalars_except(const char *label, void *a, void *b, const char *type_name, const char *skip)
{
	long *o, *s; char *k; int n = load_layout(type_name, &o, &s, &k), bad = 0;
	for (int i = 0; i < n; i++)
	{
		int diff;
		if (has_prefix(lay_names[i], skip)) continue;
		if (k[i] == 'p' || k[i] == 'f') diff = ((*(void **) ((char *) a + o[i])) == 0) != ((*(void **) ((char *) b + o[i])) == 0);
		else diff = memcmp((char *) a + o[i], (char *) b + o[i], (size_t) s[i]) != 0;
		if (diff) { bad++; if (bad <= 20) printf("EVENT %s.differs_at_offset %ld %ld\n", label, o[i], s[i]); }
	}
	printf("CHECK %s %d\n", label, bad == 0); fflush(stdout);
}
void vf_same_scalars(const char *label, void *a, void *b, const char *type_name) { vf_same_scalars_except(label, a, b, type_name, ""); }

#ifdef VF_ENTRY
void VF_ENTRY(void);
int main(void)
{
#if defined(VF_WATCH_TABLE) && defined(VF_WATCH_AT_ENTRY)
	vf_watch_shared_state(1);          /* derived C06 obligations watch from the entry on, as engine B does */
#endif
	VF_ENTRY();
#if defined(VF_WATCH_TABLE)
	vf_watch_shared_state(0);
#endif
	printf("DONE\n");
	return 0;
}
#endif
