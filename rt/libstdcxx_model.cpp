// Out-of-line libstdc++ pieces that the slices reference, provided as IR so that both engines execute
// real code: std::basic_string<char> members are explicitly instantiated from the libstdc++ headers;
// the red-black tree primitives (compiled in libstdc++.so, not in headers) are re-implemented as a plain
// ordered binary tree (no balancing: balance is not observable through find/insert/erase/iterate).
#include <string>
#include <map>
#include <list>

template class std::__cxx11::basic_string<char>;

namespace std {
typedef _Rb_tree_node_base *Bp;

static Bp vf_min(Bp x) { while (x->_M_left) x = x->_M_left; return x; }
static Bp vf_max(Bp x) { while (x->_M_right) x = x->_M_right; return x; }

_Rb_tree_node_base *_Rb_tree_increment(_Rb_tree_node_base *x) throw()
{
	if (x->_M_right) return vf_min(x->_M_right);
	Bp y = x->_M_parent;
	while (x == y->_M_right) { x = y; y = y->_M_parent; }
	if (x->_M_right != y) x = y;
	return x;
}
const _Rb_tree_node_base *_Rb_tree_increment(const _Rb_tree_node_base *x) throw()
{ return _Rb_tree_increment(const_cast<Bp>(x)); }

_Rb_tree_node_base *_Rb_tree_decrement(_Rb_tree_node_base *x) throw()
{
	if (x->_M_color == _S_red && x->_M_parent->_M_parent == x) return x->_M_right;   /* header */
	if (x->_M_left) return vf_max(x->_M_left);
	Bp y = x->_M_parent;
	while (x == y->_M_left) { x = y; y = y->_M_parent; }
	return y;
}
const _Rb_tree_node_base *_Rb_tree_decrement(const _Rb_tree_node_base *x) throw()
{ return _Rb_tree_decrement(const_cast<Bp>(x)); }

void _Rb_tree_insert_and_rebalance(const bool insert_left, _Rb_tree_node_base *x, _Rb_tree_node_base *p,
				   _Rb_tree_node_base &header) throw()
{
	x->_M_parent = p; x->_M_left = 0; x->_M_right = 0; x->_M_color = _S_black;
	if (insert_left)
	{
		p->_M_left = x;                 /* also makes leftmost = x when p == &header */
		if (p == &header) { header._M_parent = x; header._M_right = x; }
		else if (p == header._M_left) header._M_left = x;
	}
	else
	{
		p->_M_right = x;
		if (p == header._M_right) header._M_right = x;
	}
	header._M_color = _S_red;           /* header is red, root black: distinguishes header in decrement */
}

_Rb_tree_node_base *_Rb_tree_rebalance_for_erase(_Rb_tree_node_base *const z, _Rb_tree_node_base &header) throw()
{
	Bp &root = header._M_parent, &leftmost = header._M_left, &rightmost = header._M_right;
	Bp repl;                            /* subtree that takes z's place */
	if (!z->_M_left) repl = z->_M_right;
	else if (!z->_M_right) repl = z->_M_left;
	else
	{	/* two children: splice successor y into z's position */
		Bp y = vf_min(z->_M_right);
		Bp yr = y->_M_right;
		if (y->_M_parent != z)
		{
			y->_M_parent->_M_left = yr;
			if (yr) yr->_M_parent = y->_M_parent;
			y->_M_right = z->_M_right;
			z->_M_right->_M_parent = y;
		}
		y->_M_left = z->_M_left;
		z->_M_left->_M_parent = y;
		repl = y;
	}
	Bp zp = z->_M_parent;
	if (root == z) root = repl;
	else if (zp->_M_left == z) zp->_M_left = repl;
	else zp->_M_right = repl;
	if (repl) repl->_M_parent = zp;
	if (leftmost == z) leftmost = root ? vf_min(root) : &header;
	if (rightmost == z) rightmost = root ? vf_max(root) : &header;
	if (root) { /* keep colours irrelevant but consistent */ root->_M_color = _S_black; }
	return z;
}

namespace __detail {
void _List_node_base::_M_hook(_List_node_base *const position) noexcept
{
	this->_M_next = position;
	this->_M_prev = position->_M_prev;
	position->_M_prev->_M_next = this;
	position->_M_prev = this;
}
void _List_node_base::_M_unhook() noexcept
{
	_List_node_base *const next_node = this->_M_next;
	_List_node_base *const prev_node = this->_M_prev;
	prev_node->_M_next = next_node;
	next_node->_M_prev = prev_node;
}
}
}

/* the C library sort, so that the engine's own comparators run in the encoding: a stable insertion sort
 * (what is sorted, not how, is what the callers rely on; the real qsort gives the same result for the
 * total orders used and any consistent result otherwise) */
#include <stdlib.h>
#include <string.h>
#undef qsort
extern "C" void qsort(void *base, size_t n, size_t size, int (*cmp)(const void *, const void *))
{
	if (n < 2 || size == 0) return;
	char *b = (char *) base;
	char *tmp = (char *) malloc(size);
	if (!tmp) abort();
	for (size_t i = 1; i < n; i++)
	{
		memcpy(tmp, b + i * size, size);
		size_t j = i;
		while (j > 0 && cmp(b + (j - 1) * size, tmp) > 0)
		{
			memcpy(b + j * size, b + (j - 1) * size, size);
			j--;
		}
		memcpy(b + j * size, tmp, size);
	}
	free(tmp);
}

/* <stdlib.h> carries an extern-inline bsearch; the out-of-line symbol is defined under an asm label */
extern "C" void *vf_bsearch_model(const void *key, const void *base, size_t n, size_t size, int (*cmp)(const void *, const void *)) __asm__("bsearch");
extern "C" void *vf_bsearch_model(const void *key, const void *base, size_t n, size_t size, int (*cmp)(const void *, const void *))
{
	const char *b = (const char *) base;
	size_t lo = 0, hi = n;
	while (lo < hi)
	{
		size_t mid = lo + (hi - lo) / 2;
		const void *p = b + mid * size;
		int c = cmp(key, p);
		if (c == 0) return (void *) p;
		if (c < 0) hi = mid; else lo = mid + 1;
	}
	return 0;
}
