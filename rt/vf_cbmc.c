/* vf_* API for CBMC (engine A): inputs are nondeterministic values; each one is also stored in vf_in_val[] so that
   the counterexample trace shows them in call order (replayed natively as positional inputs "@k"). */
#include "vf.h"
long nondet_long(void);
double nondet_double(void);
double vf_in_dval[64]; long vf_in_lval[64]; int vf_in_kind[64]; int vf_in_n = 0;
int vf_reached = 0;

double vf_double(const char *name, double lo, double hi)
{
	double v = nondet_double();
	__CPROVER_assume(v >= lo && v <= hi);
	if (vf_in_n < 64) { vf_in_kind[vf_in_n] = 1; vf_in_dval[vf_in_n] = v; vf_in_n++; }
	return v;
}
long vf_int(const char *name, long lo, long hi)
{
	long v = nondet_long();
	__CPROVER_assume(v >= lo && v <= hi);
	if (vf_in_n < 64) { vf_in_kind[vf_in_n] = 2; vf_in_lval[vf_in_n] = v; vf_in_n++; }
	return v;
}
void vf_assume(int c) { __CPROVER_assume(c); }
void vf_reach(const char *label)
{
	vf_reached = 1;
#ifdef VF_WITNESS
	__CPROVER_assert(0, "VF-WITNESS reachable");
#endif
}
void vf_event(const char *sink, long a, long b) {}
void vf_event_d(const char *sink, double a) {}
void vf_event_s(const char *sink, const char *s) {}
void vf_fail(const char *why) { __CPROVER_assert(0, "harness failure"); }
