/* vf.h — harness API shared by the symbolic engines and the native replay.
   A harness is ordinary C++ against the real headers; the vf_* calls are
   interpreted by the engine (symbolic variables, assumptions, obligations)
   and implemented natively by rt/vf_native.c for encoder validation/replay. */
#ifndef VF_H
#define VF_H
#include <stddef.h>
#ifdef __cplusplus
extern "C" {
#endif
double vf_double(const char *name, double lo, double hi); /* arbitrary real in [lo,hi] */
long   vf_int(const char *name, long lo, long hi);        /* arbitrary integer in [lo,hi] */
void   vf_assume(int c);
void   vf_reach(const char *label);                       /* vacuity witness: must be reachable */
void   vf_check(const char *label, int c);                /* obligation: c holds on every path */
void   vf_close(const char *label, double impl, double ref, double rtol, double atol);
void   vf_event(const char *sink, long a, long b);        /* integer-valued trace event */
void   vf_event_d(const char *sink, double a);            /* double-valued trace event */
void   vf_event_s(const char *sink, const char *s);       /* string-valued trace event */
void  *vf_raw(size_t n);                                  /* zero-filled raw storage */
void   vf_fail(const char *why);
/* virtual file system + stream inspection for API-layer harnesses */
void   vf_file(const char *name, const char *content);      /* make `name` openable with this content */
void   vf_unwritable(const char *name);                      /* opening `name` for writing fails */
long   vf_stream_content(void *istream, char *buf, long cap); /* copy the unread content of an input stream */
/* lock discipline (Eraser style): every access to [p,p+n) must happen while `mutex` is held (engine B only;
   a no-op natively: violations are confirmed by a multi-threaded stress run, see @opts confirm=stress) */
/* whole-object frame checks driven by the IR struct layout of `type_name` (e.g. "class.Phreeqc"); members of
   libstdc++ types are treated as opaque containers and skipped */
void   vf_havoc(void *p, const char *type_name);                       /* scribble over every int/double leaf */
void   vf_havoc_except(void *p, const char *type_name, const char *skip_prefixes); /* same, but members whose name starts with one of the |-separated prefixes keep their value */
void   vf_same_scalars(const char *label, void *a, void *b, const char *type_name);  /* obligation: leaf-wise equal */
void   vf_same_scalars_except(const char *label, void *a, void *b, const char *type_name, const char *skip_prefixes);
void   vf_guarded(void *p, size_t n, void *mutex, const char *name);
void   vf_guard_enable(int on);
void   vf_watch_shared_state(int on);              /* engine B: stores to process-wide mutable library state need a lock from here on */
long   vf_locks_held(void);                          /* harness-internal error (never a violation) */
#ifdef __cplusplus
}
#endif
#ifdef VF_CBMC
/* engine A: obligations are CBMC assertions (the description must be a literal) */
#define vf_check(label, c) __CPROVER_assert((c), label)
#define vf_close(label, impl, ref, rtol, atol) __CPROVER_assert((impl) == (ref), label)
#endif
#endif
