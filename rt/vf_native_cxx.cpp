// C++ part of the native vf runtime
#include <istream>
#include <string.h>
extern "C" long vf_stream_content_cxx(void *is, char *buf, long cap)
{
	std::istream *s = (std::istream *) is;
	long n = 0;
	int c;
	while (n < cap - 1 && (c = s->get()) != EOF) buf[n++] = (char) c;
	buf[n] = 0;
	return n;
}
