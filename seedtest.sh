#!/bin/sh
# usage: seedtest.sh <patch.diff> <property> [extra check args]   -- applies a seeded change to /repo, runs the check, reverts
patch="$1"; prop="$2"; shift 2
git -C /repo apply "$patch" || exit 9
cd /verif && ./check "$prop" --no-evidence "$@"
rc=$?
git -C /repo checkout -- .
echo "seedtest rc=$rc"
exit $rc
