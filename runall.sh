#!/bin/sh
# runall.sh [quick|thorough]: run every claimed check on /repo and collect exit codes (evidence files are rewritten)
tier=${1:-quick}
cd /verif
for p in $(python3 -c "
import json
for c in json.load(open('MANIFEST.json'))['checks']: print(c['property_id'])"); do
  start=$(date +%s)
  ./check $p --tier $tier > build/run.$p.$tier.log 2>&1
  rc=$?
  echo "$p rc=$rc $(( $(date +%s) - start ))s $(grep -c ' pass ' build/run.$p.$tier.log) pass, $(grep -c 'inconclusive' build/run.$p.$tier.log) inconclusive, $(grep -c ' error ' build/run.$p.$tier.log) error, $(grep -c 'VIOLATION' build/run.$p.$tier.log) violation, $(grep -c 'KNOWN-FINDING' build/run.$p.$tier.log) known"
done
