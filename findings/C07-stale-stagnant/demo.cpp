#include "IPhreeqc.hpp"
#include <iostream>
#include <cstdio>
#include <string>
static const char *COLUMN =
  "SOLUTION 0\n Na 1\n Cl 1\nSOLUTION 1-2\n Na 1\n Cl 1\nSOLUTION 4-5\n K 100\n Cl 100\nEND\n";
static std::string probe(IPhreeqc &ip, const char *what)
{
	ip.SetSelectedOutputStringOn(true);
	std::string in = std::string(COLUMN) +
	  "SELECTED_OUTPUT 1\n -reset false\n -totals K Na\nTRANSPORT\n -cells 2\n -shifts 2\n -time_step 1e5\n -stagnant 1\n -punch_cells 1-2\nEND\n";
	int rc = ip.RunString(in.c_str());
	std::string s = ip.GetSelectedOutputString();
	printf("%-30s rc=%d\n%s", what, rc, s.c_str());
	if (rc) printf("%s\n", ip.GetErrorString());
	return s;
}
int main(){
  IPhreeqc fresh, used;
  fresh.LoadDatabase("/repo/database/phreeqc.dat"); used.LoadDatabase("/repo/database/phreeqc.dat");
  std::string first = std::string(COLUMN) + "TRANSPORT\n -cells 2\n -shifts 1\n -time_step 1e5\n -stagnant 1 6.8e-6 0.3 0.1\nEND\n";
  int rc = used.RunString(first.c_str());
  printf("first transport run rc=%d; reload rc=%d\n", rc, used.LoadDatabase("/repo/database/phreeqc.dat"));
  std::string a = probe(fresh, "fresh instance:");
  std::string b = probe(used, "after earlier run + reload:");
  printf(a == b ? "SAME\n" : "DIFFERENT\n");
  return a == b ? 0 : 1;
}
