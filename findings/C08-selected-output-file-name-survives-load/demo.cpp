/* C08 / C07: a selected-output file name taken from a failed run survives LoadDatabase.
 * build: g++ -std=c++14 -I/repo/src -I/repo/src/phreeqcpp -I/repo/src/phreeqcpp/common -I/repo/src/phreeqcpp/PhreeqcKeywords demo.cpp /repo/_build/libIPhreeqcrwd.a -lpthread -o demo */
#include <stdio.h>
#include "IPhreeqc.hpp"
int main(void)
{
	IPhreeqc p; p.LoadDatabase("/repo/database/phreeqc.dat");
	p.SetSelectedOutputFileOn(true);
	int rc1 = p.RunString("SOLUTION 1\nSELECTED_OUTPUT 1\n-file /nonexistent_dir/x.sel\n-pH\nEND\n");
	printf("run with an unwritable -file: %d\n", rc1);
	int rl = p.LoadDatabase("/repo/database/phreeqc.dat");
	p.SetSelectedOutputFileOn(true); p.SetSelectedOutputFileName("/tmp/c08_sel_demo.out");
	p.SetSelectedOutputFileName("/tmp/c08_sel_demo.out");
	IPhreeqc q; q.LoadDatabase("/repo/database/phreeqc.dat"); q.SetSelectedOutputFileOn(true);
	printf("LoadDatabase: %d; selected-output file name after the load: reloaded instance \"%s\"\n", rl, p.GetSelectedOutputFileName());
	IPhreeqc r; r.LoadDatabase("/repo/database/phreeqc.dat"); r.SetSelectedOutputFileOn(true);
	r.RunString("SOLUTION 1\nSELECTED_OUTPUT 1\n-file /nonexistent_dir/x.sel\n-pH\nEND\n");
	r.LoadDatabase("/repo/database/phreeqc.dat"); r.SetSelectedOutputFileOn(true);
	int rc2 = r.RunString("SOLUTION 1\nSELECTED_OUTPUT 1\n-pH\nEND\n");
	printf("valid run after failed run + reload returns %d %s", rc2, rc2 ? r.GetErrorString() : "\n");
	remove("/tmp/c08_sel_demo.out");
	return rc2;
}
