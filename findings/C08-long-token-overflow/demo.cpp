/* C08: a token of more than 255 characters after a keyword option.
 * build: g++ -std=c++14 -I/repo/src -I/repo/src/phreeqcpp -I/repo/src/phreeqcpp/common -I/repo/src/phreeqcpp/PhreeqcKeywords demo.cpp /repo/_build/libIPhreeqcrwd.a -lpthread -o demo */
#include <stdio.h>
#include <string>
#include "IPhreeqc.hpp"
int main(void)
{
	IPhreeqc p; p.LoadDatabase("/repo/database/phreeqc.dat");
	std::string in = "PRINT\n -reset " + std::string(3000, 't') + "\nEND\n";
	int rc = p.RunString(in.c_str());
	printf("RunString returned %d\n%s", rc, p.GetErrorString());
	rc = p.RunString("SOLUTION 1\nEND\n");
	printf("a valid run afterwards returns %d\n", rc);
	return rc;
}
