/* C14: the component list after a run that stops on an error.
 * build: g++ -std=c++14 -I/repo/src -I/repo/src/phreeqcpp -I/repo/src/phreeqcpp/common -I/repo/src/phreeqcpp/PhreeqcKeywords demo.cpp /repo/_build/libIPhreeqcrwd.a -lpthread -o demo */
#include <stdio.h>
#include <string>
#include "IPhreeqc.hpp"
static std::string comps(IPhreeqc &p) { std::string s; for (size_t i = 0; i < p.GetComponentCount(); i++) { s += p.GetComponent((int) i); s += " "; } return s; }
int main(void)
{
	IPhreeqc p; p.LoadDatabase("/repo/database/phreeqc.dat"); p.SetDumpStringOn(true);
	p.RunString("SOLUTION 1\n Na 1\n Cl 1\nEND\n");
	printf("after run 1: %s\n", comps(p).c_str());
	int rc = p.RunString("SOLUTION 2\n K 1\n Br 1\nEND\nUSE solution 99\nREACTION 1\n NaCl 1\n 1 mmol\nEND\n");
	std::string c = comps(p);
	printf("run 2 returned %d (stopped: solution 99 not found); components reported: %s\n", rc, c.c_str());
	p.RunString("DUMP\n -solution 2\nEND\n");
	bool defined = std::string(p.GetDumpString()).find("SOLUTION_RAW") != std::string::npos && std::string(p.GetDumpString()).find("Br") != std::string::npos;
	printf("solution 2 (K, Br) is defined: %s\n", defined ? "yes" : "no");
	return defined && c.find("Br") == std::string::npos;
}
