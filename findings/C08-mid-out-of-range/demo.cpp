#include <string.h>
#include <stdio.h>
#include "IPhreeqc.hpp"
int main(void)
{
	IPhreeqc p; p.LoadDatabase("/repo/database/phreeqc.dat"); p.SetOutputStringOn(true);
	int rc = p.RunString("SOLUTION 1\nUSER_PRINT\n-start\n10 a$ = MID$(\"abc\", 7)\n20 PRINT \"got:\", a$\n-end\nEND\n");
	printf("returned %d: %s\n", rc, p.GetErrorString());
	const char *o = p.GetOutputString(); const char *q = strstr(o, "User print"); printf("%.300s\n", q ? q : "(no user print)");
	return 0;
}
