/* C10/C14: SOLUTION_MODIFY -totals with a valence-state name leaves the plain element total in place.
 * build: g++ -std=c++14 -I/repo/src -I/repo/src/phreeqcpp -I/repo/src/phreeqcpp/common -I/repo/src/phreeqcpp/PhreeqcKeywords demo.cpp /repo/_build/libIPhreeqcrwd.a -lpthread -o demo */
#include <stdio.h>
#include <string.h>
#include <string>
#include "IPhreeqc.hpp"
int main(void)
{
	IPhreeqc p; p.LoadDatabase("/repo/database/phreeqc.dat"); p.SetDumpStringOn(true);
	const char *in =
		"SOLUTION_RAW 1\n -temp 25\n -total_h 111.0124\n -total_o 55.5062\n -cb 0\n -totals\n  Fe 1e-3\n  Cl 2e-3\n"
		" -pH 7\n -pe 4\n -mu 1e-3\n -ah2o 1\n -mass_water 1\n -soln_vol 1\n -total_alkalinity 0\n"
		"SOLUTION_MODIFY 1\n -totals\n  Fe(2) 4e-4\n"
		"DUMP\n -solution 1\nEND\n";
	if (p.RunString(in)) { puts(p.GetErrorString()); return 2; }
	std::string d = p.GetDumpString();
	size_t t = d.find("-totals");
	std::string totals = d.substr(t, d.find("-pH", t) - t);
	printf("%s\n", totals.c_str());
	bool plain = totals.find(" Fe  ") != std::string::npos || totals.find("\n    Fe ") != std::string::npos, state = totals.find("Fe(2)") != std::string::npos;
	printf("plain Fe total %s, Fe(2) total %s\n", plain ? "present" : "absent", state ? "present" : "absent");
	return plain && state;
}
