#include <stdio.h>
#include <string.h>
#include <string>
#include <fstream>
#include <sstream>
#include "IPhreeqc.hpp"
int main(void)
{
	IPhreeqc p; p.LoadDatabase("/repo/database/phreeqc.dat");
	p.SetSelectedOutputFileOn(true); p.SetSelectedOutputStringOn(true); p.SetSelectedOutputFileName("redef.sel");
	int rc = p.RunString("SOLUTION 1\n Na 1\nSELECTED_OUTPUT 1\n -pH\nEND\nSOLUTION 2\n K 1\nSELECTED_OUTPUT 1\n -pe\nEND\n");
	std::ifstream f("redef.sel"); std::stringstream ss; ss << f.rdbuf();
	std::string file = ss.str(), str = p.GetSelectedOutputString();
	printf("rc=%d file %zu bytes, string %zu bytes, %s\n", rc, file.size(), str.size(), file == str ? "identical" : "DIFFERENT");
	return file != str;
}
