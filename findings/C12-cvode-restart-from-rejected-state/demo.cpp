/* C12: first-order decay A -> B integrated with -cvode true over 1000 s (k = 1e-3 1/s, tol 1e-10): exact A = exp(-1).
 * With a small -cvode_steps the integration is restarted often; before the repair a restart after a rejected attempt continued
 * from the rejected corrector iterate.
 * build: g++ -std=c++14 -I/repo/src -I/repo/src/phreeqcpp -I/repo/src/phreeqcpp/common -I/repo/src/phreeqcpp/PhreeqcKeywords demo.cpp /repo/_build/libIPhreeqcrwd.a -lpthread -o demo
 * run:   ./demo cvode_steps.pqi */
#include <stdio.h>
#include <math.h>
#include <string>
#include <fstream>
#include <sstream>
#include "IPhreeqc.hpp"
int main(int argc, char **argv)
{
	std::ifstream f(argv[1]); std::stringstream ss; ss << f.rdbuf(); std::string text = ss.str();
	int bad = 0;
	static const int STEPS[4] = {100, 20, 5, 3};
	for (int k = 0; k < 4; k++)
	{
		std::string in = text; size_t pos = in.find("-cvode_steps"); size_t eol = in.find('\n', pos);
		char b[64]; snprintf(b, sizeof b, "-cvode_steps %d", STEPS[k]); in.replace(pos, eol - pos, b);
		IPhreeqc p; p.LoadDatabase("/repo/database/phreeqc.dat");
		if (p.RunString(in.c_str())) { puts(p.GetErrorString()); return 2; }
		VAR v; VarInit(&v); p.GetSelectedOutputValue(p.GetSelectedOutputRowCount() - 1, 2, &v);
		double err = fabs(v.dVal - exp(-1.0));
		printf("-cvode_steps %3d: A = %.10f (exact %.10f, error %.1e)\n", STEPS[k], v.dVal, exp(-1.0), err);
		if (err > 1e-5) bad++;
	}
	return bad != 0;
}
