#include <stdio.h>
#include "IPhreeqc.hpp"
int main(void)
{
	IPhreeqc p;
	int rc = p.LoadDatabaseString("SOLUTION_MASTER_SPECIES\nH H+ -1.0 1.008 1.008\nH(1) H+ -1.0 1.008\nO H2O 0 16.0 16.0\nO(-2) H2O 0 16.0\nSOLUTION_SPECIES\nH+ = H+\n log_k 0\nH2O = H2O\n log_k 0\n");
	printf("LoadDatabaseString returned %d: %.300s\n", rc, p.GetErrorString());
	return rc ? 0 : 1;
}
