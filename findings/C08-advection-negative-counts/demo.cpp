/* C08: ADVECTION with a negative number of cells.
 * build: g++ -std=c++14 -I/repo/src -I/repo/src/phreeqcpp -I/repo/src/phreeqcpp/common -I/repo/src/phreeqcpp/PhreeqcKeywords demo.cpp /repo/_build/libIPhreeqcrwd.a -lpthread -o demo */
#include <stdio.h>
#include <exception>
#include "IPhreeqc.hpp"
int main(void)
{
	IPhreeqc p; p.LoadDatabase("/repo/database/phreeqc.dat");
	try
	{
		int rc = p.RunString("SOLUTION 0-2\nADVECTION\n -cells -5\n -shifts 2\nEND\n");
		printf("RunString returned %d\n%s", rc, p.GetErrorString());
		return rc == 0;
	}
	catch (std::exception &e) { printf("exception left RunString: %s\n", e.what()); return 3; }
}
