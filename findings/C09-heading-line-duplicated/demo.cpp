#include <stdio.h>
#include <string>
#include "IPhreeqc.hpp"
int main(void)
{
	IPhreeqc p; p.LoadDatabase("/repo/database/phreeqc.dat");
	int N[3] = {1, 5, 22};
	p.RunString("SOLUTION 1\n Na 1\n Cl 1\nSELECTED_OUTPUT 1\n -reset false\n -pH\nSELECTED_OUTPUT 5\n -reset false\n -pe\nSELECTED_OUTPUT 22\n -reset false\n -totals Na\nEND\n");
	for (int i = 0; i < 3; i++) { p.SetCurrentSelectedOutputUserNumber(N[i]); p.SetSelectedOutputStringOn(true); p.SetSelectedOutputFileOn(true); char b[64]; snprintf(b, 64, "/tmp/sel_demo_%d.out", N[i]); p.SetSelectedOutputFileName(b); }
	p.RunString("USE solution 1\nREACTION 1\n NaCl 1\n 1 mmol\nEND\n");
	for (int i = 0; i < 3; i++) { p.SetCurrentSelectedOutputUserNumber(N[i]); printf("user %d: string lines %d, table rows %d\n%s", N[i], p.GetSelectedOutputStringLineCount(), p.GetSelectedOutputRowCount(), p.GetSelectedOutputString()); }
	return 0;
}
