#include <stdio.h>
#include <string.h>
#include "IPhreeqc.hpp"
int main(void)
{
	IPhreeqc p; p.LoadDatabase("/repo/database/phreeqc.dat");
	p.SetOutputStringOn(true); p.SetLogStringOn(true);
	int rc = p.RunString("SOLUTION 1\n Na 1\nEQUILIBRIUM_PHASES 1\n NoSuchPhase 0 1\nEND\n");
	printf("rc=%d output string %zu bytes, %d lines; error string %zu bytes, %d lines\n", rc, strlen(p.GetOutputString()), p.GetOutputStringLineCount(), strlen(p.GetErrorString()), p.GetErrorStringLineCount());
	return (strlen(p.GetOutputString()) > 0) != (p.GetOutputStringLineCount() > 0);
}
