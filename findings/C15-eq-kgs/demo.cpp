#include "IPhreeqc.hpp"
#include <iostream>
#include <cstdio>
int main(){
  IPhreeqc ip; if (ip.LoadDatabase("/repo/database/phreeqc.dat")) { std::cerr<<ip.GetErrorString(); return 1; }
  const char* in =
  "SELECTED_OUTPUT 1\n -reset false\n -totals Na Alkalinity\n -alkalinity true\n -water true\n"
  "SOLUTION 1\n units mmol/kgs\n pH 8\n Na 2000\n Alkalinity 2000 meq/kgs as HCO3\nEND\n"
  "SOLUTION 2\n units mmol/kgs\n pH 8\n Na 2000\n Alkalinity 122034.2 mg/kgs as HCO3\nEND\n"
  "SOLUTION 3\n units mmol/l\n pH 8\n Na 2000\n Alkalinity 2000 meq/l as HCO3\nEND\n"
  "SOLUTION 4\n units mmol/l\n pH 8\n Na 2000\n Alkalinity 122034.2 mg/l as HCO3\nEND\n";
  ip.SetSelectedOutputStringOn(true);
  if (ip.RunString(in)) { std::cerr<<ip.GetErrorString(); return 1; }
  for (int r=0;r<ip.GetSelectedOutputRowCount();r++){ for(int c=0;c<ip.GetSelectedOutputColumnCount();c++){ VAR v; VarInit(&v); ip.GetSelectedOutputValue(r,c,&v); if(v.type==TT_DOUBLE) printf("%.10g\t",v.dVal); else if(v.type==TT_STRING) printf("%s\t",v.sVal); else printf("?\t"); } printf("\n"); }
}
