// Multi-threaded confirmation for C06.engine_state_per_instance (run only when engine B reports a write to process-wide
// state): NT threads each own one instance and run the same multicomponent-diffusion TRANSPORT; every result must equal the
// single-threaded reference. Exit 1 = an instance was influenced by another one (different result, error, or crash).
#include "IPhreeqc.hpp"
#include <pthread.h>
#include <signal.h>
#include <stdio.h>
#include <stdlib.h>
#include <string>
#include <unistd.h>

static const char *INPUT =
	"SOLUTION 0\n Na 10\n Cl 10\n N(5) 1\n Na 11 charge\n"
	"SOLUTION 1-6\n K 1\n Cl 1\n"
	"SELECTED_OUTPUT\n -reset false\n -totals Na Cl K N\n -high_precision true\n"
	"TRANSPORT\n -cells 6\n -shifts 3\n -flow_direction diffusion_only\n -time_step 3600\n -lengths 0.01\n"
	" -boundary_conditions constant closed\n -multi_d true 1e-9 0.3 0.05 1.0\n -punch_cells 1-6\n"
	"END\n";
static std::string db, reference;
static volatile int failed = 0;
static const int NT = 6;

static std::string run_once(std::string *err)
{
	IPhreeqc p;
	if (p.LoadDatabase(db.c_str()) != 0) { *err = "LoadDatabase failed"; return ""; }
	if (p.RunString(INPUT) != 0) { *err = std::string("RunString reported errors: ") + p.GetErrorString(); return ""; }
	std::string out;
	char b[64];
	for (int r = 0; r < p.GetSelectedOutputRowCount(); r++)
		for (int c = 0; c < p.GetSelectedOutputColumnCount(); c++)
		{
			VAR v; VarInit(&v);
			p.GetSelectedOutputValue(r, c, &v);
			if (v.type == TT_DOUBLE) snprintf(b, sizeof b, "%.17g ", v.dVal);
			else if (v.type == TT_STRING) snprintf(b, sizeof b, "%.40s ", v.sVal);
			else snprintf(b, sizeof b, "%ld ", v.lVal);
			out += b;
			VarClear(&v);
		}
	return out;
}
static void *worker(void *)
{
	for (int i = 0; i < 6 && !failed; i++)
	{
		std::string err, out = run_once(&err);
		if (!err.empty()) { fprintf(stderr, "%s\n", err.c_str()); failed = 1; }
		else if (out != reference) { fprintf(stderr, "result of a concurrent run differs from the single-threaded reference\n"); failed = 1; }
	}
	return 0;
}
static void on_crash(int sig)
{
	static const char m[] = "crash (signal) while instances ran concurrently\n";
	(void) !write(2, m, sizeof m - 1);
	_exit(1);
}
int main(void)
{
	const char *repo = getenv("VF_REPO");
	db = std::string(repo ? repo : "/repo") + "/database/phreeqc.dat";
	std::string err;
	reference = run_once(&err);
	if (!err.empty() || reference.empty()) { fprintf(stderr, "reference run failed: %s\n", err.c_str()); return 3; }
	signal(SIGSEGV, on_crash); signal(SIGABRT, on_crash); signal(SIGBUS, on_crash); signal(SIGFPE, on_crash);
	pthread_t th[NT];
	for (int i = 0; i < NT; i++) pthread_create(&th[i], 0, worker, 0);
	for (int i = 0; i < NT; i++) pthread_join(th[i], 0);
	printf(failed ? "INFLUENCE-OBSERVED\n" : "no influence observed\n");
	return failed ? 1 : 0;
}
