/* C01: a species constant that adds a named expression which itself combines an analytical expression with
 * a log_k-style named expression loses the log_k/delta_h part.
 * build: g++ -std=c++14 -I/repo/src -I/repo/src/phreeqcpp -I/repo/src/phreeqcpp/common -I/repo/src/phreeqcpp/PhreeqcKeywords demo.cpp /repo/_build/libIPhreeqcrwd.a -lpthread -o demo */
#include <stdio.h>
#include <math.h>
#include "IPhreeqc.hpp"
int main(void)
{
	IPhreeqc p;
	if (p.LoadDatabase("/repo/database/phreeqc.dat")) { puts(p.GetErrorString()); return 2; }
	const char *in =
		"NAMED_EXPRESSIONS\n"
		"Base_k\n"
		"  log_k 2.0\n"
		"Mixed_k\n"
		"  -analytic 1.0 0 0 0 0\n"
		"  -add_logk Base_k 1.0\n"
		"Ana_k\n"
		"  -analytic 1.0 0 0 0 0\n"
		"SOLUTION_SPECIES\n"
		"Na+ + Br- = NaBr\n"
		"  log_k 0.0\n"
		"  -add_logk Mixed_k 1.0\n"
		"K+ + Br- = KBr\n"
		"  log_k 0.0\n"
		"  -add_logk Base_k 1.0\n"
		"  -add_logk Ana_k 1.0\n"
		"SOLUTION 1\n"
		"  Na 1\n  K 1\n  Br 2\n"
		"SELECTED_OUTPUT\n  -reset false\n"
		"USER_PUNCH\n  -headings lk_nested lk_flat\n"
		"  10 PUNCH LK_SPECIES(\"NaBr\"), LK_SPECIES(\"KBr\")\n"
		"END\n";
	if (p.RunString(in)) { puts(p.GetErrorString()); return 2; }
	VAR a, b; VarInit(&a); VarInit(&b);
	p.GetSelectedOutputValue(1, 0, &a); p.GetSelectedOutputValue(1, 1, &b);
	printf("log K of NaBr (adds Mixed_k = analytic 1.0 + Base_k) = %g ; log K of KBr (adds Ana_k and Base_k separately) = %g ; both texts prescribe 3\n", a.dVal, b.dVal);
	return fabs(a.dVal - b.dVal) > 1e-9;
}
