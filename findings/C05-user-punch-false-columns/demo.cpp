/* C05: SELECTED_OUTPUT -user_punch false with a USER_PUNCH block of the same number.
 * build: g++ -std=c++14 -I/repo/src -I/repo/src/phreeqcpp -I/repo/src/phreeqcpp/common -I/repo/src/phreeqcpp/PhreeqcKeywords demo.cpp /repo/_build/libIPhreeqcrwd.a -lpthread -o demo */
#include <stdio.h>
#include <string>
#include "IPhreeqc.hpp"
int main(void)
{
	IPhreeqc p; p.LoadDatabase("/repo/database/phreeqc.dat"); p.SetSelectedOutputStringOn(true);
	if (p.RunString("SOLUTION 1\n Na 1\n Cl 1\nSELECTED_OUTPUT 1\n -reset false\n -pH true\n -user_punch false\nUSER_PUNCH 1\n -headings a b c d\n 10 PUNCH 1, \"xx\"\nEND\n")) { puts(p.GetErrorString()); return 2; }
	std::string line0 = p.GetSelectedOutputStringLine(0);
	int cells = 0; bool in = false;
	for (size_t i = 0; i < line0.size(); i++) { bool sp = line0[i] == ' ' || line0[i] == '\t'; if (!sp && !in) cells++; in = !sp; }
	printf("heading line of the string: %d cells; value table: %d columns\n", cells, p.GetSelectedOutputColumnCount());
	return cells != p.GetSelectedOutputColumnCount();
}
