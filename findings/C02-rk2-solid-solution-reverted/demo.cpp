/* C02/C12: KINETICS -runge_kutta 2 with SOLID_SOLUTIONS: the solid solution is rolled back to its state before the
 * kinetic step while the solution keeps the reacted composition (strontium and sulfate disappear).
 * build: g++ -std=c++14 -I/repo/src -I/repo/src/phreeqcpp -I/repo/src/phreeqcpp/common -I/repo/src/phreeqcpp/PhreeqcKeywords demo.cpp /repo/_build/libIPhreeqcrwd.a -lpthread -o demo */
#include <stdio.h>
#include <math.h>
#include "IPhreeqc.hpp"
static double cell(IPhreeqc &p, int r, int c) { VAR v; VarInit(&v); p.GetSelectedOutputValue(r, c, &v); double d = v.type == TT_DOUBLE ? v.dVal : v.type == TT_LONG ? (double) v.lVal : 0; VarClear(&v); return d; }
static double inventory(int rk)
{
	IPhreeqc p; p.LoadDatabase("/repo/database/phreeqc.dat");
	char in[2048];
	snprintf(in, sizeof in,
		"SOLUTION 1\n Na 10\n Cl 10\n Ba 0.001\n Sr 0.1\n S 1\n"
		"SOLID_SOLUTIONS 1\n BaSr\n -comp Barite 0.01\n -comp Celestite 0.02\n"
		"SAVE solution 1\nSAVE solid_solution 1\nEND\n"
		"RATES\nSrc\n-start\n10 SAVE 1e-5*TIME\n-end\n"
		"KINETICS 1\n Src\n -m 1\n -formula SrCl2 1\n -steps 100\n -runge_kutta %d\n"
		"USE solution 1\nUSE solid_solution 1\n"
		"SELECTED_OUTPUT\n -reset false\n -totals Sr\n -water true\n -solid_solutions Celestite\n -kinetic_reactants Src\n"
		"END\n", rk);
	if (p.RunString(in)) { puts(p.GetErrorString()); return -1; }
	int r = p.GetSelectedOutputRowCount() - 1;
	/* columns: mass_H2O, Sr (mol/kgw), k_Src, dk_Src, s_Celestite */
	double kgw = cell(p, r, 0), sr = cell(p, r, 1), src = cell(p, r, 2), cel = cell(p, r, 4);
	printf("rk %d: water %.6f kg  Sr(aq) %.6e mol/kgw  SrCl2 reactant %.6f mol  Celestite in solid solution %.6e mol\n", rk, kgw, sr, src, cel);
	return sr * kgw + src + cel;
}
int main(void)
{
	double want = 0.1e-3 + 1.0 + 0.02;      /* ~ initial strontium: solution + reactant + solid solution (1 kg water) */
	double a = inventory(3), b = inventory(2);
	printf("strontium in the system: start %.7f  after step rk 3: %.7f  rk 2: %.7f\n", want, a, b);
	return fabs(b - a) > 1e-7;
}
