/* C01: NAMED_EXPRESSIONS -ln_alpha1000 with a sixth (T^2) coefficient: the first five terms are converted from
 * 1000 ln(alpha) to log10(alpha), the sixth is not, so a species that adds the named expression gets a wrong log K(T).
 * build: g++ -std=c++14 -I/repo/src -I/repo/src/phreeqcpp -I/repo/src/phreeqcpp/common -I/repo/src/phreeqcpp/PhreeqcKeywords demo.cpp /repo/_build/libIPhreeqcrwd.a -lpthread -o demo */
#include <stdio.h>
#include <math.h>
#include "IPhreeqc.hpp"
int main(void)
{
	IPhreeqc p; p.LoadDatabase("/repo/database/phreeqc.dat");
	const char *in =
		"NAMED_EXPRESSIONS\nXfrac\n   -ln_alpha1000 0 0 0 0 0 1e-5\n"
		"SOLUTION_SPECIES\nNa+ + Cl- = NaCl\n   log_k -1\n   -add_logk Xfrac 1\n"
		"SOLUTION 1\n temp 25\n Na 10\n Cl 10\n"
		"SELECTED_OUTPUT\n -reset false\n -high_precision true\n"
		"USER_PUNCH\n -headings logQ lk_named\n 10 PUNCH LA(\"NaCl\") - LA(\"Na+\") - LA(\"Cl-\"), LK_NAMED(\"Xfrac\")\nEND\n";
	if (p.RunString(in)) { puts(p.GetErrorString()); return 2; }
	VAR q, n; VarInit(&q); VarInit(&n);
	p.GetSelectedOutputValue(1, 0, &q); p.GetSelectedOutputValue(1, 1, &n);
	double tk = 298.15, want_named = 1e-5 * tk * tk / (1000 * log(10.0));
	printf("log10(alpha) of the named expression at 25 C: library %.8f, text prescribes 1e-5 T^2 / (1000 ln 10) = %.8f\n", n.dVal, want_named);
	printf("log Q of NaCl in the computed distribution: %.8f, log K prescribed: %.8f\n", q.dVal, -1 + want_named);
	return fabs(q.dVal - (-1 + want_named)) > 1e-9;
}
