/* C07: what survives LoadDatabase although a fresh instance does not have it:
 *  (1) a COPY request read by a run that aborted before it was carried out;
 *  (2) database-level parameter tables: GAS_BINARY_PARAMETERS (also RATE_PARAMETERS_PK/SVD/HERMANSKA, MEAN_GAMMAS).
 * build: g++ -std=c++14 -I/repo/src -I/repo/src/phreeqcpp -I/repo/src/phreeqcpp/common -I/repo/src/phreeqcpp/PhreeqcKeywords demo.cpp /repo/_build/libIPhreeqcrwd.a -lpthread -o demo */
#include <stdio.h>
#include <string.h>
#include <math.h>
#include <string>
#include "IPhreeqc.hpp"
static const char *DB = "/repo/database/phreeqc.dat";
static const char *PROBE_COPY =
	"SOLUTION 1\n Na 1\n Cl 1\nSOLUTION 2\n K 2\n Cl 2\nEND\nCOPY solution 2 9\nEND\nDUMP\n -solution 1-20\nEND\n";
static const char *PROBE_GAS =
	"SOLUTION 1\nGAS_PHASE 1\n -fixed_volume\n -volume 0.1\n CO2(g) 40\n CH4(g) 40\n"
	"SELECTED_OUTPUT\n -reset false\n -high_precision true\nUSER_PUNCH\n -headings P phi_CO2\n 10 PUNCH PRESSURE, PR_PHI(\"CO2(g)\")\nEND\n";
static std::string dump_of(IPhreeqc &p) { p.SetDumpStringOn(true); p.RunString(PROBE_COPY); return p.GetDumpString(); }
static double pressure_of(IPhreeqc &p)
{
	if (p.RunString(PROBE_GAS)) { puts(p.GetErrorString()); return -1; }
	VAR v; VarInit(&v); p.GetSelectedOutputValue(p.GetSelectedOutputRowCount() - 1, 0, &v);
	return v.dVal;
}
int main(void)
{
	int bad = 0;
	{	/* (1) */
		IPhreeqc fresh, used;
		fresh.LoadDatabase(DB); used.LoadDatabase(DB);
		int rc = used.RunString("SOLUTION 1\n Ca 1\nSOLUTION 2\nCOPY solution 1 5\nEQUILIBRIUM_PHASES 1\n NoSuchPhase 0 1\nEND\n");
		printf("aborted run returned %d errors\n", rc);
		used.LoadDatabase(DB);
		std::string a = dump_of(fresh), b = dump_of(used);
		bool f5 = a.find("SOLUTION_RAW                 5") != std::string::npos, u5 = b.find("SOLUTION_RAW                 5") != std::string::npos;
		printf("(1) solution 5 after the probe: fresh instance %s, reloaded instance %s\n", f5 ? "present" : "absent", u5 ? "present" : "absent");
		bad += (f5 != u5);
	}
	{	/* (2) */
		IPhreeqc fresh, used;
		fresh.LoadDatabase(DB); used.LoadDatabase(DB);
		used.RunString("GAS_BINARY_PARAMETERS\n CO2(g) CH4(g) 0.6\nEND\n");
		used.LoadDatabase(DB);
		double pf = pressure_of(fresh), pu = pressure_of(used);
		printf("(2) pressure of a CO2/CH4 gas phase: fresh instance %.8g atm, reloaded instance %.8g atm\n", pf, pu);
		bad += fabs(pf - pu) > 1e-9 * fabs(pf);
	}
	printf(bad ? "FAIL: %d difference(s) between a reloaded and a fresh instance\n" : "PASS\n", bad);
	return bad ? 1 : 0;
}
