#include <stdio.h>
#include <string.h>
#include <string>
#include "IPhreeqc.hpp"
static const char *DB = "/repo/database/phreeqc.dat";
struct R { size_t dump, log, sel; int rows; };
static R probe(IPhreeqc &p)
{
	p.SetDumpStringOn(true); p.SetLogStringOn(true);
	p.RunString("SOLUTION 1\n Na 1\n Cl 1\nSELECTED_OUTPUT\n -pH\nEND\nDUMP\n -solution 1\nEND\n");
	p.SetSelectedOutputStringOn(true);
	p.RunString("SOLUTION 2\nEND\n");
	R r; r.dump = 0; r.log = strlen(p.GetLogString()); r.sel = strlen(p.GetSelectedOutputString()); r.rows = p.GetSelectedOutputRowCount();
	p.RunString("DUMP\n -solution 1\nEND\n"); r.dump = strlen(p.GetDumpString());
	return r;
}
int main(void)
{
	IPhreeqc fresh, used; fresh.LoadDatabase(DB); used.LoadDatabase(DB);
	used.RunString("KNOBS\n -logfile true\nPRINT\n -dump false\n -selected_output false\nSOLUTION 1\nEND\n");
	used.LoadDatabase(DB);
	R a = probe(fresh), b = probe(used);
	printf("fresh   : dump %zu bytes, log %zu bytes, selected-output string %zu bytes for %d rows\n", a.dump, a.log, a.sel, a.rows);
	printf("reloaded: dump %zu bytes, log %zu bytes, selected-output string %zu bytes for %d rows\n", b.dump, b.log, b.sel, b.rows);
	int bad = (a.dump != b.dump) + (a.log != b.log) + (a.sel != b.sel) + (a.rows != b.rows);
	puts(bad ? "FAIL" : "PASS");
	return bad != 0;
}
