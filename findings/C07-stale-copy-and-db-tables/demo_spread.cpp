#include <stdio.h>
#include <string>
#include "IPhreeqc.hpp"
static const char *DB = "/repo/database/phreeqc.dat";
int main(int argc, char **argv)
{
	IPhreeqc used; int rc = used.LoadDatabase(DB); printf("load1 %d\n", rc);
	rc = used.RunString(argc > 1 ? "SOLUTION 1\nINCLUDE$ /nonexistent/file.inc\nEND\n" : "SOLUTION_SPREAD\n Ca K\n 1 2\n 3 4\nINCLUDE$ /nonexistent/file.inc\nEND\n");
	printf("aborted run returned %d errors: %s\n", rc, used.GetErrorString());
	rc = used.LoadDatabase(DB); printf("load2 %d %s\n", rc, used.GetErrorString());
	rc = used.RunString("SOLUTION 1\nEND\n"); printf("run %d\n", rc);
	return 0;
}
