/* C06: the shared sort guard (qsort_lock) is released by an instance that never took it.
 * build: g++ -std=c++14 -I/repo/src -I/repo/src/phreeqcpp/common demo.cpp /repo/_build/libIPhreeqcrwd.a -lpthread -ldl -o demo
 * The executable interposes pthread_mutex_lock/unlock to watch the process-wide qsort_lock. */
#ifndef _GNU_SOURCE
#define _GNU_SOURCE
#endif
#include <dlfcn.h>
#include <pthread.h>
#include <stdio.h>
#include "IPhreeqc.hpp"

extern pthread_mutex_t qsort_lock;          /* src/thread.h */
static int depth = 0, bad_unlocks = 0;
typedef int (*fn_t)(pthread_mutex_t *);
extern "C" int pthread_mutex_lock(pthread_mutex_t *m)
{
	static fn_t real = (fn_t) dlsym(RTLD_NEXT, "pthread_mutex_lock");
	int r = real(m);
	if (m == &qsort_lock) depth++;
	return r;
}
extern "C" int pthread_mutex_unlock(pthread_mutex_t *m)
{
	static fn_t real = (fn_t) dlsym(RTLD_NEXT, "pthread_mutex_unlock");
	if (m == &qsort_lock)
	{
		if (depth == 0) { bad_unlocks++; fprintf(stderr, "qsort_lock unlocked while not held by this thread\n"); }
		else depth--;
	}
	return real(m);
}

int main(void)
{
	IPhreeqc a;
	/* a (useless, rejected) one-master database: master.size() == 1 when tidy_model re-sorts the tables */
	a.LoadDatabaseString("SOLUTION_MASTER_SPECIES\nH H+ -1.0 1.008 1.008\nSOLUTION_SPECIES\nH+ = H+\n log_k 0\ne- = e-\n log_k 0\n");
	printf("unlocks of the guard without holding it: %d\n", bad_unlocks);
	return bad_unlocks ? 1 : 0;
}
