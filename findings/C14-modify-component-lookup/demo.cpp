/* C14: *_MODIFY with a component named in another letter case (phases are case-insensitive) or, for an exchanger, by its
 * formula as DUMP writes it.
 * build: g++ -std=c++14 -I/repo/src -I/repo/src/phreeqcpp -I/repo/src/phreeqcpp/common -I/repo/src/phreeqcpp/PhreeqcKeywords demo.cpp /repo/_build/libIPhreeqcrwd.a -lpthread -o demo */
#include <stdio.h>
#include <string>
#include "IPhreeqc.hpp"
static int count(const std::string &s, const char *w) { int n = 0; size_t p = 0; while ((p = s.find(w, p)) != std::string::npos) { n++; p++; } return n; }
int main(void)
{
	int bad = 0;
	{
		IPhreeqc p; p.LoadDatabase("/repo/database/phreeqc.dat"); p.SetDumpStringOn(true);
		p.RunString("SOLUTION 1\nEQUILIBRIUM_PHASES 1\n Calcite 0 10\n Dolomite 0 3\nSAVE equilibrium_phases 1\nEND\n"
			"EQUILIBRIUM_PHASES_MODIFY 1\n -component calcite\n  -moles 5\nEND\nDUMP\n -equilibrium_phases 1\nEND\n");
		std::string d = p.GetDumpString();
		int n = count(d, "-component                 Calcite") + count(d, "-component                 calcite");
		printf("EQUILIBRIUM_PHASES_MODIFY -component calcite: %d calcite components in the assemblage\n", n);
		if (n != 1) bad++;
	}
	{
		IPhreeqc p; p.LoadDatabase("/repo/database/phreeqc.dat"); p.SetDumpStringOn(true);
		p.RunString("EXCHANGE 1\n NaX 0.1\nEND\nEXCHANGE_MODIFY 1\n -component NaX\n  -la 0.5\nEND\nDUMP\n -exchange 1\nEND\n");
		std::string d = p.GetDumpString();
		size_t t = d.find("-totals"); std::string tot = t == std::string::npos ? "" : d.substr(t, d.find("-charge_balance", t) - t);
		bool kept = tot.find("Na") != std::string::npos && tot.find("X") != std::string::npos;
		printf("EXCHANGE_MODIFY -component NaX -la 0.5: %d NaX components, totals %s\n", count(d, "-component                 NaX"), kept ? "kept (Na, X)" : "lost");
		if (!kept || count(d, "-component                 NaX") != 1) bad++;
	}
	return bad;
}
