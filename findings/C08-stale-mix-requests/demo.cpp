#include "IPhreeqc.hpp"
#include <iostream>
#include <cstdio>
#include <string>
static int probe(IPhreeqc &ip, const char *what)
{
	int rc = ip.RunString("SOLUTION 1\n pH 7\n Na 1\n Cl 1\nEND\n");
	int rc2 = ip.RunString("USE solution 5\nEND\n");
	printf("%-30s run rc=%d; USE solution 5 rc=%d\n", what, rc, rc2);
	return rc2;
}
int main(){
  IPhreeqc fresh, used;
  fresh.LoadDatabase("/repo/database/phreeqc.dat"); used.LoadDatabase("/repo/database/phreeqc.dat");
  int rc = used.RunString("SOLUTION 1\n pH 7\n Na 1 badunit\nSOLUTION_MIX 5\n 1 1.0\nEND\n");
  int rl = used.LoadDatabase("/repo/database/phreeqc.dat");
  printf("failing run rc=%d; reload of a valid database rc=%d (a fresh instance: 0)\n", rc, rl);
  if (rl != 0) return 1;
  int a = probe(fresh, "fresh instance:");
  int b = probe(used, "after failed run + reload:");
  return a == b ? 0 : 1;
}
