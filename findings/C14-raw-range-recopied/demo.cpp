#include <stdio.h>
#include <string>
#include "IPhreeqc.hpp"
int main(void)
{
	IPhreeqc p; p.LoadDatabase("/repo/database/phreeqc.dat"); p.SetDumpStringOn(true);
	int rc = p.RunString(
		"RATES\nR1\n-start\n10 SAVE 0\n-end\nEND\n"
		"KINETICS_RAW 4-6\n -step_divide 1\n -rk 3\n -bad_step_max 500\n -use_cvode 0\n -cvode_steps 100\n -cvode_order 5\n"
		" -component R1\n  -tol 1e-08\n  -m 1\n  -m0 1\n  -namecoef\n   NaCl 1\n -equalIncrements 0\n -count 0\n -steps\n  1\nEND\n"
		"KINETICS_MODIFY 5\n -component R1\n  -m 5\nEND\n"
		"DUMP\n -kinetics 5\nEND\n");
	if (rc) puts(p.GetErrorString());
	std::string d = p.GetDumpString(); size_t a = d.find("-m "); printf("after MODIFY: kinetics 5 %s\n", d.substr(a, d.find('\n', a) - a).c_str());
	rc = p.RunString("KINETICS 9\nR1\n -formula NaCl 1\n -m 7\nEND\nDUMP\n -kinetics 5\nEND\n");
	if (rc) puts(p.GetErrorString());
	d = p.GetDumpString(); a = d.find("-m "); printf("after an unrelated KINETICS 9 block: kinetics 5 %s\n", d.substr(a, d.find('\n', a) - a).c_str());
	return 0;
}
