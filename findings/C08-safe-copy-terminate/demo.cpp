#include <stdio.h>
#include <string>
#include <exception>
#include "IPhreeqc.hpp"
int main(void)
{
	IPhreeqc p; p.LoadDatabase("/repo/database/phreeqc.dat");
	std::string f(300, 'C');
	std::string in = "SOLUTION 1\n Na 1 as " + f + "\nEND\n";
	try { int rc = p.RunString(in.c_str()); printf("returned %d: %.200s\n", rc, p.GetErrorString()); }
	catch (std::exception &e) { printf("RunString threw: %s; error string: %.200s\n", e.what(), p.GetErrorString()); return 1; }
	return 0;
}
