#include "IPhreeqc.hpp"
#include <iostream>
#include <cstdio>
#include <string>
static std::string probe(IPhreeqc &ip, const char *what)
{
	ip.SetDumpStringOn(true);
	int rc = ip.RunString("SOLUTION 1\n pH 7\n Na 1\n Cl 1\nEND\n");
	std::string d = ip.GetDumpString();
	int rc2 = ip.RunString("USE solution 1\nEND\n");
	printf("%-28s run rc=%d dump bytes=%zu  USE solution 1 rc=%d\n", what, rc, d.size(), rc2);
	return d;
}
int main(){
  IPhreeqc fresh, used;
  fresh.LoadDatabase("/repo/database/phreeqc.dat"); used.LoadDatabase("/repo/database/phreeqc.dat");
  // a failing run that contains DUMP and DELETE requests which are never carried out
  used.SetDumpStringOn(true);
  int rc = used.RunString("SOLUTION 1\n pH 7\n Na 1 badunit\nDUMP\n -all\nDELETE\n -solution 1\nEND\n");
  printf("failing run rc=%d\n", rc);
  int rcl = used.LoadDatabase("/repo/database/phreeqc.dat");
  printf("reload rc=%d\n", rcl);
  std::string a = probe(fresh, "fresh instance:");
  std::string b = probe(used, "after failed run + reload:");
  return a == b ? 0 : 1;
}
