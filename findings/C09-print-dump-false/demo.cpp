/* C09: PRINT -dump false with dump file and dump string both on.
 * build: g++ -std=c++14 -I/repo/src -I/repo/src/phreeqcpp -I/repo/src/phreeqcpp/common -I/repo/src/phreeqcpp/PhreeqcKeywords demo.cpp /repo/_build/libIPhreeqcrwd.a -lpthread -o demo */
#include <stdio.h>
#include <string.h>
#include <string>
#include <fstream>
#include <sstream>
#include "IPhreeqc.hpp"
int main(void)
{
	IPhreeqc p; p.LoadDatabase("/repo/database/phreeqc.dat");
	p.SetDumpFileOn(true); p.SetDumpStringOn(true); p.SetDumpFileName("/tmp/c09_dump_demo.out");
	remove("/tmp/c09_dump_demo.out");
	if (p.RunString("SOLUTION 1\n Na 1\n Cl 1\nPRINT\n -dump false\nDUMP\n -solution 1\nEND\n")) { puts(p.GetErrorString()); return 2; }
	std::ifstream f("/tmp/c09_dump_demo.out"); std::stringstream ss; ss << f.rdbuf();
	size_t nf = ss.str().size(), ns = strlen(p.GetDumpString());
	printf("dump file %zu bytes, dump string %zu bytes\n", nf, ns);
	remove("/tmp/c09_dump_demo.out");
	return nf != ns;
}
