#include "IPhreeqc.hpp"
#include <iostream>
#include <cstdio>
int main(){
  IPhreeqc a, b; 
  if (a.LoadDatabase("/repo/database/phreeqc.dat") || b.LoadDatabase("/repo/database/phreeqc.dat")) return 2;
  a.SetDumpStringOn(true); b.SetDumpStringOn(true);
  int rc = a.RunString("SOLUTION 1\n pH 7\n Na 1\n Cl 1\n C(4) 2\n -isotope 13C -12 1\n -isotope 18O -5\nEND\nDUMP\n -solution 1\nEND\n");
  std::string d = a.GetDumpString();
  int rc2 = b.RunString((d + "DUMP\n -solution 1\nEND\n").c_str());
  std::string d2 = b.GetDumpString();
  printf("run rc=%d read-back rc=%d  second dump %s\n%s", rc, rc2, d == d2 ? "identical" : "DIFFERS", rc2 ? b.GetErrorString() : "");
  if (d != d2) printf("---1\n%s---2\n%s", d.c_str(), d2.c_str());
  return rc2 != 0 || d != d2;
}
