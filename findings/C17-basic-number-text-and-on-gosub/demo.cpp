/* C08 / C17: (1) STR$ / PRINT of an integral value with more than 255 digits overflows the interpreter's 256-character buffers;
 * (2) ON k GOSUB that falls through (k outside the target list) inside a FOR loop ends in "NEXT without FOR".
 * build: g++ -std=c++14 -I/repo/src -I/repo/src/phreeqcpp -I/repo/src/phreeqcpp/common -I/repo/src/phreeqcpp/PhreeqcKeywords demo.cpp /repo/_build/libIPhreeqcrwd.a -lpthread -o demo
 * run:   ./demo 1   (number text; crashes before the repair)      ./demo 2   (ON GOSUB) */
#include <stdio.h>
#include <stdlib.h>
#include <string.h>
#include "IPhreeqc.hpp"
int main(int argc, char **argv)
{
	int which = argc > 1 ? atoi(argv[1]) : 2;
	IPhreeqc p; p.LoadDatabase("/repo/database/phreeqc.dat");
	const char *in1 =
		"SOLUTION 1\nSELECTED_OUTPUT\n -reset false\nUSER_PUNCH\n -headings len back\n 10 a$ = STR$(1e300)\n 20 PUNCH LEN(a$), VAL(a$)\nEND\n";
	const char *in2 =
		"SOLUTION 1\nSELECTED_OUTPUT\n -reset false\nUSER_PUNCH\n -headings t\n 10 t = 0\n 20 FOR i = 0 TO 3\n 30 ON i GOSUB 100, 200\n 40 NEXT i\n 50 PUNCH t\n 60 END\n"
		" 100 t = t + 1\n 110 RETURN\n 200 t = t + 10\n 210 RETURN\nEND\n";
	int rc = p.RunString(which == 1 ? in1 : in2);
	if (rc) { printf("errors: %s\n", p.GetErrorString()); return 1; }
	VAR v; VarInit(&v); p.GetSelectedOutputValue(1, 0, &v);
	printf("%s = %g\n", which == 1 ? "LEN(STR$(1e300))" : "t after ON i GOSUB 100, 200 for i = 0..3", v.type == TT_DOUBLE ? v.dVal : (double) v.lVal);
	return which == 2 && v.dVal != 11.0;
}
