/* C11: TRANSPORT with dispersivity, -multi_d true and a KINETICS block with -cvode true (rate 0) in cell 4.
 * The chloride inventory of the 6-cell column after the first shift is compared with the same run using Runge-Kutta.
 * build: g++ -std=c++14 -I/repo/src -I/repo/src/phreeqcpp -I/repo/src/phreeqcpp/common -I/repo/src/phreeqcpp/PhreeqcKeywords demo.cpp /repo/_build/libIPhreeqcrwd.a -lpthread -o demo
 * run:   ./demo mcd_cvode.pqi mcd_rk_reference.pqi */
#include <stdio.h>
#include <math.h>
#include "IPhreeqc.hpp"
static double inventory(const char *file, int shift)
{
	IPhreeqc p; p.LoadDatabase("/repo/database/phreeqc.dat");
	if (p.RunFile(file)) { puts(p.GetErrorString()); return -1; }
	double sum = 0;
	for (int r = 1; r < p.GetSelectedOutputRowCount(); r++)
	{
		VAR s, cl; VarInit(&s); VarInit(&cl);
		p.GetSelectedOutputValue(r, 0, &s); p.GetSelectedOutputValue(r, 3, &cl);      /* columns: soln, step, m_Na, m_Cl */
		VAR st; VarInit(&st); p.GetSelectedOutputValue(r, 1, &st);
		if (st.type == TT_LONG && st.lVal == shift && cl.type == TT_DOUBLE) sum += cl.dVal;
		VarClear(&s); VarClear(&cl); VarClear(&st);
	}
	return sum;
}
int main(int argc, char **argv)
{
	double a = inventory(argv[1], 1), b = inventory(argv[2], 1);
	printf("chloride in cells 1-6 after shift 1: cvode %.6f mol, runge-kutta %.6f mol\n", a, b);
	return fabs(a - b) > 1e-6;
}
