"""Parser for LLVM-14 textual IR (typed pointers) -> Python structures.

Implements exactly the instruction inventory measured on the whole library
(DESIGN.md 8a) and fails loudly ("unsupported IR") on anything else.
"""
import re
from fractions import Fraction
import struct as _struct


class IRError(Exception):
    pass


# --------------------------------------------------------------------------- types
class Type:
    kind = "?"

    def __repr__(self):
        return self.s()


class VoidT(Type):
    kind = "void"

    def s(self):
        return "void"


class IntT(Type):
    kind = "int"

    def __init__(self, bits):
        self.bits = bits

    def s(self):
        return "i%d" % self.bits


class FloatT(Type):
    kind = "fp"

    def __init__(self, name):
        self.name = name

    def s(self):
        return self.name


class PtrT(Type):
    kind = "ptr"

    def __init__(self, elem):
        self.elem = elem

    def s(self):
        return self.elem.s() + "*"


class ArrT(Type):
    kind = "arr"

    def __init__(self, n, elem):
        self.n = n
        self.elem = elem

    def s(self):
        return "[%d x %s]" % (self.n, self.elem.s())


class VecT(Type):
    kind = "vec"

    def __init__(self, n, elem):
        self.n = n
        self.elem = elem

    def s(self):
        return "<%d x %s>" % (self.n, self.elem.s())


class StructT(Type):
    kind = "struct"

    def __init__(self, elems, packed=False, name=None, opaque=False):
        self.elems = elems
        self.packed = packed
        self.name = name
        self.opaque = opaque
        self._layout = None

    def s(self):
        if self.name:
            return "%" + self.name
        return ("<{%s}>" if self.packed else "{%s}") % ", ".join(e.s() for e in self.elems)


class FuncT(Type):
    kind = "func"

    def __init__(self, ret, params, vararg):
        self.ret = ret
        self.params = params
        self.vararg = vararg

    def s(self):
        return "%s (%s%s)" % (self.ret.s(), ", ".join(p.s() for p in self.params), ", ..." if self.vararg else "")


class LabelT(Type):
    kind = "label"

    def s(self):
        return "label"


class MetaT(Type):
    kind = "meta"

    def s(self):
        return "metadata"


VOID = VoidT()
LABEL = LabelT()
META = MetaT()
_INTS = {}


def intT(b):
    t = _INTS.get(b)
    if t is None:
        t = _INTS[b] = IntT(b)
    return t


I1, I8, I32, I64 = intT(1), intT(8), intT(32), intT(64)
DOUBLE = FloatT("double")
FLOAT = FloatT("float")
_FPS = {"double": DOUBLE, "float": FLOAT, "half": FloatT("half"), "x86_fp80": FloatT("x86_fp80"),
        "fp128": FloatT("fp128")}
I8P = PtrT(I8)


def sizeof(t):
    return layout(t)[0]


def alignof(t):
    return layout(t)[1]


def layout(t):
    """(size, align) per the x86-64 data layout."""
    k = t.kind
    if k == "int":
        b = t.bits
        if b <= 8:
            return (1, 1)
        if b <= 16:
            return (2, 2)
        if b <= 32:
            return (4, 4)
        if b <= 64:
            return (8, 8)
        return (16, 16)
    if k == "fp":
        return {"double": (8, 8), "float": (4, 4), "half": (2, 2), "x86_fp80": (16, 16), "fp128": (16, 16)}[t.name]
    if k == "ptr":
        return (8, 8)
    if k == "arr":
        s, a = layout(t.elem)
        return (s * t.n, a)
    if k == "vec":
        s, a = layout(t.elem)
        n = s * t.n
        return (n, n)
    if k == "struct":
        return struct_layout(t)[:2]
    if k == "func":
        return (1, 1)
    raise IRError("unsupported IR: sizeof(%s)" % t.s())


def struct_layout(t):
    """(size, align, [field offsets])"""
    if t._layout is not None:
        return t._layout
    if t.opaque:
        raise IRError("unsupported IR: layout of opaque struct %s" % t.s())
    off = 0
    al = 1
    offs = []
    for e in t.elems:
        s, a = layout(e)
        if t.packed:
            a = 1
        if off % a:
            off += a - off % a
        offs.append(off)
        off += s
        al = max(al, a)
    if off % al:
        off += al - off % al
    t._layout = (off, al, offs)
    return t._layout


# --------------------------------------------------------------------------- lexer
_TOK = re.compile(r"""
    \s+
  | ;[^\n]*
  | (?P<str>c?"(?:[^"\\]|\\.)*")
  | (?P<lid>%(?:[-a-zA-Z$._0-9]+|"(?:[^"\\]|\\.)*"))
  | (?P<gid>@(?:[-a-zA-Z$._0-9]+|"(?:[^"\\]|\\.)*"))
  | (?P<meta>!(?:[-a-zA-Z$._0-9]+|"(?:[^"\\]|\\.)*")?)
  | (?P<attr>\#[0-9]+)
  | (?P<hex>0x[KLMHR]?[0-9a-fA-F]+)
  | (?P<num>[-+]?[0-9]+(?:\.[0-9]*(?:[eE][-+]?[0-9]+)?)?)
  | (?P<word>[a-zA-Z_$][-a-zA-Z$._0-9]*)
  | (?P<dots>\.\.\.)
  | (?P<p>[()\[\]{}<>,=*:|])
""", re.X)


def lex(s):
    out = []
    pos = 0
    n = len(s)
    m = _TOK.match
    while pos < n:
        mo = m(s, pos)
        if not mo:
            raise IRError("unsupported IR: cannot lex %r" % s[pos:pos + 40])
        pos = mo.end()
        k = mo.lastgroup
        if k is None:
            continue
        out.append((k, mo.group(k)))
    return out


def _unq(name):
    # %"a b" -> a b ; strip sigil
    n = name[1:]
    if n.startswith('"'):
        n = n[1:-1]
    return n


def _cstr(tok):
    # c"...\00" -> bytes
    body = tok[tok.index('"') + 1:-1]
    out = bytearray()
    i = 0
    while i < len(body):
        c = body[i]
        if c == "\\":
            if body[i + 1] == "\\":
                out.append(92)
                i += 2
            else:
                out.append(int(body[i + 1:i + 3], 16))
                i += 3
        else:
            out.append(ord(c))
            i += 1
    return bytes(out)


class Func:
    def __init__(self, name, ftype, params, attrs):
        self.name = name
        self.ftype = ftype
        self.params = params  # [(type, name)]
        self.blocks = None  # {label: [Instr]} for definitions
        self.order = []
        self.nlines = 0
        self.attrs = attrs

    @property
    def is_decl(self):
        return self.blocks is None


class Instr:
    __slots__ = ("op", "dst", "ty", "args", "extra", "text")

    def __init__(self, op, dst, ty, args, extra=None, text=""):
        self.op = op
        self.dst = dst
        self.ty = ty
        self.args = args
        self.extra = extra
        self.text = text

    def __repr__(self):
        return self.text


class Global:
    def __init__(self, name, ty, init, const, external):
        self.name = name
        self.ty = ty
        self.init = init
        self.const = const
        self.external = external
        self.thread_local = False


class Module:
    def __init__(self):
        self.types = {}
        self.globals = {}
        self.funcs = {}
        self.aliases = {}


class P:
    """Token-stream parser."""

    def __init__(self, toks, mod):
        self.t = toks
        self.i = 0
        self.mod = mod

    def peek(self, k=0):
        j = self.i + k
        return self.t[j] if j < len(self.t) else (None, None)

    def next(self):
        tok = self.t[self.i]
        self.i += 1
        return tok

    def accept(self, val):
        if self.i < len(self.t) and self.t[self.i][1] == val:
            self.i += 1
            return True
        return False

    def expect(self, val):
        if not self.accept(val):
            raise IRError("unsupported IR: expected %r at %r" % (val, self.t[self.i:self.i + 6]))

    def at_end(self):
        return self.i >= len(self.t)

    # ---- types
    def type(self):
        k, v = self.next()
        if k == "word":
            if v == "void":
                t = VOID
            elif v[0] == "i" and v[1:].isdigit():
                t = intT(int(v[1:]))
            elif v in _FPS:
                t = _FPS[v]
            elif v == "label":
                t = LABEL
            elif v == "metadata":
                t = META
            elif v == "opaque":
                t = StructT([], opaque=True)
            elif v == "ptr":
                t = I8P
            else:
                raise IRError("unsupported IR: type %r" % v)
        elif k == "lid":
            n = _unq(v)
            t = self.mod.types.get(n)
            if t is None:
                t = self.mod.types[n] = StructT([], name=n, opaque=True)
        elif v == "[":
            n = int(self.next()[1])
            self.expect("x")
            e = self.type()
            self.expect("]")
            t = ArrT(n, e)
        elif v == "{":
            t = StructT(self._tlist("}"))
        elif v == "<":
            if self.peek()[1] == "{":
                self.next()
                el = self._tlist("}")
                self.expect(">")
                t = StructT(el, packed=True)
            else:
                n = int(self.next()[1])
                self.expect("x")
                e = self.type()
                self.expect(">")
                t = VecT(n, e)
        else:
            raise IRError("unsupported IR: type token %r" % v)
        while True:
            if self.accept("*"):
                t = PtrT(t)
            elif self.peek()[1] == "(":
                self.next()
                ps = []
                va = False
                while not self.accept(")"):
                    if self.peek()[0] == "dots":
                        self.next()
                        va = True
                    else:
                        ps.append(self.type())
                        self._skip_param_attrs()
                    self.accept(",")
                t = FuncT(t, ps, va)
            else:
                break
        return t

    def _tlist(self, close):
        el = []
        while not self.accept(close):
            el.append(self.type())
            self.accept(",")
        return el

    _PATTR = {"noundef", "nonnull", "nocapture", "readonly", "writeonly", "readnone", "noalias", "signext",
              "zeroext", "returned", "immarg", "inreg", "nest", "nofree", "swiftself", "noinline", "inalloca"}
    _PATTR_ARG = {"align", "dereferenceable", "dereferenceable_or_null", "sret", "byval", "byref", "preallocated",
                  "elementtype"}

    def _skip_param_attrs(self):
        while True:
            k, v = self.peek()
            if k == "word" and v in self._PATTR:
                self.next()
            elif k == "word" and v in self._PATTR_ARG:
                self.next()
                if self.peek()[1] == "(":
                    d = 0
                    while True:
                        x = self.next()[1]
                        if x == "(":
                            d += 1
                        elif x == ")":
                            d -= 1
                            if d == 0:
                                break
                elif self.peek()[0] == "num":
                    self.next()
            else:
                break

    # ---- values
    def value(self, ty):
        """Parse a value of (already parsed) type ty -> value tuple."""
        k, v = self.next()
        if k == "lid":
            return ("local", _unq(v))
        if k == "gid":
            return ("global", _unq(v))
        if k == "num":
            if ty.kind == "fp":
                return ("fp", Fraction(v))
            if ty.kind == "int":
                return ("int", int(v) & ((1 << ty.bits) - 1))
            raise IRError("unsupported IR: number for type %s" % ty.s())
        if k == "hex":
            if ty.kind == "fp":
                return ("fp", _hexfp(v, ty))
            return ("int", int(v, 16))
        if k == "str":
            return ("bytes", _cstr(v))
        if k == "word":
            if v == "true":
                return ("int", 1)
            if v == "false":
                return ("int", 0)
            if v == "null":
                return ("null",)
            if v in ("undef", "poison"):
                return ("undef",)
            if v == "zeroinitializer":
                return ("zero",)
            if v in ("getelementptr", "bitcast", "ptrtoint", "inttoptr", "sub", "add", "trunc", "zext", "sext",
                     "icmp", "select", "and", "or", "mul", "shl", "lshr"):
                return self.cexpr(v)
            raise IRError("unsupported IR: value word %r" % v)
        if v == "{" or v == "[":
            close = "}" if v == "{" else "]"
            items = []
            while not self.accept(close):
                t = self.type()
                items.append((t, self.value(t)))
                self.accept(",")
            return ("agg", items)
        if v == "<":
            if self.peek()[1] == "{":
                self.next()
                items = []
                while not self.accept("}"):
                    t = self.type()
                    items.append((t, self.value(t)))
                    self.accept(",")
                self.expect(">")
                return ("agg", items)
            raise IRError("unsupported IR: vector constant")
        if k == "meta":
            return ("meta", v)
        raise IRError("unsupported IR: value token %r" % (v,))

    def tv(self):
        t = self.type()
        self._skip_param_attrs()
        return (t, self.value(t))

    def cexpr(self, op):
        if op == "getelementptr":
            inb = self.accept("inbounds")
            self.expect("(")
            bt = self.type()
            self.expect(",")
            ops = []
            while True:
                self.accept("inrange")
                ops.append(self.tv())
                if not self.accept(","):
                    break
            self.expect(")")
            return ("cexpr", "getelementptr", bt, ops)
        if op in ("bitcast", "ptrtoint", "inttoptr", "trunc", "zext", "sext"):
            self.expect("(")
            a = self.tv()
            self.expect("to")
            t = self.type()
            self.expect(")")
            return ("cexpr", op, a, t)
        if op in ("sub", "add", "and", "or", "mul", "shl", "lshr"):
            while self.peek()[1] in ("nuw", "nsw", "exact"):
                self.next()
            self.expect("(")
            a = self.tv()
            self.expect(",")
            b = self.tv()
            self.expect(")")
            return ("cexpr", op, a, b)
        if op == "icmp":
            pred = self.next()[1]
            self.expect("(")
            a = self.tv()
            self.expect(",")
            b = self.tv()
            self.expect(")")
            return ("cexpr", "icmp", pred, a, b)
        if op == "select":
            self.expect("(")
            a = self.tv()
            self.expect(",")
            b = self.tv()
            self.expect(",")
            c = self.tv()
            self.expect(")")
            return ("cexpr", "select", a, b, c)
        raise IRError("unsupported IR: constant expression %s" % op)


def _hexfp(v, ty):
    if v[2] in "KLMHR":
        if v[2] == "K":  # x86_fp80: 20 hex digits
            raw = int(v[3:], 16)
            sign = -1 if (raw >> 79) & 1 else 1
            e = (raw >> 64) & 0x7fff
            m = raw & ((1 << 64) - 1)
            if e == 0x7fff:
                return float("inf") * sign if (m << 1) & ((1 << 64) - 1) == 0 else float("nan")
            return sign * Fraction(m) * Fraction(2) ** (e - 16383 - 63)
        raise IRError("unsupported IR: fp constant %s" % v)
    bits = int(v, 16)
    f = _struct.unpack("<d", _struct.pack("<Q", bits))[0]
    if f != f or f in (float("inf"), float("-inf")):
        return f
    return Fraction(f)


_FASTMATH = {"nnan", "ninf", "nsz", "arcp", "contract", "afn", "reassoc", "fast"}
_LINKAGE = {"private", "internal", "available_externally", "linkonce", "weak", "common", "appending", "extern_weak",
            "linkonce_odr", "weak_odr", "external", "dso_local", "dso_preemptable", "hidden", "protected", "default",
            "unnamed_addr", "local_unnamed_addr", "thread_local", "externally_initialized"}
_BINOPS = {"add", "sub", "mul", "udiv", "sdiv", "urem", "srem", "shl", "lshr", "ashr", "and", "or", "xor", "fadd",
           "fsub", "fmul", "fdiv", "frem"}
_CASTS = {"trunc", "zext", "sext", "fptrunc", "fpext", "fptoui", "fptosi", "uitofp", "sitofp", "ptrtoint",
          "inttoptr", "bitcast", "addrspacecast"}
_CC = {"ccc", "fastcc", "coldcc", "tailcc"}
_RETATTR = {"noundef", "nonnull", "signext", "zeroext", "noalias", "inreg"}


def _strip_meta(toks):
    """Drop trailing ', !tbaa !5' style metadata attachments."""
    for j, (k, v) in enumerate(toks):
        if k == "meta" and j > 0 and toks[j - 1][1] == ",":
            return toks[:j - 1]
    return toks


def parse_instr(line, mod):
    toks = lex(line)
    p = P(toks, mod)
    dst = None
    if p.peek(1)[1] == "=" and p.peek()[0] == "lid":
        dst = _unq(p.next()[1])
        p.next()
    k, op = p.next()
    ins = _parse_op(p, op, dst, mod)
    ins.text = line.strip()
    return ins


def _skip_words(p, words):
    while p.peek()[0] == "word" and p.peek()[1] in words:
        p.next()


def _parse_op(p, op, dst, mod):
    if op in _BINOPS:
        _skip_words(p, {"nuw", "nsw", "exact"} | _FASTMATH)
        t = p.type()
        a = p.value(t)
        p.expect(",")
        b = p.value(t)
        return Instr(op, dst, t, [(t, a), (t, b)])
    if op == "fneg":
        _skip_words(p, _FASTMATH)
        t = p.type()
        a = p.value(t)
        return Instr(op, dst, t, [(t, a)])
    if op in _CASTS:
        a = p.tv()
        p.expect("to")
        t = p.type()
        return Instr(op, dst, t, [a])
    if op == "icmp" or op == "fcmp":
        _skip_words(p, _FASTMATH)
        pred = p.next()[1]
        t = p.type()
        a = p.value(t)
        p.expect(",")
        b = p.value(t)
        return Instr(op, dst, I1, [(t, a), (t, b)], extra=pred)
    if op == "load":
        _skip_words(p, {"volatile", "atomic"})
        t = p.type()
        p.expect(",")
        a = p.tv()
        return Instr(op, dst, t, [a])
    if op == "store":
        _skip_words(p, {"volatile", "atomic"})
        v = p.tv()
        p.expect(",")
        a = p.tv()
        return Instr(op, None, VOID, [v, a])
    if op == "getelementptr":
        p.accept("inbounds")
        bt = p.type()
        p.expect(",")
        ops = []
        while True:
            ops.append(p.tv())
            if not p.accept(","):
                break
            if p.peek()[0] == "meta":
                break
        return Instr(op, dst, None, ops, extra=bt)
    if op == "alloca":
        p.accept("inalloca")
        t = p.type()
        n = None
        if p.accept(","):
            if p.peek()[1] == "align":
                pass
            elif p.peek()[0] != "meta":
                n = p.tv()
        return Instr(op, dst, PtrT(t), [n] if n else [], extra=t)
    if op == "br":
        if p.peek()[1] == "label":
            p.next()
            return Instr(op, None, VOID, [], extra=[_unq(p.next()[1])])
        c = p.tv()
        p.expect(",")
        p.expect("label")
        a = _unq(p.next()[1])
        p.expect(",")
        p.expect("label")
        b = _unq(p.next()[1])
        return Instr("condbr", None, VOID, [c], extra=[a, b])
    if op == "switch":
        c = p.tv()
        p.expect(",")
        p.expect("label")
        dflt = _unq(p.next()[1])
        p.expect("[")
        cases = []
        while not p.accept("]"):
            t = p.type()
            v = p.value(t)
            p.expect(",")
            p.expect("label")
            cases.append((v[1], _unq(p.next()[1])))
        return Instr(op, None, VOID, [c], extra=(dflt, cases))
    if op == "ret":
        t = p.type()
        if t.kind == "void":
            return Instr(op, None, VOID, [])
        return Instr(op, None, t, [(t, p.value(t))])
    if op == "unreachable":
        return Instr(op, None, VOID, [])
    if op == "resume":
        return Instr(op, None, VOID, [p.tv()])
    if op == "phi":
        _skip_words(p, _FASTMATH)
        t = p.type()
        inc = []
        while True:
            p.expect("[")
            v = p.value(t)
            p.expect(",")
            l = _unq(p.next()[1])
            p.expect("]")
            inc.append((v, l))
            if not p.accept(","):
                break
            if p.peek()[0] == "meta":
                break
        return Instr(op, dst, t, [], extra=inc)
    if op == "select":
        _skip_words(p, _FASTMATH)
        c = p.tv()
        p.expect(",")
        a = p.tv()
        p.expect(",")
        b = p.tv()
        return Instr(op, dst, a[0], [c, a, b])
    if op in ("call", "invoke") or (op in ("tail", "musttail", "notail") and p.peek()[1] == "call"):
        if op in ("tail", "musttail", "notail"):
            p.next()
            op = "call"
        _skip_words(p, _FASTMATH | _CC | _RETATTR)
        while p.peek()[0] == "word" and p.peek()[1] in ("align", "dereferenceable", "dereferenceable_or_null"):
            p._skip_param_attrs()
            _skip_words(p, _RETATTR)
        rt = p.type()
        # rt may be a full function type (for varargs) followed by callee
        callee = p.value(PtrT(rt))
        fty = None
        if rt.kind == "ptr" and rt.elem.kind == "func":
            fty = rt.elem
            rt = fty.ret
        elif rt.kind == "func":
            fty = rt
            rt = fty.ret
        p.expect("(")
        args = []
        while not p.accept(")"):
            t = p.type()
            p._skip_param_attrs()
            args.append((t, p.value(t)))
            p.accept(",")
        extra = {"callee": callee, "fty": fty}
        # function attrs / operand bundles
        while not p.at_end():
            k, v = p.peek()
            if k == "attr" or (k == "word" and v not in ("to", "unwind")):
                p.next()
                if p.peek()[1] == "(":
                    d = 0
                    while True:
                        x = p.next()[1]
                        if x == "(":
                            d += 1
                        elif x == ")":
                            d -= 1
                            if d == 0:
                                break
            elif v == "[":
                raise IRError("unsupported IR: operand bundle")
            else:
                break
        if op == "invoke":
            p.expect("to")
            p.expect("label")
            extra["normal"] = _unq(p.next()[1])
            p.expect("unwind")
            p.expect("label")
            extra["unwind"] = _unq(p.next()[1])
        return Instr(op, dst, rt, args, extra=extra)
    if op == "landingpad":
        t = p.type()
        cleanup = False
        clauses = []
        while not p.at_end():
            k, v = p.peek()
            if v == "cleanup":
                p.next()
                cleanup = True
            elif v == "catch":
                p.next()
                clauses.append(("catch", p.tv()))
            elif v == "filter":
                p.next()
                clauses.append(("filter", p.tv()))
            else:
                break
        return Instr(op, dst, t, [], extra=(cleanup, clauses))
    if op == "extractvalue":
        a = p.tv()
        idx = []
        while p.accept(","):
            if p.peek()[0] == "meta":
                break
            idx.append(int(p.next()[1]))
        return Instr(op, dst, None, [a], extra=idx)
    if op == "insertvalue":
        a = p.tv()
        p.expect(",")
        b = p.tv()
        idx = []
        while p.accept(","):
            if p.peek()[0] == "meta":
                break
            idx.append(int(p.next()[1]))
        return Instr(op, dst, a[0], [a, b], extra=idx)
    if op == "freeze":
        a = p.tv()
        return Instr(op, dst, a[0], [a])
    if op == "va_arg":
        a = p.tv()
        p.expect(",")
        t = p.type()
        return Instr(op, dst, t, [a])
    raise IRError("unsupported IR: instruction %r" % op)


_DEF_RE = re.compile(r"^(define|declare)\b")


def parse_module(text, only_funcs=None):
    mod = Module()
    lines = text.split("\n")
    i = 0
    n = len(lines)
    # pass 1: named types (so that forward references resolve to the same object)
    for ln in lines:
        if ln.startswith("%") and " = type " in ln:
            name, rhs = ln.split(" = type ", 1)
            nm = _unq(name.strip())
            if nm not in mod.types:
                mod.types[nm] = StructT([], name=nm, opaque=True)
    for ln in lines:
        if ln.startswith("%") and " = type " in ln:
            name, rhs = ln.split(" = type ", 1)
            nm = _unq(name.strip())
            st = mod.types[nm]
            rhs = rhs.strip()
            if rhs == "opaque":
                continue
            p = P(lex(rhs), mod)
            t = p.type()
            st.elems = t.elems
            st.packed = t.packed
            st.opaque = False
    while i < n:
        ln = lines[i]
        if not ln or ln[0] == ";" or ln.startswith(("source_filename", "target ", "attributes ", "!", "%", "$", "module asm")):
            i += 1
            continue
        if ln[0] == "@":
            _parse_global(ln, mod)
            i += 1
            continue
        if ln.startswith("declare"):
            f = _parse_fhead(ln, mod)
            mod.funcs.setdefault(f.name, f)
            i += 1
            continue
        if ln.startswith("define"):
            f = _parse_fhead(ln, mod)
            j = i + 1
            body = []
            while lines[j] != "}":
                body.append(lines[j])
                j += 1
            f.nlines = j - i
            if only_funcs is None or f.name in only_funcs:
                _parse_body(f, body, mod)
            else:
                f.blocks = {}
            mod.funcs[f.name] = f
            i = j + 1
            continue
        raise IRError("unsupported IR: top-level line %r" % ln[:80])
    return mod


def _parse_global(ln, mod):
    toks = lex(ln)
    p = P(toks, mod)
    name = _unq(p.next()[1])
    p.expect("=")
    external = False
    tls = False
    while p.peek()[0] == "word" and p.peek()[1] in _LINKAGE:
        if p.peek()[1] in ("external", "extern_weak"):
            external = True
        v = p.next()[1]
        if v == "thread_local":
            tls = True
        if v == "thread_local" and p.peek()[1] == "(":
            while p.next()[1] != ")":
                pass
    k, v = p.next()
    if v == "alias" or v == "ifunc":
        t = p.type()
        p.expect(",")
        tgt = p.tv()
        mod.aliases[name] = tgt
        return
    if v not in ("global", "constant"):
        raise IRError("unsupported IR: global %r" % ln[:80])
    const = v == "constant"
    t = p.type()
    init = None
    if not p.at_end() and p.peek()[1] != ",":
        init = p.value(t)
    mod.globals[name] = Global(name, t, init, const, external and init is None)
    mod.globals[name].thread_local = tls


def _parse_fhead(ln, mod):
    toks = lex(ln)
    p = P(toks, mod)
    p.next()  # define/declare
    _skip_words(p, _LINKAGE | _CC | _RETATTR)
    while p.peek()[0] == "word" and p.peek()[1] in ("align", "dereferenceable", "dereferenceable_or_null"):
        p._skip_param_attrs()
        _skip_words(p, _RETATTR)
    # type() would swallow the parameter list as a function type: parse return type manually
    rt = _ret_type(p)
    name = _unq(p.next()[1])
    p.expect("(")
    params = []
    va = False
    idx = 0
    while not p.accept(")"):
        if p.peek()[0] == "dots":
            p.next()
            va = True
        else:
            t = _ret_type(p)
            p._skip_param_attrs()
            pn = None
            if p.peek()[0] == "lid":
                pn = _unq(p.next()[1])
            params.append((t, pn))
        p.accept(",")
    rest = " ".join(v for k, v in p.t[p.i:])
    f = Func(name, FuncT(rt, [t for t, _ in params], va), params, rest)
    return f


def _ret_type(p):
    """type() but never consume a following '(' as a function-type suffix when the next token after the
    matching ')' is not '*' (i.e. distinguishes `void ()* %x` from `void @f(`)."""
    # parse base + pointer stars manually
    save = p.i
    t = p.type()
    # if type() consumed a paren group that was actually the parameter list, back off
    if t.kind == "func":
        # re-parse without function suffix
        p.i = save
        t = _type_nofunc(p)
    return t


def _type_nofunc(p):
    # minimal re-implementation: base type then '*'s; stops before '('
    toks = p.t
    # temporarily hide '(' by slicing: find end of base type
    k, v = p.peek()
    depth = 0
    j = p.i
    # scan base
    if v in ("[", "{", "<"):
        opn = {"[": "]", "{": "}", "<": ">"}
        stack = []
        while True:
            x = toks[j][1]
            if x in opn:
                stack.append(opn[x])
            elif stack and x == stack[-1]:
                stack.pop()
                if not stack:
                    j += 1
                    break
            j += 1
    else:
        j += 1
    while j < len(toks) and toks[j][1] == "*":
        j += 1
    # function pointer types like `void (i32)*` : '(' ... ')' followed by '*'
    while j < len(toks) and toks[j][1] == "(":
        d = 0
        q = j
        while True:
            x = toks[q][1]
            if x == "(":
                d += 1
            elif x == ")":
                d -= 1
                if d == 0:
                    break
            q += 1
        if q + 1 < len(toks) and toks[q + 1][1] == "*":
            j = q + 1
            while j < len(toks) and toks[j][1] == "*":
                j += 1
        else:
            break
    sub = P(toks[p.i:j], p.mod)
    t = sub.type()
    p.i = j
    return t


def _parse_body(f, body, mod):
    # join continuation lines
    joined = []
    for ln in body:
        if not ln.strip():
            continue
        s = ln.strip()
        if s.startswith(";"):
            continue
        if joined and (joined[-1][1] or (ln.startswith("   ") and
                                         s.startswith(("to label", "catch ", "cleanup", "filter ")))):
            txt, open_sw = joined[-1]
            txt = txt + " " + s
            joined[-1] = (txt, open_sw and not s.startswith("]"))
            continue
        open_sw = s.startswith("switch ") and s.endswith("[")
        joined.append((ln, open_sw))
    blocks = {}
    order = []
    cur = None
    first = True
    for ln, _ in joined:
        if not ln.startswith(" "):
            # label line: "name:   ; preds = ..."
            m = re.match(r'^("(?:[^"\\]|\\.)*"|[-a-zA-Z$._0-9]+):', ln)
            if not m:
                raise IRError("unsupported IR: body line %r" % ln[:80])
            lab = m.group(1)
            if lab.startswith('"'):
                lab = lab[1:-1]
            cur = blocks[lab] = []
            order.append(lab)
            first = False
            continue
        if cur is None:
            # unnamed entry block: label is the next unnamed number == number of params (rare with value names kept)
            lab = str(len([1 for _, nm in f.params if nm is None or nm.isdigit()]))
            if first:
                lab = "entry" if False else lab
            cur = blocks[lab] = []
            order.append(lab)
            first = False
        ins = parse_instr(_strip_dbg(ln), mod)
        cur.append(ins)
    f.blocks = blocks
    f.order = order


_META_TAIL = re.compile(r"(?:,\s*![a-zA-Z_.][-a-zA-Z_.0-9]*\s+!(?:[0-9]+|\{[^}]*\}|DIExpression\([^)]*\)))+\s*$")


def _strip_dbg(ln):
    # remove trailing metadata attachments: ", !tbaa !5, !dbg !10"
    return _META_TAIL.sub("", ln)
