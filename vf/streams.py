"""iostream model for engine B.

A stream object is identified by its address.  Its content is a python list of byte values (ints or z3
BV8); numbers written with operator<< (double, symbolic ints) are stored as *placeholders*
  0e+9NNNNNN   (a syntactically valid float literal that no real dump prints; NNNNNN = index)
referring to a per-path token table, so that text can travel through strings, getline and the real parser
code and be turned back into the same (possibly symbolic) term by operator>> / strtod.  Decimal rendering of
doubles is therefore outside every claim (stated in the evidence).

Layout facts (libstdc++ 12, x86-64, measured): virtual-base offsets ostringstream 112, istringstream 120,
stringstream 128, ifstream 256, ofstream 248; ios_base::_M_streambuf_state at +32, basic_ios::_M_ctype +240.
"""
import re, math
from fractions import Fraction
import z3
from . import irparse as ir
from .symval import *  # noqa
from . import irsym as S

VBOFF = {"ostringstream": 112, "istringstream": 120, "stringstream": 128, "ifstream": 256, "ofstream": 248}
SBOFF = {"ostringstream": 8, "istringstream": 16, "stringstream": 24}
EOFBIT, FAILBIT, BADBIT = 2, 4, 1
MANGLED = {
    "ostringstream": "NSt7__cxx1119basic_ostringstreamIcSt11char_traitsIcESaIcEE",
    "istringstream": "NSt7__cxx1119basic_istringstreamIcSt11char_traitsIcESaIcEE",
    "stringstream": "NSt7__cxx1118basic_stringstreamIcSt11char_traitsIcESaIcEE",
    "ofstream": "NSt14basic_ofstreamIcSt11char_traitsIcEE",
    "ifstream": "NSt14basic_ifstreamIcSt11char_traitsIcEE",
}
WS = (32, 9, 10, 11, 12, 13)


def kind_of_symbol(name):
    for k, m in MANGLED.items():
        if m in name:
            return k
    return None


def install(E):
    X = E.externs

    # ---------------------------------------------------------------- records
    def key(p):
        if not isinstance(p, Ptr) or not isinstance(p.off, int):
            raise EngineError("symbolic or non-pointer stream address")
        return (p.obj, p.off)

    def rec(st, p, create=None, write=False):
        s = st.user.get("streams") or {}
        k = key(p)
        r = s.get(k)
        if r is None:
            if create is None:
                return None
            r = {"kind": create, "buf": [], "pos": 0, "vboff": VBOFF.get(create, 0)}
            write = True
        if write:
            s = dict(s)
            r = dict(r)
            r["buf"] = list(r["buf"])
            s[k] = r
            st.user["streams"] = s
        return r

    def need(st, p, write=False):
        r = rec(st, p, write=write)
        if r is None:
            # a std::istream*/ostream* that is a sub-object at a small offset of a known stream?
            raise EngineError("stream operation on an object that is not a modelled stream: %r" % (p,))
        return r
    E.stream_rec = need

    def owner(st, p):
        """stream record containing address p (sub-object such as its stringbuf / filebuf / ios)"""
        s = st.user.get("streams") or {}
        best = None
        for (o, off) in s:
            if o == p.obj and isinstance(p.off, int) and off <= p.off and (best is None or off > best[1]):
                best = (o, off)
        if best is None:
            raise EngineError("operation on a stream sub-object whose stream is not modelled")
        return Ptr(best[0], best[1])

    def ios_ptr(p, r):
        return Ptr(p.obj, p.off + r["vboff"])

    def get_state(E, st, p, r):
        return E.load(st, Ptr(p.obj, p.off + r["vboff"] + 32), ir.I32)

    def set_state(E, st, p, r, v):
        E.store(st, Ptr(p.obj, p.off + r["vboff"] + 32), ir.I32, v)

    # ---------------------------------------------------------------- vtables / ctype
    def model_vtable(E, st, kind):
        name = "%vt_" + kind
        oid = st.globals.get(name)
        if oid is None:
            o = E.new_obj(st, 256, name="vtable(model) " + kind, zero=True, kind="global")
            o.cells[64 - 24] = (VBOFF.get(kind, 0), 8)
            o.cells[64] = (Ptr("@vfmodel_%s_D1" % kind, 0), 8)
            o.cells[72] = (Ptr("@vfmodel_%s_D0" % kind, 0), 8)
            st.globals[name] = oid = o.id
        return Ptr(oid, 64)
    E.stream_model_vtable = model_vtable

    def model_ctype(E, st):
        oid = st.globals.get("%ctype")
        if oid is None:
            o = E.new_obj(st, 57 + 256 + 8, name="ctype(model)", zero=True, kind="global")
            o.cells[56] = (1, 1)  # _M_widen_ok
            for c in range(256):
                o.cells[57 + c] = (c, 1)
            st.globals["%ctype"] = oid = o.id
        return Ptr(oid, 0)

    def init_object(E, st, this, kind):
        """write the fields that header-inlined libstdc++ code reads"""
        E.store(st, this, ir.I8P, model_vtable(E, st, kind))
        vb = VBOFF[kind]
        if kind in ("istringstream", "ifstream", "stringstream"):
            E.store(st, Ptr(this.obj, this.off + 8), ir.I64, 0)  # _M_gcount
        ios = Ptr(this.obj, this.off + vb)
        E.store(st, ios, ir.I8P, model_vtable(E, st, kind))
        E.store(st, Ptr(ios.obj, ios.off + 8), ir.I64, 6)  # precision
        E.store(st, Ptr(ios.obj, ios.off + 16), ir.I64, 0)  # width
        E.store(st, Ptr(ios.obj, ios.off + 24), ir.I32, 0x1002)  # flags: skipws|dec
        E.store(st, Ptr(ios.obj, ios.off + 28), ir.I32, 0)  # exceptions
        E.store(st, Ptr(ios.obj, ios.off + 32), ir.I32, 0)  # state
        E.store(st, Ptr(ios.obj, ios.off + 216), ir.I8P, NULL)  # tie
        E.store(st, Ptr(ios.obj, ios.off + 224), ir.I8, 32)
        E.store(st, Ptr(ios.obj, ios.off + 225), ir.I8, 1)
        E.store(st, Ptr(ios.obj, ios.off + 240), ir.I8P, model_ctype(E, st))
        if kind in SBOFF:
            sb = this.off + SBOFF[kind]
            E.store(st, Ptr(this.obj, sb), ir.I8P, model_vtable(E, st, "stringbuf"))
            for off in (8, 16, 24, 32, 40, 48):
                E.store(st, Ptr(this.obj, sb + off), ir.I8P, NULL)
            E.store(st, Ptr(this.obj, sb + 64), ir.I32, 16 if kind == "ostringstream" else 8)
            make_string(E, st, Ptr(this.obj, sb + 72), [])
            E.store(st, Ptr(ios.obj, ios.off + 232), ir.I8P, Ptr(this.obj, sb))
        else:
            fb = this.off + (16 if kind == "ifstream" else 8)
            E.store(st, Ptr(ios.obj, ios.off + 232), ir.I8P, Ptr(this.obj, fb))

    # ---------------------------------------------------------------- strings
    def make_string(E, st, dst, data):
        n = len(data)
        if n < 16:
            bufp = Ptr(dst.obj, E.padd(dst.off, 16))
        else:
            o = E.new_obj(st, n + 1, name="heap%d" % E.next_obj, kind="heap")
            bufp = Ptr(o.id, 0)
            E.store(st, Ptr(dst.obj, E.padd(dst.off, 16)), ir.I64, n)
        E.store(st, dst, ir.I8P, bufp)
        E.store(st, Ptr(dst.obj, E.padd(dst.off, 8)), ir.I64, n)
        for i, b in enumerate(data):
            E.store(st, Ptr(bufp.obj, E.padd(bufp.off, i)), ir.I8, b)
        E.store(st, Ptr(bufp.obj, E.padd(bufp.off, n)), ir.I8, 0)
    E.make_string = make_string

    def read_n(E, st, p, n):
        out = []
        if n == 0:
            return out
        o, off = E.deref(st, p, n)
        for i in range(n):
            v = E._byte_of(o, off + i)
            if v is None:
                raise S.MemError("stream/string read of uninitialised byte")
            if isinstance(v, tuple):
                raise EngineError("pointer bytes read as text")
            out.append(v)
        return out

    def std_string_bytes(E, st, p):
        data = E.load(st, p, ir.I8P)
        n = E.load(st, Ptr(p.obj, E.padd(p.off, 8)), ir.I64)
        if is_sym(n):
            raise S.SymOffset(bv(n, 64))
        return read_n(E, st, data, n)
    E.std_string_bytes = std_string_bytes

    def assign_string(E, st, sp, data):
        """overwrite an existing, valid std::string (old heap buffer is leaked: allocation accounting for
        std::string internals is outside the claim)"""
        make_string(E, st, sp, data)
    E.assign_string = assign_string

    # ---------------------------------------------------------------- tokens
    def enc(i):
        return list(("0e+9%06d" % i).encode())

    def token(st, kind, term):
        if kind != "double":
            raise EngineError("symbolic integer written to a text stream (unsupported)")
        t = list(st.user.get("tokens") or [])
        for i, (k, v) in enumerate(t):
            if k == kind and (v is term or (is_sym(v) and is_sym(term) and v.eq(term)) or
                              (not is_sym(v) and not is_sym(term) and v == term and type(v) is type(term))):
                return enc(i)
        t.append((kind, term))
        st.user["tokens"] = t
        return enc(len(t) - 1)

    def token_value(st, idx):
        t = st.user.get("tokens") or []
        if idx >= len(t):
            raise EngineError("dangling number placeholder in text")
        return t[idx]
    E.token_value = token_value

    def cb(b):
        """concrete byte or fork"""
        if is_sym(b):
            b = z3.simplify(b)
            if z3.is_bv_value(b):
                return b.as_long()
            raise S.SymByte(b)
        return b

    # ---------------------------------------------------------------- construction / destruction
    def ctor(kind):
        def f(E, st, fr, ins, a):
            this = a[0]
            r = rec(st, this, create=kind, write=True)
            r["buf"] = []
            r["pos"] = 0
            r["kind"] = kind
            r["vboff"] = VBOFF[kind]
            init_object(E, st, this, kind)
            return None
        return f

    def dtor(kind, deleting):
        def f(E, st, fr, ins, a):
            this = a[0]
            s = dict(st.user.get("streams") or {})
            s.pop(key(this), None)
            st.user["streams"] = s
            op = dict(st.user.get("opened") or {})
            if key(this) in op:
                st.trace.append(("file.close", op.pop(key(this)).decode(errors="replace")))
                st.user["opened"] = op
            if deleting:
                X["free"](E, st, fr, ins, [this])
            return None
        return f

    for kind, mang in MANGLED.items():
        X["_Z%sC1Ev" % mang] = ctor(kind)
        X["_Z%sC2Ev" % mang] = ctor(kind)
        for d in ("D1", "D2"):
            X["_Z%s%sEv" % (mang, d)] = dtor(kind, False)
        X["_Z%sD0Ev" % mang] = dtor(kind, True)
        X["vfmodel_%s_D1" % kind] = dtor(kind, False)
        X["vfmodel_%s_D0" % kind] = dtor(kind, True)

    def ctor_mode(kind):
        def f(E, st, fr, ins, a):
            return ctor(kind)(E, st, fr, ins, a)
        return f
    for kind in ("ostringstream", "istringstream", "stringstream"):
        X["_Z%sC1ESt13_Ios_Openmode" % MANGLED[kind]] = ctor_mode(kind)

    def ctor_str(kind):
        def f(E, st, fr, ins, a):
            ctor(kind)(E, st, fr, ins, a)
            r = need(st, a[0], write=True)
            r["buf"] = std_string_bytes(E, st, a[1])
            sync_out(E, st, a[0], r)
            return None
        return f
    for kind in ("ostringstream", "istringstream", "stringstream"):
        for c in ("C1", "C2"):
            X["_Z%s%sERKNS_12basic_stringIcS2_S3_EESt13_Ios_Openmode" % (MANGLED[kind], c)] = ctor_str(kind)

    # ---------------------------------------------------------------- files
    def vf_file(E, st, fr, ins, a):
        files = dict(st.user.get("vfiles") or {})
        files[E.cstring(st, a[0])] = list(E.cstring(st, a[1]))
        st.user["vfiles"] = files
        return None
    X["vf_file"] = vf_file

    def filebuf_open(E, st, fr, ins, a):
        sp = owner(st, a[0])
        r = need(st, sp, write=True)
        name = E.cstring(st, a[1])
        st.trace.append(("file.open", name.decode(errors="replace"), a[2]))
        files = st.user.get("vfiles") or {}
        opened = dict(st.user.get("opened") or {})
        if r["kind"] == "ifstream":
            if name in files:
                r["buf"] = list(files[name])
                r["pos"] = 0
                opened[key(sp)] = name
                st.user["opened"] = opened
                return a[0]
            return NULL
        if name in (st.user.get("unwritable") or ()):
            return NULL
        opened[key(sp)] = name
        st.user["opened"] = opened
        # what is written becomes the content of the (virtual) file: truncated on open unless std::ios_base::app
        mode = a[2] if isinstance(a[2], int) else 16
        nf = dict(files)
        if not (mode & 1) or name not in nf:
            nf[name] = []
        st.user["vfiles"] = nf
        return a[0]
    X["_ZNSt13basic_filebufIcSt11char_traitsIcEE4openEPKcSt13_Ios_Openmode"] = filebuf_open

    def vf_unwritable(E, st, fr, ins, a):
        u = set(st.user.get("unwritable") or ())
        u.add(E.cstring(st, a[0]))
        st.user["unwritable"] = u
        return None
    X["vf_unwritable"] = vf_unwritable

    def open_ctor(kind):
        def f(E, st, fr, ins, a):
            ctor(kind)(E, st, fr, ins, a)
            fb = Ptr(a[0].obj, a[0].off + (16 if kind == "ifstream" else 8))
            ok = filebuf_open(E, st, fr, ins, [fb, a[1], a[2]])
            if ok.is_null():
                r = need(st, a[0])
                set_state(E, st, a[0], r, FAILBIT)
            return None
        return f
    for c in ("C1", "C2"):
        X["_ZNSt14basic_ofstreamIcSt11char_traitsIcEE%sEPKcSt13_Ios_Openmode" % c] = open_ctor("ofstream")
        X["_ZNSt14basic_ifstreamIcSt11char_traitsIcEE%sEPKcSt13_Ios_Openmode" % c] = open_ctor("ifstream")

    def filebuf_close(E, st, fr, ins, a):
        sp = owner(st, a[0])
        opened = dict(st.user.get("opened") or {})
        was = opened.pop(key(sp), None)
        st.user["opened"] = opened
        st.trace.append(("file.close", (was or b"?").decode(errors="replace")))
        return a[0] if was is not None else NULL
    X["_ZNSt13basic_filebufIcSt11char_traitsIcEE5closeEv"] = filebuf_close

    def is_open(E, st, fr, ins, a):
        sp = owner(st, a[0])
        return int(key(sp) in (st.user.get("opened") or {}))
    X["_ZNKSt12__basic_fileIcE7is_openEv"] = is_open

    def nop(E, st, fr, ins, a):
        return None
    for n in ("_ZNSt13basic_filebufIcSt11char_traitsIcEED2Ev", "_ZNSt13basic_filebufIcSt11char_traitsIcEED1Ev",
              "_ZNSt13basic_filebufIcSt11char_traitsIcEEC1Ev", "_ZNSt6localeD1Ev", "_ZNSt6localeC1Ev",
              "_ZNSt8ios_baseD2Ev", "_ZNSt8ios_baseC2Ev", "_ZNSt9exceptionD2Ev", "_ZNSt9exceptionD1Ev",
              "_ZNSt8ios_base4InitC1Ev", "_ZNSt8ios_base4InitD1Ev", "_ZNKSt5ctypeIcE13_M_widen_initEv",
              "_ZNSaIcEC1Ev", "_ZNSaIcEC2Ev", "_ZNSaIcED1Ev", "_ZNSaIcED2Ev", "_ZNSaIcEC1ERKS_", "_ZNSaIcEC2ERKS_"):
        X[n] = nop

    def ios_clear(E, st, fr, ins, a):
        # this = basic_ios sub-object
        E.store(st, Ptr(a[0].obj, E.padd(a[0].off, 32)), ir.I32, a[1])
        return None
    X["_ZNSt9basic_iosIcSt11char_traitsIcEE5clearESt12_Ios_Iostate"] = ios_clear

    # ---------------------------------------------------------------- output side
    def sync_out(E, st, os_, r):
        """mirror content into the basic_stringbuf so that header-inlined str() works"""
        if r["kind"] not in SBOFF:
            return
        b = r["buf"]
        sb = os_.off + SBOFF[r["kind"]]
        n = len(b)
        o = E.new_obj(st, n + 1, name="heap%d" % E.next_obj, kind="heap")
        for i, x in enumerate(b):
            o.cells[i] = (x, 1)
        o.cells[n] = (0, 1)
        if r["kind"] != "istringstream":
            E.store(st, Ptr(os_.obj, sb + 32), ir.I8P, Ptr(o.id, 0))
            E.store(st, Ptr(os_.obj, sb + 40), ir.I8P, Ptr(o.id, n))
            E.store(st, Ptr(os_.obj, sb + 48), ir.I8P, Ptr(o.id, n))
        else:
            make_string(E, st, Ptr(os_.obj, sb + 72), list(b))

    def put_bytes(E, st, os_, data):
        r = rec(st, os_, write=True)
        if r is None:
            o = st.mem.get(os_.obj) if isinstance(os_, Ptr) else None
            if o is not None and (o.name or "") in ("@_ZSt4cerr", "@_ZSt4cout", "@_ZSt4clog"):
                return os_          # the process' standard streams: diagnostics only, discarded
            raise EngineError("output to an object that is not a modelled stream")
        r["buf"].extend(data)
        nm = (st.user.get("opened") or {}).get(key(os_))
        if nm is not None and r["kind"] != "ifstream":
            nf = dict(st.user.get("vfiles") or {})
            nf[nm] = list(nf.get(nm, [])) + list(data)
            st.user["vfiles"] = nf
        sync_out(E, st, os_, r)
        return os_

    def insert(E, st, fr, ins, a):
        n = a[2]
        if is_sym(n):
            raise S.SymOffset(bv(n, 64))
        return put_bytes(E, st, a[0], read_n(E, st, a[1], n))
    X["_ZSt16__ostream_insertIcSt11char_traitsIcEERSt13basic_ostreamIT_T0_ES6_PKS3_l"] = insert

    def ins_cstr(E, st, fr, ins, a):
        if a[1].is_null():
            return a[0]
        return put_bytes(E, st, a[0], list(E.cstring(st, a[1])))
    X["_ZStlsISt11char_traitsIcEERSt13basic_ostreamIcT_ES5_PKc"] = ins_cstr

    def ins_int(signed, bits):
        def f(E, st, fr, ins, a):
            v = a[1]
            if is_sym(v):
                v = z3.simplify(v)
                if not z3.is_bv_value(v):
                    raise S.SymOffset(v)      # integers are printed as digits: concretise by solver enumeration
                v = v.as_long()
            v = to_signed(v, bits) if signed else v
            return put_bytes(E, st, a[0], list(str(v).encode()))
        return f
    X["_ZNSolsEi"] = ins_int(True, 32)
    X["_ZNSo9_M_insertIlEERSoT_"] = ins_int(True, 64)
    X["_ZNSo9_M_insertImEERSoT_"] = ins_int(False, 64)
    X["_ZNSo9_M_insertIbEERSoT_"] = ins_int(False, 8)

    def ins_double(E, st, fr, ins, a):
        E.res.assumptions.add("doubles written to text streams travel as exact placeholders: decimal "
                              "formatting/parsing precision is outside the claim")
        return put_bytes(E, st, a[0], token(st, "double", a[1]))
    X["_ZNSo9_M_insertIdEERSoT_"] = ins_double

    def put(E, st, fr, ins, a):
        c = a[1]
        if not is_sym(c):
            c &= 255
        return put_bytes(E, st, a[0], [c])
    X["_ZNSo3putEc"] = put

    def flush(E, st, fr, ins, a):
        return a[0]
    X["_ZNSo5flushEv"] = flush

    def endl(E, st, fr, ins, a):
        return put_bytes(E, st, a[0], [10])
    X["_ZSt4endlIcSt11char_traitsIcEERSt13basic_ostreamIT_T0_ES6_"] = endl

    def tellp(E, st, fr, ins, a):
        r = need(st, a[0])
        return [len(r["buf"]), 0]
    X["_ZNSo5tellpEv"] = tellp

    def oss_str(E, st, fr, ins, a):
        r = need(st, a[1])
        make_string(E, st, a[0], list(r["buf"]))
        return None
    for kind in ("ostringstream", "istringstream", "stringstream"):
        X["_ZNK%s3strEv" % MANGLED[kind][1:]] = oss_str
        X["_ZNK%s3strEv" % MANGLED[kind]] = oss_str
    X["_ZNKSt7__cxx1119basic_ostringstreamIcSt11char_traitsIcESaIcEE3strEv"] = oss_str

    def stringbuf_sync(E, st, fr, ins, a):
        """basic_stringbuf::_M_sync(base, i, o): called by the inlined str(const string&) setter"""
        sp = owner(st, a[0])
        r = need(st, sp, write=True)
        r["buf"] = std_string_bytes(E, st, Ptr(a[0].obj, a[0].off + 72))
        r["pos"] = 0
        if r["kind"] != "istringstream":
            sync_out(E, st, sp, r)
        return None
    X["_ZNSt7__cxx1115basic_stringbufIcSt11char_traitsIcESaIcEE7_M_syncEPcmm"] = stringbuf_sync

    # ---------------------------------------------------------------- input side
    def fail(E, st, p, r, bits):
        set_state(E, st, p, r, get_state(E, st, p, r) | bits)

    def good(E, st, p, r):
        return get_state(E, st, p, r) == 0

    def setpos(st, p, pos):
        r = need(st, p, write=True)
        r["pos"] = pos
        return r

    def get(E, st, fr, ins, a):
        r = need(st, a[0])
        E.store(st, Ptr(a[0].obj, a[0].off + 8), ir.I64, 0)
        if not good(E, st, a[0], r):
            fail(E, st, a[0], r, FAILBIT)
            return mask(32)
        if r["pos"] < len(r["buf"]):
            b = r["buf"][r["pos"]]
            setpos(st, a[0], r["pos"] + 1)
            E.store(st, Ptr(a[0].obj, a[0].off + 8), ir.I64, 1)
            return b if not is_sym(b) else z3.ZeroExt(24, bv(b, 8))
        fail(E, st, a[0], r, EOFBIT | FAILBIT)
        return mask(32)
    X["_ZNSi3getEv"] = get

    def peek(E, st, fr, ins, a):
        r = need(st, a[0])
        if not good(E, st, a[0], r):
            return mask(32)
        if r["pos"] < len(r["buf"]):
            b = r["buf"][r["pos"]]
            return b if not is_sym(b) else z3.ZeroExt(24, bv(b, 8))
        fail(E, st, a[0], r, EOFBIT)
        return mask(32)
    X["_ZNSi4peekEv"] = peek

    def ignore(E, st, fr, ins, a):
        r = need(st, a[0])
        if r["pos"] < len(r["buf"]):
            setpos(st, a[0], r["pos"] + 1)
        else:
            fail(E, st, a[0], r, EOFBIT)
        return a[0]
    X["_ZNSi6ignoreEv"] = ignore

    def tellg(E, st, fr, ins, a):
        r = need(st, a[0])
        s = get_state(E, st, a[0], r)
        if s & (FAILBIT | BADBIT):
            return [mask(64), 0]
        return [r["pos"], 0]
    X["_ZNSi5tellgEv"] = tellg

    def seekg_pos(E, st, fr, ins, a):
        r = need(st, a[0])
        s = get_state(E, st, a[0], r) & ~EOFBIT
        set_state(E, st, a[0], r, s)
        if s & (FAILBIT | BADBIT):
            return a[0]
        off = to_signed(a[1], 64)
        if off < 0 or off > len(r["buf"]):
            fail(E, st, a[0], r, FAILBIT)
        else:
            setpos(st, a[0], off)
        return a[0]
    X["_ZNSi5seekgESt4fposI11__mbstate_tE"] = seekg_pos

    def seekg_off(E, st, fr, ins, a):
        r = need(st, a[0])
        s = get_state(E, st, a[0], r) & ~EOFBIT
        set_state(E, st, a[0], r, s)
        if s & (FAILBIT | BADBIT):
            return a[0]
        off = to_signed(a[1], 64)
        base = {0: 0, 1: r["pos"], 2: len(r["buf"])}[a[2]]
        np_ = base + off
        if np_ < 0 or np_ > len(r["buf"]):
            fail(E, st, a[0], r, FAILBIT)
        else:
            setpos(st, a[0], np_)
        return a[0]
    X["_ZNSi5seekgElSt12_Ios_Seekdir"] = seekg_off

    def skipws(E, st, p):
        r = need(st, p)
        pos = r["pos"]
        buf = r["buf"]
        while pos < len(buf) and cb(buf[pos]) in WS:
            pos += 1
        return setpos(st, p, pos)

    def sentry(E, st, p):
        r = need(st, p)
        if not good(E, st, p, r):
            fail(E, st, p, r, FAILBIT)
            return None
        r = skipws(E, st, p)
        if r["pos"] >= len(r["buf"]):
            fail(E, st, p, r, EOFBIT | FAILBIT)
            return None
        return r

    def take_word(E, st, p, r, pred):
        buf = r["buf"]
        pos = r["pos"]
        out = []
        while pos < len(buf) and pred(cb(buf[pos]), out):
            out.append(cb(buf[pos]))
            pos += 1
        r = setpos(st, p, pos)
        if pos >= len(buf):
            fail(E, st, p, r, EOFBIT)
        return out

    PH = re.compile(rb"[-+]?0e\+9(\d{6})$")

    def placeholder(out):
        m = PH.match(bytes(out))
        return int(m.group(1)) if m else None

    def num_pred(c, out):
        return chr(c) in "+-0123456789.eE"

    def parse_double_bytes(E, st, out):
        """-> value or None"""
        idx = placeholder(out)
        if idx is not None:
            k, v = E.token_value(st, idx)
            if k == "double":
                return v
            if is_sym(v):
                return E.fp.sitofp(v, v.size() if isinstance(v, z3.BitVecRef) else 64)
            return Fraction(v) if E.exact else float(v)
        txt = bytes(out).decode("latin1")
        m = re.match(r"[-+]?(?:\d+\.?\d*|\.\d+)(?:[eE][-+]?\d+)?$", txt)
        if not m:
            return None
        f = float(txt)
        return Fraction(txt) if E.exact else f
    E.parse_double_bytes = parse_double_bytes

    def extract_double(E, st, fr, ins, a):
        r = sentry(E, st, a[0])
        if r is None:
            return a[0]
        start = r["pos"]
        out = take_word(E, st, a[0], r, num_pred)
        # longest valid numeric prefix (operator>> stops at the first char that cannot continue a number)
        v = None
        while out:
            v = parse_double_bytes(E, st, out)
            if v is not None:
                break
            out = out[:-1]
        r = need(st, a[0])
        if v is None:
            setpos(st, a[0], start)
            E.store(st, a[1], ir.DOUBLE, E.fp.const(Fraction(0)))
            fail(E, st, a[0], need(st, a[0]), FAILBIT)
            return a[0]
        setpos(st, a[0], start + len(out))
        E.store(st, a[1], ir.DOUBLE, v)
        return a[0]
    X["_ZNSi10_M_extractIdEERSiRT_"] = extract_double

    def extract_int(bits):
        def f(E, st, fr, ins, a):
            r = sentry(E, st, a[0])
            if r is None:
                return a[0]
            start = r["pos"]
            out = take_word(E, st, a[0], r, lambda c, o: chr(c) in "0123456789" or (chr(c) in "+-" and not o))
            idx = placeholder(out)
            ty = ir.intT(bits)
            if idx is not None:
                k, v = E.token_value(st, idx)
                if k != "int":
                    raise EngineError("integer extraction of a double placeholder")
                E.store(st, a[1], ty, v)
                return a[0]
            txt = bytes(out).decode("latin1")
            if not re.match(r"[-+]?\d+$", txt):
                setpos(st, a[0], start)
                E.store(st, a[1], ty, 0)
                fail(E, st, a[0], need(st, a[0]), FAILBIT)
                return a[0]
            E.store(st, a[1], ty, int(txt) & mask(bits))
            return a[0]
        return f
    X["_ZNSirsERi"] = extract_int(32)
    X["_ZNSi10_M_extractIlEERSiRT_"] = extract_int(64)
    X["_ZNSi10_M_extractImEERSiRT_"] = extract_int(64)
    X["_ZNSi10_M_extractIjEERSiRT_"] = extract_int(32)

    def extract_bool(E, st, fr, ins, a):
        r = sentry(E, st, a[0])
        if r is None:
            return a[0]
        out = take_word(E, st, a[0], r, lambda c, o: chr(c) in "0123456789+-")
        txt = bytes(out).decode("latin1")
        if txt in ("0", "1"):
            E.store(st, a[1], ir.I8, int(txt))
        else:
            E.store(st, a[1], ir.I8, 1 if txt else 0)
            fail(E, st, a[0], need(st, a[0]), FAILBIT)
        return a[0]
    X["_ZNSi10_M_extractIbEERSiRT_"] = extract_bool

    def extract_string(E, st, fr, ins, a):
        r = sentry(E, st, a[0])
        if r is None:
            assign_string(E, st, a[1], [])
            return a[0]
        out = take_word(E, st, a[0], r, lambda c, o: c not in WS)
        assign_string(E, st, a[1], out)
        return a[0]
    X["_ZStrsIcSt11char_traitsIcESaIcEERSt13basic_istreamIT_T0_ES7_RNSt7__cxx1112basic_stringIS4_S5_T1_EE"] = extract_string

    def extract_char(E, st, fr, ins, a):
        r = sentry(E, st, a[0])
        if r is None:
            return a[0]
        E.store(st, a[1], ir.I8, r["buf"][r["pos"]])
        setpos(st, a[0], r["pos"] + 1)
        return a[0]
    X["_ZStrsIcSt11char_traitsIcEERSt13basic_istreamIT_T0_ES6_RS3_"] = extract_char

    def getline_str(E, st, fr, ins, a):
        r = need(st, a[0])
        delim = cb(a[2]) & 255
        if not good(E, st, a[0], r):
            fail(E, st, a[0], r, FAILBIT)
            return a[0]
        buf, pos = r["buf"], r["pos"]
        out = []
        found = False
        while pos < len(buf):
            c = buf[pos]
            pos += 1
            if cb(c) == delim:
                found = True
                break
            out.append(c)
        r = setpos(st, a[0], pos)
        assign_string(E, st, a[1], out)
        if not found:
            fail(E, st, a[0], r, EOFBIT | (FAILBIT if not out else 0))
        return a[0]
    X["_ZSt7getlineIcSt11char_traitsIcESaIcEERSt13basic_istreamIT_T0_ES7_RNSt7__cxx1112basic_stringIS4_S5_T1_EES4_"] = getline_str

    def getline_buf(E, st, fr, ins, a):
        r = need(st, a[0])
        n = to_signed(a[2], 64)
        delim = cb(a[3]) & 255
        E.store(st, Ptr(a[0].obj, a[0].off + 8), ir.I64, 0)
        if not good(E, st, a[0], r):
            fail(E, st, a[0], r, FAILBIT)
            if n > 0:
                E.store(st, a[1], ir.I8, 0)
            return a[0]
        buf, pos = r["buf"], r["pos"]
        out = []
        found = False
        extracted = 0
        while pos < len(buf) and len(out) < n - 1:
            c = buf[pos]
            if cb(c) == delim:
                pos += 1
                extracted += 1
                found = True
                break
            out.append(c)
            pos += 1
            extracted += 1
        r = setpos(st, a[0], pos)
        for i, c in enumerate(out + [0]):
            if n > 0:
                E.store(st, Ptr(a[1].obj, E.padd(a[1].off, i)), ir.I8, c)
        E.store(st, Ptr(a[0].obj, a[0].off + 8), ir.I64, extracted)
        if not found:
            if pos >= len(buf):
                fail(E, st, a[0], r, EOFBIT | (FAILBIT if extracted == 0 else 0))
            else:
                fail(E, st, a[0], r, FAILBIT)
        return a[0]
    X["_ZNSi7getlineEPclc"] = getline_buf

    def vf_stream_content(E, st, fr, ins, a):
        r = rec(st, a[0])
        if r is None:
            raise EngineError("vf_stream_content on an object that is not a modelled stream")
        cap = a[2]
        data = list(r["buf"][r["pos"]:])[:max(0, cap - 1)]
        for i, x in enumerate(data + [0]):
            E.store(st, Ptr(a[1].obj, E.padd(a[1].off, i)), ir.I8, x)
        setpos(st, a[0], len(r["buf"]))
        return len(data)
    X["vf_stream_content"] = vf_stream_content
