"""Engine A: plain-C units through goto-cc / cbmc 6.11 (bit-precise, with unwinding assertions).

Harness header keys (in addition to the common ones):
  @sources <files relative to /repo>     real C sources compiled with the harness
  @unwind N                               loop bound; --unwinding-assertions turns a too-small bound into a failure
  @cbmc_flags ...                         extra flags
"""
import os, re, sys, json, time, subprocess, hashlib, resource
from . import pipeline as P, runner

ROOT = P.ROOT
STD = ["--unwinding-assertions", "--pointer-overflow-check", "--undefined-shift-check", "--signed-overflow-check",
       "--memory-leak-check", "--drop-unused-functions", "--no-malloc-may-fail"]


def _hdr(path, key):
    out = []
    for ln in open(path):
        m = re.match(r"\s*//\s*@%s\s+(.*)$" % key, ln)
        if m:
            out += m.group(1).split()
    return out


def work(args):
    path, tier, seed, only, verbose = args
    obls = [o for o in runner.parse_header(path) if (tier == "thorough" or o.tier == "Q") and (not only or o.id in only)]
    res = []
    for o in obls:
        t0 = time.time()
        R = {"id": o.id, "prop": o.prop, "engine": "A", "entry": o.entry, "harness": os.path.relpath(path, ROOT),
             "tier": o.tier, "bounds": o.text.get("bounds", ""), "oracle": o.text.get("oracle", ""),
             "outside": o.text.get("outside", ""), "stubs": o.text.get("stubs", ""), "status": "pass"}
        try:
            _one(o, path, tier, R)
        except Exception as e:
            R["status"] = "error"
            R["error"] = "%s: %s" % (type(e).__name__, str(e)[-1500:])
        R["wall_s"] = round(time.time() - t0, 2)
        res.append(R)
    return res


def _one(o, path, tier, R):
    thorough = tier == "thorough"
    srcs = [os.path.join(P.REPO, s) for s in _hdr(path, "sources")]
    unwind = int((_hdr(path, "unwind") or ["8"])[0]) * (2 if thorough else 1)
    key = runner._h(open(path, "rb").read(), *[open(s, "rb").read() for s in srcs], tier, o.entry)
    wd = os.path.join(P.BUILD, "a", "%s-%s" % (o.entry, key))
    os.makedirs(wd, exist_ok=True)
    incs = [f for f in P.repo_flags() if f.startswith(("-I", "-D"))] + ["-I" + os.path.join(ROOT, "rt")]
    tierdef = "-DVF_TIER=%d" % (2 if thorough else 1)

    def build(out, extra):
        P.run(["goto-cc", "-o", out, "--function", o.entry, path, os.path.join(ROOT, "rt", "vf_cbmc.c")] + srcs + incs + [tierdef, "-DVF_CBMC"] + extra)

    gb = os.path.join(wd, "h.goto")
    wb = os.path.join(wd, "w.goto")
    build(gb, [])
    build(wb, ["-DVF_WITNESS"])
    flags = STD + ["--unwind", str(unwind)] + _hdr(path, "cbmc_flags")
    tmo = 1500 if thorough else 300

    def cbmc(binary, extra):
        t = time.time()
        try:
            r = subprocess.run(["cbmc", binary, "--function", o.entry] + flags + extra, stdout=subprocess.PIPE,
                               stderr=subprocess.PIPE, text=True, timeout=tmo)
        except subprocess.TimeoutExpired:
            return None, "", time.time() - t
        return r.returncode, r.stdout, time.time() - t

    # vacuity witness: the assert(0) placed at vf_reach must be violated
    rc, out, dt = cbmc(wb, [])
    if rc is None:
        R["status"] = "inconclusive"
        R["error"] = "cbmc gave no verdict within %d s (witness run)" % tmo
        return
    if "VF-WITNESS reachable: FAILURE" not in out:
        R["status"] = "error"
        R["error"] = "vacuity witness not reachable (harness never reaches its checks)"
        return
    rc, out, dt2 = cbmc(gb, ["--trace"])
    if rc is None:
        R["status"] = "inconclusive"
        R["error"] = "cbmc gave no verdict within %d s" % tmo
        return
    props = re.findall(r"^\[([^\]]+)\] (?:line \d+ )?(.*): (SUCCESS|FAILURE)$", out, re.M)
    R["cbmc"] = {"unwind": unwind, "flags": flags, "properties_checked": len(props),
                 "failed": [(a, b) for a, b, c in props if c == "FAILURE"][:10], "solver_s": round(dt + dt2, 2)}
    m = re.search(r"(\d+) variables, (\d+) clauses", out)
    R["ssa_steps"] = int((re.search(r"size of program expression: (\d+) steps", out) or [0, 0])[1])
    R["paths"] = 1
    R["queries"] = len(props)
    R["solver_s"] = round(dt + dt2, 2)
    R["functions_encoded"] = [{"name": f} for f in sorted(set(re.findall(r"function (\w+)", out)))][:40]
    R["n_functions_encoded"] = len(R["functions_encoded"])
    R["reached"] = {"witness": 1}
    R["checks"] = {b: {"unsat": int(c == "SUCCESS"), "sat": int(c == "FAILURE"), "unknown": 0, "concrete_ok": 0, "concrete_fail": 0}
                   for a, b, c in props if not a.startswith(("malloc", "free.precond"))}
    if "VERIFICATION SUCCESSFUL" in out:
        return
    if "VERIFICATION FAILED" not in out:
        R["status"] = "error"
        R["error"] = "cbmc: " + out[-600:]
        return
    # counterexample -> positional inputs -> native replay
    vals = {}
    for mm in re.finditer(r"vf_in_(l|d)val\[(\d+)l?\]=([^\s]+)", out):
        vals[(mm.group(1), int(mm.group(2)))] = mm.group(3)
    kinds = {int(k): int(v) for k, v in re.findall(r"vf_in_kind\[(\d+)l?\]=(\d+)", out)}
    vec = []
    nin = re.findall(r"vf_in_n=(\d+)", out)
    nin = int(nin[-1]) if nin else len(kinds)
    for k in sorted(kinds):
        if k >= nin:
            continue
        raw = vals.get(("d" if kinds[k] == 1 else "l", k), "0")
        raw = raw.rstrip("lfu")
        try:
            v = float(raw) if kinds[k] == 1 else int(raw)
        except ValueError:
            v = 0
        vec.append(("@%d" % k, v))
    failed = [b for a, b, c in props if c == "FAILURE"]
    exe = os.path.join(wd, "native.exe")
    confirmed = []
    try:
        P.run(["clang-14", "-O1", "-g", "-fsanitize=address,undefined", "-fno-sanitize-recover=undefined"] + incs + [tierdef, "-DVF_ENTRY=" + o.entry, path,
               os.path.join(ROOT, "rt", "vf_native.c"), "-DVF_NO_CXX"] + srcs + ["-o", exe, "-lm"])
        nat = runner.run_native(exe, vec, wd, "cex")
        bad = [l for l in nat["lines"] if l[2] == 0]
        crashed = nat["rc"] not in (0,) and not nat["assume_false"]
        if bad or crashed:
            confirmed.append({"label": (bad[0][1] if bad else failed[0] if failed else "memory-safety"), "inputs": dict(vec),
                              "replayed": True, "detail": ("sanitizer/crash rc=%s %s" % (nat["rc"], nat["stderr"][-300:])) if crashed else "",
                              "native": [list(x) for x in nat["lines"][:6]]})
    except Exception as e:
        R["replay_error"] = str(e)[-500:]
    R["cex"] = confirmed or [{"label": failed[0] if failed else "?", "inputs": dict(vec), "replayed": False}]
    R["confirmed"] = confirmed
    R["status"] = "violation" if confirmed else "inconclusive"
