"""Engine A runner (CBMC). Filled in later; placeholder so that check.py imports."""
def work(args):
    path, tier, seed, only, verbose = args
    return []
