"""Build pipeline: /repo sources -> LLVM bitcode -> whole-library module -> per-harness slice.

Everything is regenerated from /repo's working tree; a content hash of the
source bytes + flags keys the cache under /verif/build so that unchanged
sources are not recompiled, and any edit to /repo/src is re-encoded.
"""
import hashlib, os, re, subprocess, sys, json, time, shutil
from concurrent.futures import ThreadPoolExecutor

REPO = os.environ.get("VERIF_REPO", "/repo")
ROOT = os.path.dirname(os.path.dirname(os.path.abspath(__file__)))
BUILD = os.path.join(ROOT, "build")
CLANGXX = "clang++-14"
LLVM_LINK = "llvm-link-14"
OPT = "opt-14"
LLVM_DIS = "llvm-dis-14"

GUARD = "IPHREEQC_VERIF"

BASE_FLAGS = [
    "-std=c++14", "-O1", "-ffp-contract=off", "-fno-vectorize", "-fno-slp-vectorize",
    "-fno-unroll-loops", "-fno-access-control", "-fno-discard-value-names", "-finline-hint-functions",
    "-Wno-everything", "-D" + GUARD,
]


def repo_flags():
    """-D / -I flags of the real build (read from build.ninja when present)."""
    defs = ["-DSWIG_SHARED_OBJ", "-DUSE_PHRQ_ALLOC", "-DNDEBUG"]
    incs = ["-I%s/src" % REPO, "-I%s/src/phreeqcpp" % REPO, "-I%s/src/phreeqcpp/common" % REPO,
            "-I%s/src/phreeqcpp/PhreeqcKeywords" % REPO]
    nin = os.path.join(REPO, "_build", "build.ninja")
    if os.path.exists(nin):
        txt = open(nin, errors="replace").read()
        m = re.search(r"^\s*DEFINES = (.*)$", txt, re.M)
        if m:
            d = [x for x in m.group(1).split() if x.startswith("-D")]
            if d:
                defs = sorted(set(d + ["-DNDEBUG"]))
    return defs + incs


def source_list():
    """Library translation units: the ones the CMake build compiles (src/CMakeLists or build.ninja)."""
    srcs = set()
    nin = os.path.join(REPO, "_build", "build.ninja")
    if not os.path.exists(nin):
        nin = "/repo/_build/build.ninja"      # scratch copies of the repository have no build directory
    if os.path.exists(nin):
        txt = open(nin, errors="replace").read()
        for m in re.finditer(r"/repo/src/[A-Za-z_0-9/]*\.(?:cpp|cxx|c)\b", txt):
            srcs.add(m.group(0).replace("/repo", REPO, 1))
    if not srcs:
        for dp, dn, fn in os.walk(os.path.join(REPO, "src")):
            for f in fn:
                if f.endswith((".cpp", ".cxx", ".c")):
                    srcs.add(os.path.join(dp, f))
    # drop stand-alone mains / unused
    out = []
    for s in sorted(srcs):
        if not os.path.exists(s):
            continue
        out.append(s)
    return out


def _sha(*parts):
    h = hashlib.sha256()
    for p in parts:
        if isinstance(p, str):
            p = p.encode()
        h.update(p)
        h.update(b"\0")
    return h.hexdigest()[:20]


def tree_hash():
    """Hash of every byte the library IR depends on (all files under src/)."""
    h = hashlib.sha256()
    for dp, dn, fn in sorted(os.walk(os.path.join(REPO, "src"))):
        dn.sort()
        for f in sorted(fn):
            if f.endswith((".cpp", ".cxx", ".c", ".h", ".hpp", ".hxx", ".inc", ".f90", ".F90")):
                p = os.path.join(dp, f)
                h.update(p.encode())
                try:
                    h.update(open(p, "rb").read())
                except OSError:
                    pass
    h.update(" ".join(BASE_FLAGS + repo_flags()).encode())
    h.update(open(os.path.join(ROOT, "rt", "libstdcxx_model.cpp"), "rb").read())
    return h.hexdigest()[:20]


def run(cmd, **kw):
    r = subprocess.run(cmd, stdout=subprocess.PIPE, stderr=subprocess.PIPE, text=True, **kw)
    if r.returncode != 0:
        raise RuntimeError("command failed (%d): %s\n%s" % (r.returncode, " ".join(cmd), r.stderr[-4000:]))
    return r.stdout


def build_lib(debug=False, log=None):
    """Compile every library TU to bitcode and link into one module. Returns path of lib.bc."""
    th = tree_hash()
    tag = th + ("g" if debug else "")
    d = os.path.join(BUILD, "lib-" + tag)
    libbc = os.path.join(d, "lib.bc")
    if os.path.exists(libbc):
        return libbc
    # drop stale lib caches (disk is limited)
    if os.path.isdir(BUILD):
        for n in os.listdir(BUILD):
            if n.startswith("lib-") and n != "lib-" + tag and not n.endswith("g") == (not debug):
                pass
        olds = sorted([n for n in os.listdir(BUILD) if n.startswith("lib-")],
                      key=lambda n: os.path.getmtime(os.path.join(BUILD, n)))
        for n in olds[:-3]:
            shutil.rmtree(os.path.join(BUILD, n), ignore_errors=True)
    os.makedirs(d + ".tmp", exist_ok=True)
    flags = BASE_FLAGS + repo_flags() + (["-g"] if debug else [])
    srcs = source_list()
    t0 = time.time()

    def one(s):
        o = os.path.join(d + ".tmp", _sha(s) + "_" + os.path.basename(s) + ".bc")
        cmd = [CLANGXX, "-x", "c++"] + flags + ["-c", "-emit-llvm", s, "-o", o]
        run(cmd)
        return o

    with ThreadPoolExecutor(max_workers=int(os.environ.get("VERIF_JOBS", "16"))) as ex:
        objs = list(ex.map(one, srcs))
    model = os.path.join(d + ".tmp", "libstdcxx_model.bc")
    run([CLANGXX, "-x", "c++"] + BASE_FLAGS + ["-c", "-emit-llvm", os.path.join(ROOT, "rt", "libstdcxx_model.cpp"), "-o", model])
    objs.append(model)
    run([LLVM_LINK] + objs + ["-o", os.path.join(d + ".tmp", "lib.bc")])
    for o in objs:
        os.unlink(o)
    meta = {"tree_hash": th, "n_tus": len(srcs), "flags": flags, "build_s": round(time.time() - t0, 2)}
    json.dump(meta, open(os.path.join(d + ".tmp", "meta.json"), "w"), indent=1)
    if os.path.isdir(d):
        shutil.rmtree(d)
    os.rename(d + ".tmp", d)
    if log:
        log("lib.bc built: %d TUs in %.1fs" % (len(srcs), time.time() - t0))
    return libbc


def compile_harness(src, outdir, extra_flags=(), debug=False):
    flags = BASE_FLAGS + repo_flags() + ["-I" + os.path.join(ROOT, "rt")] + list(extra_flags) + (["-g"] if debug else [])
    o = os.path.join(outdir, os.path.basename(src) + ".bc")
    run([CLANGXX, "-x", "c++"] + flags + ["-c", "-emit-llvm", src, "-o", o])
    return o


def slice_module(harness_bc, libbc, entries, outdir, name):
    """Link harness + library, keep only what `entries` reach. Returns path to textual IR."""
    linked = os.path.join(outdir, name + ".linked.bc")
    run([LLVM_LINK, harness_bc, libbc, "-o", linked])
    # drop llvm.global_ctors so unrelated static initialisers die; initialisers that
    # the slice needs are re-run explicitly by the harness (vf_static_init list).
    ll = os.path.join(outdir, name + ".ll")
    run([OPT, "-passes=internalize,globaldce",
         "-internalize-public-api-list=" + ",".join(entries), linked, "-o", linked + ".1"])
    # second round after deleting global_ctors
    txt = run([LLVM_DIS, linked + ".1", "-o", "-"])
    ctors = re.search(r"^@llvm\.global_ctors = .*$", txt, re.M)
    if ctors:
        txt = txt.replace(ctors.group(0), "")
        tmpll = os.path.join(outdir, name + ".noctor.ll")
        open(tmpll, "w").write(txt)
        run([OPT, "-passes=internalize,globaldce", "-internalize-public-api-list=" + ",".join(entries),
             tmpll, "-S", "-o", ll])
        os.unlink(tmpll)
    else:
        open(ll, "w").write(txt)
    for f in (linked, linked + ".1"):
        if os.path.exists(f):
            os.unlink(f)
    return ll


def demangle(names):
    if not names:
        return {}
    p = subprocess.run(["c++filt"], input="\n".join(names), stdout=subprocess.PIPE, text=True)
    return dict(zip(names, p.stdout.split("\n")))


if __name__ == "__main__":
    t = time.time()
    print(build_lib(debug="-g" in sys.argv, log=print), round(time.time() - t, 1), "s")
