"""Engine B: symbolic executor over the parsed LLVM IR with z3 (reals + bit-vectors).

One State = one path.  Branches on symbolic conditions fork (both sides checked
for feasibility with the solver).  vf_check / vf_close are decided by a solver
query per path; SAT answers carry a model of the vf_* inputs for native replay.
"""
import math, time, itertools, struct, os, sys, re
from fractions import Fraction
import z3
from . import irparse as ir
from .symval import *  # noqa

MAXCELL = 16


class Obj:
    __slots__ = ("id", "size", "cells", "zero", "zranges", "name", "const", "freed", "kind")

    def __init__(self, oid, size, name="", zero=False, const=False, kind="heap"):
        self.id = oid
        self.size = size
        self.cells = {}
        self.zero = zero
        self.zranges = []
        self.name = name
        self.const = const
        self.freed = False
        self.kind = kind

    def clone(self):
        o = Obj(self.id, self.size, self.name, self.zero, self.const, self.kind)
        o.cells = dict(self.cells)
        o.zranges = list(self.zranges)
        o.freed = self.freed
        return o


class Frame:
    __slots__ = ("func", "blk", "ip", "locals", "prev", "allocas", "instrs", "vararg", "called")

    def __init__(self, func):
        self.func = func
        self.blk = func.order[0]
        self.instrs = func.blocks[self.blk]
        self.ip = 0
        self.locals = {}
        self.prev = None
        self.allocas = []
        self.vararg = []
        self.called = True

    def copy(self):
        f = Frame.__new__(Frame)
        f.func = self.func
        f.blk = self.blk
        f.instrs = self.instrs
        f.ip = self.ip
        f.locals = dict(self.locals)
        f.prev = self.prev
        f.allocas = list(self.allocas)
        f.vararg = self.vararg
        f.called = self.called
        return f


class State:
    def __init__(self):
        self.frames = []
        self.mem = {}
        self.owned = set()
        self.pc = []
        self.trace = []
        self.inputs = []  # (name, kind, term, lo, hi)
        self.exc = None  # in-flight exception (Ptr obj, typeinfo name)
        self.caught = []
        self.steps = 0
        self.notes = []
        self.globals = {}  # global name -> obj id (materialised)
        self.user = {}  # scratch for extern models (per path)
        self.id = 0

    def fork(self):
        s = State()
        s.frames = [f.copy() for f in self.frames]
        s.mem = dict(self.mem)
        s.owned = set()
        self.owned = set()
        s.pc = list(self.pc)
        s.trace = list(self.trace)
        s.inputs = list(self.inputs)
        s.exc = self.exc
        s.caught = list(self.caught)
        s.steps = self.steps
        s.notes = list(self.notes)
        s.globals = dict(self.globals)
        s.user = {k: (v.copy() if hasattr(v, "copy") else v) for k, v in self.user.items()}
        return s


class Fork:
    """Returned by an instruction/extern handler: alternatives [(constraint|None, value)]."""

    def __init__(self, alts):
        self.alts = alts


class Result:
    def __init__(self):
        self.paths = 0
        self.ended = {}  # reason -> count
        self.checks = {}  # label -> dict(unsat=,sat=,unknown=,concrete_ok=)
        self.reached = {}
        self.cex = []  # dict(label, inputs, kind)
        self.queries = 0
        self.solver_s = 0.0
        self.steps = 0
        self.traces = []  # per finished path: (pc, trace, inputs)
        self.assumptions = set()
        self.inconclusive = []
        self.funcs = set()
        self.errors = []
        self.closes = []  # concrete-mode: (label, impl, ref, ok)
        self.max_unroll_hit = False


class Engine:
    def __init__(self, mod, exact=True, timeout_ms=60000, max_paths=20000, max_steps=2000000, inputs=None,
                 loop_bound=None, log=None, keep_traces=False):
        self.mod = mod
        self.fp = FP(exact, self)
        self.exact = exact
        self.timeout_ms = timeout_ms
        self.max_paths = max_paths
        self.max_steps = max_steps
        self.given = inputs  # concrete-mode inputs: dict name -> list of values (consumed in order)
        self.given_pos = {}
        self.next_obj = 1
        self.fresh_n = 0
        self.res = Result()
        self.cur = None
        self.cache = {}
        self.externs = {}
        self.log = log or (lambda *a: None)
        self.keep_traces = keep_traces
        self.loop_bound = loop_bound
        self.typeids = {}
        self.budget_s = 1e9
        self.watch_all = False
        self.only_lock = False
        self.harness_funcs = set()
        self.watch_enabled = False
        self.harness_globals = set()
        self.cex_limit = 60
        self.slowlog = None
        self.presplit = True   # True: small-range vf_int inputs are case-split up front instead of staying symbolic
        from . import externs as ex
        ex.install(self)

    # ------------------------------------------------------------ solver
    def fresh_real(self, tag):
        self.fresh_n += 1
        return z3.Real("%s!%d" % (tag, self.fresh_n))

    def fresh_int(self, tag):
        self.fresh_n += 1
        return z3.Int("%s!%d" % (tag, self.fresh_n))

    def fresh_bv(self, tag, bits):
        self.fresh_n += 1
        return z3.BitVec("%s!%d" % (tag, self.fresh_n), bits)

    def add_side(self, c, note):
        self.cur.pc.append(c)
        if note:
            self.res.assumptions.add(note)

    def check(self, cons, want_model=False):
        cons = [c for c in cons if not (z3.is_true(c))]
        key = tuple(sorted(c.get_id() for c in cons))
        if not want_model and key in self.cache:
            return self.cache[key][0], None
        for c in cons:
            if z3.is_false(c):
                return "unsat", None
        if self.res.solver_s > self.budget_s:
            raise Budget("solver budget of %.0f s for this obligation exhausted" % self.budget_s)
        s = z3.Solver()
        s.set("timeout", self.timeout_ms)
        s.add(*cons)
        t = time.time()
        r = s.check()
        dt = time.time() - t
        self.res.solver_s += dt
        if dt > 2 and self.slowlog:
            self.slowlog("slow query %.1fs -> %s (%d constraints)" % (dt, r, len(cons)))
        self.res.queries += 1
        rs = str(r)
        if rs == "unknown":
            # z3's answer depends on term order and on the solver it picks: retry the same formula re-read from its
            # SMT-LIB text (fresh solver state), then with the QF_NRA strategy; an answer from either is an answer
            try:
                txt = s.to_smt2()
                fs = z3.parse_smt2_string(txt)
                for mk in (z3.Solver, lambda: z3.SolverFor("QF_NRA")):
                    s2 = mk()
                    s2.set("timeout", self.timeout_ms)
                    s2.add(fs)
                    t = time.time()
                    r2 = s2.check()
                    self.res.solver_s += time.time() - t
                    self.res.queries += 1
                    if str(r2) != "unknown":
                        rs, s = str(r2), s2
                        self.res.retried = getattr(self.res, "retried", 0) + 1
                        break
            except z3.Z3Exception:
                pass
        if rs == "unknown" and os.environ.get("VF_DUMP_UNKNOWN"):
            self.dumped = getattr(self, "dumped", 0) + 1
            open(os.path.join(os.environ["VF_DUMP_UNKNOWN"], "unknown_%d.smt2" % self.dumped), "w").write(s.to_smt2())
        # the cached entry keeps its ASTs alive: z3 recycles the ids of dead ASTs, which would alias keys
        self.cache[key] = (rs, cons)
        return rs, (s.model() if want_model and rs == "sat" else None)

    def decide(self, st, c):
        """truth value of a symbolic condition: True/False when the path condition decides it, otherwise
        raises SymCond so that the instruction is re-executed on both sides"""
        if not is_sym(c):
            return bool(c)
        c = z3.simplify(boolz(c))
        if z3.is_true(c):
            return True
        if z3.is_false(c):
            return False
        if not self.feasible(st, c):
            st.pc.append(z3.Not(c))
            return False
        if not self.feasible(st, z3.Not(c)):
            st.pc.append(c)
            return True
        raise SymCond(c)

    def feasible(self, st, c):
        r, _ = self.check(st.pc + [c])
        return r != "unsat"

    # ------------------------------------------------------------ memory
    def new_obj(self, st, size, name="", zero=False, const=False, kind="heap"):
        oid = self.next_obj
        self.next_obj += 1
        o = Obj(oid, size, name, zero, const, kind)
        st.mem[oid] = o
        st.owned.add(oid)
        return o

    def wobj(self, st, oid):
        o = st.mem[oid]
        if oid not in st.owned:
            o = o.clone()
            st.mem[oid] = o
            st.owned.add(oid)
        return o

    def conc_off(self, st, p, what="access"):
        """Return list of (state, concrete offset) — forks on a symbolic offset."""
        off = p.off
        if isinstance(off, int):
            return off
        off = z3.simplify(off)
        if z3.is_bv_value(off):
            return to_signed(off.as_long(), 64)
        k = self.known(st, off)
        if k is not None:
            return to_signed(k.as_long(), 64)
        raise SymOffset(off)

    def _zero_at(self, o, b):
        if o.zero:
            return True
        for a, e in o.zranges:
            if a <= b < e:
                return True
        return False

    def deref(self, st, p, size, write=False):
        if not isinstance(p, Ptr):
            raise EngineError("dereference of non-pointer %r" % (p,))
        if p.obj == 0:
            raise MemError("null pointer dereference")
        if isinstance(p.obj, str):
            raise MemError("data access through function pointer " + p.obj)
        o = st.mem.get(p.obj)
        if o is None:
            raise MemError("dangling pointer")
        if o.freed:
            raise MemError("use after free of %s" % o.name)
        off = self.conc_off(st, p)
        if o.size is not None and (off < 0 or off + size > o.size):
            raise MemError("out-of-bounds %s at %s+%d size %d (object size %s)" % (
                "write" if write else "read", o.name or o.id, off, size, o.size))
        if st.user.get("guard_on"):
            for gobj, lo, hi, mname, gname in st.user.get("guards") or ():
                if gobj == p.obj and off < hi and off + size > lo and mname not in (st.user.get("held") or ()):
                    self.guard_violation(st, gname, mname, write)
        if write:
            if o.const:
                raise MemError("write to constant " + o.name)
            if st.user.get("watch_globals"):
                self.res.watched_writes = getattr(self.res, "watched_writes", 0) + 1
                if o.kind == "global" and st.user.get("held"):
                    self.res.watched_global_writes_locked = getattr(self.res, "watched_global_writes_locked", 0) + 1
            if o.kind == "global" and st.user.get("watch_globals") and not st.user.get("held"):
                gn = re.sub(r"\.\d+$", "", o.name[1:])
                gg = self.mod.globals.get(o.name[1:])
                if gn not in self.harness_globals and not gn.startswith(("_ZGV", "_ZTV", "_ZTT", "vtable")) and \
                        not (gg is not None and gg.thread_local) and \
                        re.sub(r"\.\d+$", "", st.frames[-1].func.name) not in self.harness_funcs:
                    self.guard_violation(st, P_dem(gn), "any lock (process-wide mutable state)", True, gsym=o.name[1:])
            o = self.wobj(st, p.obj)
        return o, off

    def _byte_of(self, o, b):
        """value of byte b of object o: python int, z3 BV8, or None if uninitialised"""
        for start in range(b, b - MAXCELL, -1):
            c = o.cells.get(start)
            if c is not None:
                v, n = c
                if start + n > b:
                    k = b - start
                    if isinstance(v, Ptr):
                        if v.obj == 0 and isinstance(v.off, int):
                            return (v.off >> (8 * k)) & 255
                        return ("ptrbyte", v, k)
                    if isinstance(v, (Fraction, float)):
                        bits = struct.unpack("<Q", struct.pack("<d", float(v)))[0] if n == 8 else \
                            struct.unpack("<I", struct.pack("<f", float(v)))[0]
                        return (bits >> (8 * k)) & 255
                    if isinstance(v, int):
                        return (v >> (8 * k)) & 255
                    if isinstance(v, z3.BitVecRef):
                        return z3.Extract(8 * k + 7, 8 * k, v)
                    if isinstance(v, z3.BoolRef):
                        return bv(v, 8) if k == 0 else 0
                    if v is UNDEF:
                        return None
                    raise EngineError("byte access into symbolic double / aggregate cell")
                break
        if self._zero_at(o, b):
            return 0
        return None

    def load(self, st, p, ty):
        k = ty.kind
        if k in ("struct", "arr"):
            if k == "arr":
                es = ir.sizeof(ty.elem)
                return [self.load(st, Ptr(p.obj, self.padd(p.off, i * es)), ty.elem) for i in range(ty.n)]
            offs = ir.struct_layout(ty)[2]
            return [self.load(st, Ptr(p.obj, self.padd(p.off, offs[i])), e) for i, e in enumerate(ty.elems)]
        size = ir.sizeof(ty)
        o, off = self.deref(st, p, size)
        c = o.cells.get(off)
        if c is not None and c[1] == size:
            return self.conv_loaded(c[0], ty)
        bs = [self._byte_of(o, off + i) for i in range(size)]
        if any(b is None for b in bs):
            if all(b is None for b in bs):
                if o.kind == "raw":
                    return self.zero_of(ty)
                fn = st.frames[-1].func.name if st.frames else ""
                if k == "int" and ("vectorIbSaIbEE" in fn or "Bit_iterator" in fn or "bvector" in fn):
                    # std::vector<bool> read-modify-writes whole words of fresh storage: the unset bits are arbitrary
                    self.fresh_n = getattr(self, "fresh_n", 0) + 1
                    return z3.BitVec("uninit_word_%d" % self.fresh_n, ty.bits)
                if o.kind == "stack" and k in ("int", "fp", "ptr"):
                    # LLVM semantics: a load from an uninitialised alloca yields undef (the optimiser hoists such loads);
                    # it is only an error if the value is then used (branch, arithmetic, store to memory that is read)
                    return UNDEF
                raise MemError("read of uninitialised memory %s+%d (%s)" % (o.name or o.id, off, ty.s()))
            bs = [0 if b is None else b for b in bs]
        if all(isinstance(b, int) for b in bs):
            v = 0
            for i, b in enumerate(bs):
                v |= b << (8 * i)
            return self.conv_loaded(v, ty, raw_bits=True)
        if any(isinstance(b, tuple) for b in bs):
            # whole pointer read back through bytes
            b0 = bs[0]
            if size == 8 and all(isinstance(b, tuple) and b[1] is b0[1] and b[2] == i for i, b in enumerate(bs)):
                return self.conv_loaded(b0[1], ty)
            if k == "int":
                # part of an address read as an integer (the optimiser hoists loads of a union's integer member
                # above the test of its tag): the bits of an address are an arbitrary value
                self.fresh_n = getattr(self, "fresh_n", 0) + 1
                return z3.BitVec("addr_bits_%d" % self.fresh_n, ty.bits)
            raise EngineError("partial read of a pointer value")
        parts = [bv(b, 8) for b in reversed(bs)]
        v = z3.Concat(*parts) if len(parts) > 1 else parts[0]
        return self.conv_loaded(v, ty, raw_bits=True)

    def conv_loaded(self, v, ty, raw_bits=False):
        k = ty.kind
        if v is UNDEF:
            return UNDEF
        if k == "int":
            if isinstance(v, Ptr):
                if v.obj == 0 and isinstance(v.off, int):
                    return v.off & mask(ty.bits)
                return v
            if isinstance(v, (Fraction, float)):
                return struct.unpack("<Q", struct.pack("<d", float(v)))[0]
            if ty.bits == 1 and isinstance(v, z3.BitVecRef):
                return z3.Extract(0, 0, v) == 1
            if isinstance(v, int):
                return v & mask(ty.bits)
            return v
        if k == "fp":
            if isinstance(v, int) and (raw_bits or True):
                if isinstance(v, bool):
                    v = int(v)
                if ty.name == "double":
                    f = struct.unpack("<d", struct.pack("<Q", v & mask(64)))[0]
                elif ty.name == "float":
                    f = struct.unpack("<f", struct.pack("<I", v & mask(32)))[0]
                else:
                    raise EngineError("load of " + ty.name)
                if f != f or f in (float("inf"), float("-inf")):
                    return f
                return Fraction(f) if self.exact else f
            if isinstance(v, z3.BitVecRef):
                raise EngineError("reinterpretation of symbolic bits as double")
            return v
        if k == "ptr":
            if isinstance(v, Ptr):
                return v
            if isinstance(v, int):
                return Ptr(0, v)
            raise EngineError("load of pointer from symbolic integer cell")
        raise EngineError("load of type " + ty.s())

    def zero_of(self, ty):
        k = ty.kind
        if k == "int":
            return 0
        if k == "fp":
            return Fraction(0) if self.exact else 0.0
        if k == "ptr":
            return NULL
        if k == "arr":
            return [self.zero_of(ty.elem) for _ in range(ty.n)]
        if k == "struct":
            return [self.zero_of(e) for e in ty.elems]
        raise EngineError("zero of " + ty.s())

    def padd(self, off, d):
        if isinstance(off, int) and isinstance(d, int):
            return off + d
        return bv(off, 64) + bv(d, 64)

    def _clear(self, o, off, size):
        """remove cells overlapping [off,off+size); split partially overlapped cells into bytes"""
        for start in range(off - MAXCELL + 1, off + size):
            c = o.cells.get(start)
            if c is None:
                continue
            v, n = c
            if start + n <= off:
                continue
            if start >= off and start + n <= off + size:
                del o.cells[start]
                continue
            # partial overlap: explode into bytes outside the range
            bs = [self._byte_of(o, start + i) for i in range(n)]
            del o.cells[start]
            for i, b in enumerate(bs):
                a = start + i
                if a < off or a >= off + size:
                    if isinstance(b, tuple):
                        raise EngineError("partial overwrite of a pointer value")
                    if b is not None:
                        o.cells[a] = (b, 1)

    def store(self, st, p, ty, v):
        k = ty.kind
        if k in ("struct", "arr"):
            if k == "arr":
                es = ir.sizeof(ty.elem)
                for i in range(ty.n):
                    self.store(st, Ptr(p.obj, self.padd(p.off, i * es)), ty.elem, v[i])
                return
            offs = ir.struct_layout(ty)[2]
            for i, e in enumerate(ty.elems):
                self.store(st, Ptr(p.obj, self.padd(p.off, offs[i])), e, v[i])
            return
        size = ir.sizeof(ty)
        o, off = self.deref(st, p, size, write=True)
        c = o.cells.get(off)
        if not (c is not None and c[1] == size):
            self._clear(o, off, size)
        if k == "int" and ty.bits == 1 and not isinstance(v, (Ptr, Undef)):
            v = bv(v, 8) if is_sym(v) else int(v)
        o.cells[off] = (v, size)

    def memset(self, st, p, val, n):
        o, off = self.deref(st, p, n, write=True) if n else (None, 0)
        if not n:
            return
        self._clear(o, off, n)
        if not is_sym(val) and val == 0:
            o.zranges.append((off, off + n))
        else:
            o.zranges = _cut_ranges(o.zranges, off, off + n)
            for i in range(n):
                o.cells[off + i] = (val, 1)

    def memcpy(self, st, d, s, n):
        if not n:
            return
        so, soff = self.deref(st, s, n)
        # snapshot source pieces first (handles overlap / same object)
        pieces = []
        if n <= 64:
            starts = range(soff - MAXCELL + 1, soff + n)
            cand = [(a, so.cells[a]) for a in starts if a in so.cells]
        else:
            cand = [(a, c) for a, c in so.cells.items() if soff - MAXCELL < a < soff + n]
        for a, (v, sz) in cand:
            if a + sz <= soff:
                continue
            if a >= soff and a + sz <= soff + n:
                pieces.append((a - soff, v, sz))
            else:
                for i in range(sz):
                    b = a + i
                    if soff <= b < soff + n:
                        bb = self._byte_of(so, b)
                        if isinstance(bb, tuple):
                            raise EngineError("partial copy of a pointer value")
                        if bb is not None:
                            pieces.append((b - soff, bb, 1))
        zr = []
        if so.zero:
            zr = [(0, n)]
        else:
            for a, e in so.zranges:
                lo, hi = max(a, soff), min(e, soff + n)
                if lo < hi:
                    zr.append((lo - soff, hi - soff))
        do, doff = self.deref(st, d, n, write=True)
        self._clear(do, doff, n)
        do.zranges = _cut_ranges(do.zranges, doff, doff + n)
        if not do.zero or True:
            for a, e in zr:
                do.zranges.append((doff + a, doff + e))
        if do.zero and not so.zero:
            # bytes that are uninitialised in the source stay as background zero in dst (harmless)
            pass
        for rel, v, sz in pieces:
            do.cells[doff + rel] = (v, sz)

    def cstring(self, st, p, maxlen=4096):
        """read a NUL-terminated concrete string"""
        out = bytearray()
        o, off = self.deref(st, p, 1)
        while True:
            b = self._byte_of(o, off)
            if b is None:
                raise MemError("read of uninitialised byte in C string %s+%d" % (o.name or o.id, off))
            if is_sym(b):
                b = z3.simplify(b)
                if not z3.is_bv_value(b):
                    raise SymByte(b)
                b = b.as_long()
            if isinstance(b, tuple):
                raise EngineError("pointer bytes in C string")
            if b == 0:
                break
            out.append(b)
            off += 1
            if o.size is not None and off >= o.size:
                raise MemError("unterminated C string in %s" % (o.name or o.id))
            if len(out) > maxlen:
                raise EngineError("C string too long")
        return bytes(out)

    def write_bytes(self, st, p, data):
        o, off = self.deref(st, p, len(data), write=True)
        self._clear(o, off, len(data))
        for i, b in enumerate(data):
            o.cells[off + i] = (b, 1)

    # ------------------------------------------------------------ constants / globals
    def global_ptr(self, st, name):
        name = self.resolve_alias_name(name)
        if name in self.mod.funcs:
            return Ptr("@" + name, 0)
        oid = st.globals.get(name)
        if oid is not None:
            return Ptr(oid, 0)
        g = self.mod.globals.get(name)
        if g is None:
            raise EngineError("reference to unknown global @" + name)
        if g.external:
            h = self.externs.get("@" + name)
            if h is None and name.startswith(("_ZTT", "_ZTV")) and not name.startswith("_ZTVN10__cxxabiv"):
                # libstdc++ VTT / vtable of a stream class: synthetic zero-filled table; VTT slots point into a
                # synthetic vtable (vbase offsets read as 0).  Stream objects are modelled by vf/externs.py.
                size = ir.sizeof(g.ty) if g.ty.kind != "struct" or not g.ty.opaque else 256
                o = self.new_obj(st, max(size, 8), name="@" + name, zero=True, kind="global")
                st.globals[name] = o.id
                if name.startswith("_ZTT"):
                    from . import streams
                    kind = streams.kind_of_symbol(name)
                    vt = self.stream_model_vtable(self, st, kind) if kind else None
                    if vt is None:
                        v0 = self.new_obj(st, 256, name="vtable(model)", zero=True, kind="global")
                        vt = Ptr(v0.id, 64)
                    for i in range(0, size, 8):
                        o.cells[i] = (vt, 8)
                return Ptr(o.id, 0)
            if h is None:
                # opaque external data object (e.g. std::cout, typeinfo, vtable): zero-sized named object
                o = self.new_obj(st, None, name="@" + name, zero=False, kind="extern")
                st.globals[name] = o.id
                return Ptr(o.id, 0)
            return h(self, st, name)
        size = ir.sizeof(g.ty)
        o = self.new_obj(st, size, name="@" + name, zero=True, const=False, kind="global")
        st.globals[name] = o.id
        if g.init is not None and g.init[0] != "zero":
            self.store_const(st, o, 0, g.ty, g.init)
        o.const = g.const
        return Ptr(o.id, 0)

    def resolve_alias_name(self, name):
        seen = 0
        while name in self.mod.aliases and seen < 8:
            t, v = self.mod.aliases[name]
            while v[0] == "cexpr" and v[1] == "bitcast":
                v = v[2][1]
            if v[0] != "global":
                raise EngineError("unsupported alias target")
            name = v[1]
            seen += 1
        return name

    def store_const(self, st, o, off, ty, c):
        k = c[0]
        if k == "zero" or k == "undef":
            return
        if k == "agg":
            if ty.kind == "arr":
                es = ir.sizeof(ty.elem)
                for i, (t, v) in enumerate(c[1]):
                    self.store_const(st, o, off + i * es, t, v)
            else:
                offs = ir.struct_layout(ty)[2]
                for i, (t, v) in enumerate(c[1]):
                    self.store_const(st, o, off + offs[i], t, v)
            return
        if k == "bytes":
            for i, b in enumerate(c[1]):
                o.cells[off + i] = (b, 1)
            return
        v = self.const(st, ty, c)
        sz = ir.sizeof(ty)
        o.cells[off] = (v, sz)

    def const(self, st, ty, c):
        k = c[0]
        if k == "int":
            return c[1] & mask(ty.bits) if ty.kind == "int" else c[1]
        if k == "fp":
            return self.fp.const(c[1])
        if k == "null":
            return NULL
        if k == "undef":
            if ty.kind in ("struct", "arr"):
                return self.undef_of(ty)
            return UNDEF
        if k == "zero":
            return self.zero_of(ty)
        if k == "global":
            return self.global_ptr(st, c[1])
        if k == "agg":
            return [self.const(st, t, v) for t, v in c[1]]
        if k == "bytes":
            return list(c[1])
        if k == "cexpr":
            return self.cexpr(st, c)
        if k == "meta":
            return None
        raise EngineError("constant " + k)

    def undef_of(self, ty):
        if ty.kind == "arr":
            return [self.undef_of(ty.elem) for _ in range(ty.n)]
        if ty.kind == "struct":
            return [self.undef_of(e) for e in ty.elems]
        return UNDEF

    def cexpr(self, st, c):
        op = c[1]
        if op == "getelementptr":
            bt, ops = c[2], c[3]
            base = self.const(st, ops[0][0], ops[0][1])
            idx = [self.const(st, t, v) for t, v in ops[1:]]
            return self.gep(base, bt, [(t, i) for (t, _), i in zip(ops[1:], idx)])
        if op == "bitcast":
            return self.const(st, c[2][0], c[2][1])
        if op == "ptrtoint":
            return self.const(st, c[2][0], c[2][1])
        if op == "inttoptr":
            v = self.const(st, c[2][0], c[2][1])
            return v if isinstance(v, Ptr) else Ptr(0, v)
        if op in ("sub", "add"):
            a = self.const(st, c[2][0], c[2][1])
            b = self.const(st, c[3][0], c[3][1])
            return self.ptr_arith(op, a, b, c[2][0].bits)
        if op in ("trunc", "zext", "sext"):
            v = self.const(st, c[2][0], c[2][1])
            return int_cast(op, v, c[2][0].bits, c[3].bits)
        raise EngineError("constant expression " + op)

    def gep(self, base, bt, idx):
        """idx: list of (type, value)"""
        if not isinstance(base, Ptr):
            raise EngineError("getelementptr on non-pointer %r" % (base,))
        off = base.off
        cur = bt
        first = True
        for t, i in idx:
            if is_sym(i):
                i = z3.simplify(i)
                if z3.is_bv_value(i):
                    i = i.as_long()
            if not is_sym(i):
                i = to_signed(i, t.bits)
            else:
                i = z3.SignExt(64 - t.bits, i) if t.bits < 64 else i
            if first:
                d = self._scale(i, ir.sizeof(cur))
                first = False
            elif cur.kind == "struct":
                if is_sym(i):
                    raise EngineError("symbolic struct index")
                d = ir.struct_layout(cur)[2][i]
                cur = cur.elems[i]
            elif cur.kind in ("arr", "vec"):
                cur = cur.elem
                d = self._scale(i, ir.sizeof(cur))
            else:
                raise EngineError("gep into " + cur.s())
            off = self.padd(off, d)
        return Ptr(base.obj, off)

    def _scale(self, i, s):
        if is_sym(i):
            return i * z3.BitVecVal(s, 64)
        return i * s

    def ptr_arith(self, op, a, b, bits):
        """integer add/sub where an operand may be a ptrtoint'ed pointer"""
        pa, pb = isinstance(a, Ptr), isinstance(b, Ptr)
        if pa and pb:
            if op == "sub":
                if a.obj == b.obj:
                    if isinstance(a.off, int) and isinstance(b.off, int):
                        return (a.off - b.off) & mask(bits)
                    return bv(a.off, 64) - bv(b.off, 64)
                return PtrDiff(a, b)   # relative-table entry or speculated difference: only usable when added back
            raise EngineError("pointer+pointer")
        if pa:
            d = b if op == "add" else (-b if not is_sym(b) else -b)
            if not is_sym(d):
                d = to_signed(d & mask(64), 64)
            return Ptr(a.obj, self.padd(a.off, d))
        if pb:
            if op == "add":
                return Ptr(b.obj, self.padd(b.off, to_signed(a, 64) if not is_sym(a) else a))
            return UNDEF   # e.g. speculated (null - p): only an error if the value is used
        return int_bin(op, a, b, bits)

    # ------------------------------------------------------------ operand evaluation
    def val(self, st, fr, tv):
        t, v = tv
        k = v[0]
        if k == "local":
            try:
                return fr.locals[v[1]]
            except KeyError:
                raise EngineError("use of undefined local %%%s in %s" % (v[1], fr.func.name))
        return self.const(st, t, v)

    # ------------------------------------------------------------ running
    def run(self, entry, args=()):
        f = self.mod.funcs.get(entry)
        if f is None or f.is_decl:
            raise EngineError("entry function %s not defined" % entry)
        st = State()
        fr = Frame(f)
        for (t, n), a in zip(f.params, args):
            fr.locals[n] = a
        fr.called = False
        st.frames.append(fr)
        # static initialisers kept in the slice run first (concretely, in order)
        g = self.mod.globals.get("llvm.global_ctors")
        if g is not None and g.init is not None and g.init[0] == "agg":
            for t, e in reversed(g.init[1]):
                fn = e[1][1][1]
                while fn[0] == "cexpr":
                    fn = fn[2][1]
                cf = self.mod.funcs.get(fn[1])
                if cf is not None and not cf.is_decl:
                    nf = Frame(cf)
                    nf.called = False
                    st.frames.append(nf)
        work = [st]
        res = self.res
        while work:
            st = work.pop()
            if res.paths >= self.max_paths:
                res.errors.append("path budget exhausted (%d)" % self.max_paths)
                break
            if len([c for c in res.cex if not self.only_lock or c.get("kind") == "lock"]) >= self.cex_limit:
                raise Budget("%d candidate counterexamples collected; exploration stopped to replay them" % len(res.cex))
            self.cur = st
            try:
                forks = self.run_path(st)
                if forks:
                    work.extend(reversed(forks))
                    continue
                why = "returned"
            except PathEnd as e:
                why = e.why
            except MemError as e:
                why = "memory-error: " + str(e)
                self.on_mem_error(st, str(e))
            res.paths += 1
            res.steps += st.steps
            res.ended[why] = res.ended.get(why, 0) + 1
            if self.keep_traces:
                res.traces.append({"end": why, "pc": st.pc, "trace": st.trace, "inputs": st.inputs,
                                   "notes": st.notes})
        return res

    def guard_violation(self, st, gname, mname, write, gsym=None):
        fr = st.frames[-1]
        lab = "lock.discipline." + gname
        d = self.res.checks.setdefault(lab, {"unsat": 0, "sat": 0, "unknown": 0, "concrete_ok": 0, "concrete_fail": 0})
        key = ("gv", lab, fr.func.name)
        if st.user.get(key):
            return
        st.user[key] = True
        d["concrete_fail"] += 1
        r, m = self.check(st.pc, want_model=True)
        if r != "unsat":
            self.res.cex.append({"label": lab, "kind": "lock", "gsym": gsym, "inputs": self.model_inputs(st, m),
                                 "detail": "%s of %s without holding %s in %s" % ("write" if write else "read", gname, mname,
                                                                               P_dem(fr.func.name))})

    def on_mem_error(self, st, msg):
        r, m = self.check(st.pc, want_model=True)
        if r == "unsat":
            return
        self.res.cex.append({"label": "memory-safety", "kind": "memory", "detail": msg,
                             "inputs": self.model_inputs(st, m), "confirmed_by_solver": r == "sat"})

    def model_inputs(self, st, m):
        out = []
        for name, kind, term, lo, hi in st.inputs:
            if not is_sym(term):
                v = term
            elif m is None:
                v = None
            else:
                v = m.eval(term, model_completion=True)
            if v is not None and is_sym(v):
                if kind == "double":
                    if z3.is_algebraic_value(v):
                        v = v.approx(30)
                    v = Fraction(v.numerator_as_long(), v.denominator_as_long()) if z3.is_rational_value(v) else None
                else:
                    v = v.as_long() if z3.is_bv_value(v) or z3.is_int_value(v) else None
                    if v is not None and kind == "int" and isinstance(term, z3.BitVecRef):
                        v = to_signed(v, term.size())
            out.append({"name": name, "kind": kind, "value": (float(v) if isinstance(v, Fraction) else v),
                        "exact": (str(v) if isinstance(v, Fraction) else None)})
        return out

    def goto(self, fr, label):
        fr.prev = fr.blk
        fr.blk = label
        try:
            fr.instrs = fr.func.blocks[label]
        except KeyError:
            raise EngineError("branch to unknown block %s in %s" % (label, fr.func.name))
        fr.ip = 0
        # phis are evaluated in parallel
        ins = fr.instrs
        n = 0
        vals = []
        while n < len(ins) and ins[n].op == "phi":
            i = ins[n]
            for v, l in i.extra:
                if l == fr.prev:
                    vals.append((i.dst, self.val(self.cur, fr, (i.ty, v))))
                    break
            else:
                raise EngineError("phi without incoming for %s" % fr.prev)
            n += 1
        for d, v in vals:
            fr.locals[d] = v
        fr.ip = n

    def run_path(self, st):
        """Run until the path ends (returns None) or forks (returns list of states)."""
        while st.frames:
            fr = st.frames[-1]
            ins = fr.instrs[fr.ip]
            st.steps += 1
            if self.watch_all and len(st.frames) == 1 and not st.user.get("watch_started"):
                st.user["watch_started"] = True
                st.user["watch_globals"] = True
                self.res.watch_regions = getattr(self.res, "watch_regions", 0) + 1
            if st.steps > self.max_steps:
                raise EngineError("instruction budget exceeded on one path (%d) in %s" % (self.max_steps, fr.func.name))
            try:
                r = self.step(st, fr, ins)
            except MemError as me:
                raise MemError("%s [in %s: %s]" % (me, P_dem(fr.func.name), ins.text[:100]))
            except EngineError as ee:
                if "[in " in str(ee):
                    raise
                raise EngineError("%s [in %s: %s]" % (ee, P_dem(fr.func.name), ins.text[:140]))
            except SymOffset as so:
                r = self.fork_on_values(st, so.term, "offset")
                if r is None:
                    continue
            except SymByte as sb:
                r = self.fork_on_values(st, sb.term, "byte")
                if r is None:
                    continue
            except SymCond as sc:
                a, b = st.fork(), st.fork()
                a.pc.append(sc.cond)
                b.pc.append(z3.Not(sc.cond))
                r = [a, b]
            if r is not None:
                return r
        return None

    def fork_on_values(self, st, term, what, limit=256):
        """Concretise a symbolic term by case split; current instruction is re-executed in each child."""
        vals = []
        cons = list(st.pc)
        if os.environ.get("VF_TRACE"):
            fr = st.frames[-1]
            print("[concretise %s] %d constraints, in %s: %s | term %s" % (what, len(cons), P_dem(fr.func.name), fr.instrs[fr.ip].text[:90], str(term)[:160]), file=sys.stderr)
        while len(vals) <= limit:
            r, m = self.check(cons, want_model=True)
            if r != "sat":
                if r == "unknown":
                    raise EngineError("solver unknown while concretising " + what)
                break
            v = m.eval(term, model_completion=True)
            vals.append(v)
            cons.append(term != v)
        if len(vals) > limit:
            raise EngineError("too many feasible values for symbolic %s (> %d): %s" % (what, limit, str(term)[:200]))
        if not vals:
            raise PathEnd("infeasible")
        def remember(state, v):
            # the instruction is re-executed: it must find the chosen value for this term
            m = dict(state.user.get("conc") or {})
            m[term.get_id()] = (term, v)
            state.user["conc"] = m
        if len(vals) == 1:
            st.pc.append(term == vals[0])
            remember(st, vals[0])
            return None
        out = []
        for v in vals:
            c = st.fork()
            c.pc.append(term == v)
            remember(c, v)
            out.append(c)
        return out

    def known(self, st, term):
        """value chosen earlier for a concretised term on this path (or None)"""
        m = st.user.get("conc")
        if m:
            hit = m.get(term.get_id())
            if hit is not None and hit[0].eq(term):
                return hit[1]
        return None

    def set(self, fr, ins, v):
        if ins.dst is not None:
            fr.locals[ins.dst] = v
        fr.ip += 1

    def do_fork(self, st, fr, ins, fk):
        """fk.alts: [(constraint|None, value|callable)] -> list of child states (instruction completed in each)."""
        out = []
        for c, v in fk.alts:
            if c is not None and not self.feasible(st, c):
                continue
            ch = st.fork()
            if c is not None:
                ch.pc.append(c)
            cfr = ch.frames[-1]
            if callable(v):
                self.cur = ch
                try:
                    v = v(ch)
                except PathEnd as e:
                    self.res.paths += 1
                    self.res.ended[e.why] = self.res.ended.get(e.why, 0) + 1
                    continue
            if ins.dst is not None:
                cfr.locals[ins.dst] = v
            if ins.op == "invoke":
                self.cur = ch
                self.goto(cfr, ins.extra["normal"])
            else:
                cfr.ip += 1
            out.append(ch)
        self.cur = st
        if not out:
            raise PathEnd("infeasible")
        return out

    def branch(self, st, fr, cond, lt, lf):
        if not is_sym(cond):
            self.goto(fr, lt if cond else lf)
            return None
        c = boolz(cond)
        c = z3.simplify(c)
        if z3.is_true(c):
            self.goto(fr, lt)
            return None
        if z3.is_false(c):
            self.goto(fr, lf)
            return None
        ft = self.feasible(st, c)
        if not ft:
            st.pc.append(z3.Not(c))
            self.goto(fr, lf)
            return None
        ff = self.feasible(st, z3.Not(c))
        if not ff:
            st.pc.append(c)
            self.goto(fr, lt)
            return None
        if self.loop_bound is not None:
            key = ("lb", id(fr.func), fr.blk)
            n = st.user.get(key, 0) + 1
            st.user[key] = n
            if n > self.loop_bound:
                self.res.max_unroll_hit = True
                raise EngineError("unroll bound %d insufficient at %s:%s" % (self.loop_bound, fr.func.name, fr.blk))
        s2 = st.fork()
        st.pc.append(c)
        self.goto(fr, lt)
        s2.pc.append(z3.Not(c))
        self.cur = s2
        self.goto(s2.frames[-1], lf)
        self.cur = st
        return [st, s2]

    def step(self, st, fr, ins):
        op = ins.op
        V = self.val
        if op == "load":
            p = V(st, fr, ins.args[0])
            self.set(fr, ins, self.load(st, p, ins.ty))
            return
        if op == "store":
            v = V(st, fr, ins.args[0])
            p = V(st, fr, ins.args[1])
            self.store(st, p, ins.args[0][0], v)
            fr.ip += 1
            return
        if op == "getelementptr":
            base = V(st, fr, ins.args[0])
            idx = [(a[0], V(st, fr, a)) for a in ins.args[1:]]
            self.set(fr, ins, self.gep(base, ins.extra, idx))
            return
        if op == "bitcast":
            v = V(st, fr, ins.args[0])
            ft, tt = ins.args[0][0], ins.ty
            if ft.kind != tt.kind:
                if ft.kind == "fp" and tt.kind == "int" and not is_sym(v):
                    v = struct.unpack("<Q", struct.pack("<d", float(v)))[0]
                elif ft.kind == "int" and tt.kind == "fp" and not is_sym(v):
                    v = self.conv_loaded(v, tt, raw_bits=True)
                else:
                    raise EngineError("bitcast %s -> %s of symbolic value" % (ft.s(), tt.s()))
            self.set(fr, ins, v)
            return
        if op in ("add", "sub"):
            a = V(st, fr, ins.args[0])
            b = V(st, fr, ins.args[1])
            if isinstance(a, Ptr) or isinstance(b, Ptr):
                self.set(fr, ins, self.ptr_arith(op, a, b, ins.ty.bits))
            else:
                self._ck_undef(a, b, ins)
                self.set(fr, ins, int_bin(op, a, b, ins.ty.bits))
            return
        if op in ("mul", "and", "or", "xor", "shl", "lshr", "ashr", "udiv", "sdiv", "urem", "srem"):
            a = V(st, fr, ins.args[0])
            b = V(st, fr, ins.args[1])
            if isinstance(a, Ptr) or isinstance(b, Ptr):
                a, b = self._ptr_as_int(a), self._ptr_as_int(b)
            self._ck_undef(a, b, ins)
            if is_sym(b) and op in ("udiv", "sdiv", "urem", "srem"):
                z = bv(b, ins.ty.bits) == 0
                if self.feasible(st, z):
                    return self.do_fork(st, fr, ins, Fork([(z, lambda s: _raise(PathEnd("division by zero"))),
                                                           (z3.Not(z), lambda s: int_bin(op, a, b, ins.ty.bits))]))
            self.set(fr, ins, int_bin(op, a, b, ins.ty.bits))
            return
        if op in ("fadd", "fsub", "fmul", "fdiv", "frem"):
            a = V(st, fr, ins.args[0])
            b = V(st, fr, ins.args[1])
            self._ck_undef(a, b, ins)
            if op == "fdiv" and is_sym(b):
                z = realz(b) == 0
                if self.feasible(st, z):
                    self.res.assumptions.add("division by a possibly-zero symbolic double: the zero case is cut "
                                             "(inf/NaN outside the real-arithmetic claim)")
                    st.notes.append("fdiv-by-zero cut at %s" % fr.func.name)
                    st.pc.append(z3.Not(z))
            self.set(fr, ins, self.fp.bin(op, a, b))
            return
        if op == "fneg":
            self.set(fr, ins, self.fp.neg(V(st, fr, ins.args[0])))
            return
        if op == "icmp":
            a = V(st, fr, ins.args[0])
            b = V(st, fr, ins.args[1])
            t = ins.args[0][0]
            if isinstance(a, Ptr) or isinstance(b, Ptr) or t.kind == "ptr":
                self.set(fr, ins, self.ptr_cmp(ins.extra, a, b))
            else:
                self._ck_undef(a, b, ins)
                self.set(fr, ins, int_cmp(ins.extra, a, b, t.bits))
            return
        if op == "fcmp":
            a = V(st, fr, ins.args[0])
            b = V(st, fr, ins.args[1])
            self._ck_undef(a, b, ins)
            self.set(fr, ins, self.fp.cmp(ins.extra, a, b))
            return
        if op == "condbr":
            c = V(st, fr, ins.args[0])
            if c is UNDEF:
                raise EngineError("branch on undef in " + fr.func.name)
            return self.branch(st, fr, c, ins.extra[0], ins.extra[1])
        if op == "br":
            self.goto(fr, ins.extra[0])
            return
        if op == "phi":
            raise EngineError("stray phi")
        if op == "select":
            c = V(st, fr, ins.args[0])
            a = V(st, fr, ins.args[1])
            b = V(st, fr, ins.args[2])
            if not is_sym(c):
                self.set(fr, ins, a if c else b)
                return
            c = z3.simplify(boolz(c))
            if z3.is_true(c):
                self.set(fr, ins, a)
                return
            if z3.is_false(c):
                self.set(fr, ins, b)
                return
            # a select whose condition is decided by the path condition keeps terms small
            if not self.feasible(st, c):
                self.set(fr, ins, b)
                return
            if not self.feasible(st, z3.Not(c)):
                self.set(fr, ins, a)
                return
            t = ins.ty
            if t.kind == "fp" and not isinstance(a, float) and not isinstance(b, float) or (t.kind == "fp" and self.exact):
                try:
                    self.set(fr, ins, z3.If(c, realz(a), realz(b)))
                    return
                except EngineError:
                    pass
            if t.kind == "int" and (is_zint(a) or is_zint(b)):
                self.set(fr, ins, z3.If(c, zint(a, t.bits), zint(b, t.bits)))
                return
            if t.kind == "int" and not isinstance(a, (Ptr, Undef)) and not isinstance(b, (Ptr, Undef)):
                if t.bits == 1:
                    self.set(fr, ins, z3.If(c, boolz(a), boolz(b)))
                else:
                    self.set(fr, ins, z3.If(c, bv(a, t.bits), bv(b, t.bits)))
                return
            return self.do_fork(st, fr, ins, Fork([(c, a), (z3.Not(c), b)]))
        if op in ("zext", "sext", "trunc"):
            v = V(st, fr, ins.args[0])
            if isinstance(v, Ptr):
                if op == "trunc":
                    v = self._ptr_as_int(v)
                else:
                    self.set(fr, ins, v)
                    return
            if v is UNDEF:
                self.set(fr, ins, UNDEF)
                return
            self.set(fr, ins, int_cast(op, v, ins.args[0][0].bits, ins.ty.bits))
            return
        if op in ("sitofp", "uitofp"):
            v = V(st, fr, ins.args[0])
            self.set(fr, ins, self.fp.sitofp(v, ins.args[0][0].bits, signed=(op == "sitofp")))
            return
        if op in ("fptosi", "fptoui"):
            v = V(st, fr, ins.args[0])
            self.set(fr, ins, self.fp.fptosi(v, ins.ty.bits))
            return
        if op in ("fpext", "fptrunc"):
            v = V(st, fr, ins.args[0])
            if op == "fptrunc" and not is_sym(v) and not self.exact:
                v = struct.unpack("<f", struct.pack("<f", v))[0]
            self.set(fr, ins, v)
            return
        if op == "ptrtoint":
            v = V(st, fr, ins.args[0])
            if isinstance(v, Ptr) and v.obj == 0 and isinstance(v.off, int):
                v = v.off & mask(ins.ty.bits)
            self.set(fr, ins, v)
            return
        if op == "inttoptr":
            v = V(st, fr, ins.args[0])
            if not isinstance(v, Ptr):
                if is_sym(v):
                    raise EngineError("inttoptr of symbolic integer")
                v = Ptr(0, v)
            self.set(fr, ins, v)
            return
        if op == "alloca":
            n = 1
            if ins.args:
                n = V(st, fr, ins.args[0])
                if is_sym(n):
                    raise EngineError("symbolic alloca size")
            o = self.new_obj(st, ir.sizeof(ins.extra) * n, name="%s.%s" % (fr.func.name[-24:], ins.dst), kind="stack")
            fr.allocas.append(o.id)
            self.set(fr, ins, Ptr(o.id, 0))
            return
        if op == "call" or op == "invoke":
            return self.call(st, fr, ins)
        if op == "ret":
            v = V(st, fr, ins.args[0]) if ins.args else None
            return self.ret(st, v)
        if op == "switch":
            c = V(st, fr, ins.args[0])
            dflt, cases = ins.extra
            bits = ins.args[0][0].bits
            if not is_sym(c):
                for cv, l in cases:
                    if (cv & mask(bits)) == c:
                        self.goto(fr, l)
                        return
                self.goto(fr, dflt)
                return
            alts = []
            cb = bv(c, bits)
            rest = []
            out = []
            for cv, l in cases:
                e = cb == z3.BitVecVal(cv, bits)
                rest.append(z3.Not(e))
                alts.append((e, l))
            alts.append((z3.And(*rest) if rest else z3.BoolVal(True), dflt))
            for e, l in alts:
                if self.feasible(st, e):
                    ch = st.fork()
                    ch.pc.append(e)
                    self.cur = ch
                    self.goto(ch.frames[-1], l)
                    out.append(ch)
            self.cur = st
            if not out:
                raise PathEnd("infeasible")
            return out
        if op == "extractvalue":
            v = V(st, fr, ins.args[0])
            for i in ins.extra:
                v = v[i]
            self.set(fr, ins, v)
            return
        if op == "insertvalue":
            agg = V(st, fr, ins.args[0])
            v = V(st, fr, ins.args[1])
            agg = _deepcopy_list(agg)
            t = agg
            for i in ins.extra[:-1]:
                t = t[i]
            t[ins.extra[-1]] = v
            self.set(fr, ins, agg)
            return
        if op == "freeze":
            v = V(st, fr, ins.args[0])
            if v is UNDEF:
                v = self.zero_of(ins.ty)
            self.set(fr, ins, v)
            return
        if op == "unreachable":
            raise PathEnd("unreachable")
        if op == "landingpad":
            raise EngineError("landingpad executed outside unwinding")
        if op == "resume":
            return self.unwind(st)
        raise EngineError("unsupported IR: instruction %s" % op)

    def _ck_undef(self, a, b, ins):
        if a is UNDEF or b is UNDEF:
            raise EngineError("arithmetic on undef: " + ins.text[:80])

    def _ptr_as_int(self, v):
        if isinstance(v, Ptr):
            if v.obj == 0 and isinstance(v.off, int):
                return v.off & mask(64)
            raise EngineError("integer arithmetic on a real pointer value")
        return v

    def ptr_cmp(self, pred, a, b):
        if not isinstance(a, Ptr):
            a = Ptr(0, a)
        if not isinstance(b, Ptr):
            b = Ptr(0, b)
        if a.obj == b.obj:
            if isinstance(a.off, int) and isinstance(b.off, int):
                return int_cmp(pred, a.off & mask(64), b.off & mask(64), 64)
            return int_cmp(pred, bv(a.off, 64), bv(b.off, 64), 64)
        # different objects: never equal (objects are disjoint; one-past-end aliasing outside the claim)
        if pred == "eq":
            return 0
        if pred == "ne":
            return 1
        if a.obj == 0 or b.obj == 0:
            # ordering against null
            an = 0 if a.obj == 0 else 1
            bn = 0 if b.obj == 0 else 1
            return int_cmp(pred, an, bn, 64)
        # distinct live objects: ordered by allocation number (a consistent choice of disjoint addresses)
        if isinstance(a.obj, int) and isinstance(b.obj, int):
            return int_cmp(pred, a.obj, b.obj, 64)
        raise EngineError("ordering comparison of pointers into different objects")

    # ------------------------------------------------------------ calls
    def callee_name(self, st, fr, ins):
        c = ins.extra["callee"]
        while c[0] == "cexpr" and c[1] == "bitcast":
            c = c[2][1]
        if c[0] == "global":
            return self.resolve_alias_name(c[1])
        if c[0] == "local":
            p = fr.locals[c[1]]
            if isinstance(p, Ptr) and isinstance(p.obj, str):
                return p.obj[1:]
            raise EngineError("indirect call through non-function value %r in %s" % (p, fr.func.name))
        raise EngineError("unsupported callee form")

    def call(self, st, fr, ins):
        name = self.callee_name(st, fr, ins)
        args = [self.val(st, fr, a) for a in ins.args]
        f = self.mod.funcs.get(name)
        h = self.externs.get(name)
        if h is None and name.startswith("llvm."):
            base = name.split(".")
            for n in range(len(base), 1, -1):
                h = self.externs.get(".".join(base[:n]))
                if h:
                    break
        if h is not None and (f is None or f.is_decl or getattr(h, "override", False)):
            r = h(self, st, fr, ins, args)
            if isinstance(r, Fork):
                return self.do_fork(st, fr, ins, r)
            if r is THROWN:
                return self.unwind(st)
            if r is NORETURN:
                return None
            if ins.dst is not None:
                fr.locals[ins.dst] = r
            if ins.op == "invoke":
                self.goto(fr, ins.extra["normal"])
            else:
                fr.ip += 1
            return None
        if f is None or f.is_decl:
            raise EngineError("call to unmodelled external function %s (from %s)" % (name, fr.func.name))
        if not f.blocks:
            raise EngineError("function %s has no parsed body" % name)
        self.res.funcs.add(name)
        nf = Frame(f)
        np_ = len(f.params)
        for (t, n), a in zip(f.params, args):
            nf.locals[n] = a
        nf.vararg = [(ins.args[i][0], args[i]) for i in range(np_, len(args))]
        st.frames.append(nf)
        if len(st.frames) > 400:
            raise EngineError("call depth exceeded")
        return None

    def ret(self, st, v):
        fr = st.frames.pop()
        for oid in fr.allocas:
            o = st.mem.get(oid)
            if o is not None:
                del st.mem[oid]
                st.owned.discard(oid)
        if not st.frames:
            return None
        c = st.frames[-1]
        ins = c.instrs[c.ip]
        if not fr.called:
            return None
        if ins.dst is not None:
            c.locals[ins.dst] = v
        if ins.op == "invoke":
            self.goto(c, ins.extra["normal"])
        else:
            c.ip += 1
        return None

    # ------------------------------------------------------------ exceptions
    def typeinfo_chain(self, name):
        """names of typeinfo globals that `name` is or derives from"""
        out = [name]
        # libstdc++'s own exception classes are external to the slice: their hierarchy is fixed by the standard
        cur = name
        while cur in STD_EXC_BASE:
            cur = STD_EXC_BASE[cur]
            out.append(cur)
        g = self.mod.globals.get(name)
        seen = set(out)
        stack = [g]
        while stack:
            g = stack.pop()
            if g is None or g.init is None:
                continue
            for ref in _global_refs(g.init):
                if ref.startswith("_ZTI") and ref not in seen:
                    seen.add(ref)
                    out.append(ref)
                    stack.append(self.mod.globals.get(ref))
        return out

    def typeid_for(self, name):
        if name not in self.typeids:
            self.typeids[name] = len(self.typeids) + 1
        return self.typeids[name]

    def unwind(self, st):
        """st.exc is set; find the handler."""
        if st.exc is None:
            raise EngineError("unwind without exception")
        exc_ptr, ti = st.exc
        chain = self.typeinfo_chain(ti) if ti else []
        first = True
        while st.frames:
            fr = st.frames[-1]
            ins = fr.instrs[fr.ip]
            if ins.op == "invoke" and not (first and False):
                lp_blk = fr.func.blocks[ins.extra["unwind"]]
                k = 0
                while lp_blk[k].op == "phi":
                    k += 1
                lp = lp_blk[k]
                if lp.op != "landingpad":
                    raise EngineError("unwind target without landingpad")
                cleanup, clauses = lp.extra
                sel = None
                for kind, (t, v) in clauses:
                    if kind != "catch":
                        raise EngineError("unsupported landingpad clause " + kind)
                    while v[0] == "cexpr" and v[1] == "bitcast":
                        v = v[2][1]
                    if v[0] == "null":
                        sel = self.typeid_for(None)
                        break
                    if v[0] == "global" and v[1] in chain:
                        sel = self.typeid_for(v[1])
                        break
                if sel is None and cleanup:
                    sel = 0
                if sel is not None:
                    self.goto(fr, ins.extra["unwind"])
                    fr.locals[lp.dst] = [exc_ptr, sel]
                    fr.ip += 1
                    return None
            # pop this frame
            for oid in fr.allocas:
                if oid in st.mem:
                    del st.mem[oid]
                    st.owned.discard(oid)
            st.frames.pop()
            first = False
        st.notes.append("uncaught exception " + str(ti))
        raise PathEnd("uncaught-exception:" + str(ti))


STD_EXC_BASE = {
    "_ZTISt12out_of_range": "_ZTISt11logic_error", "_ZTISt12length_error": "_ZTISt11logic_error",
    "_ZTISt16invalid_argument": "_ZTISt11logic_error", "_ZTISt12domain_error": "_ZTISt11logic_error",
    "_ZTISt11logic_error": "_ZTISt9exception",
    "_ZTISt11range_error": "_ZTISt13runtime_error", "_ZTISt14overflow_error": "_ZTISt13runtime_error",
    "_ZTISt15underflow_error": "_ZTISt13runtime_error", "_ZTISt12system_error": "_ZTISt13runtime_error",
    "_ZTINSt8ios_base7failureB5cxx11E": "_ZTISt12system_error", "_ZTISt13runtime_error": "_ZTISt9exception",
    "_ZTISt20bad_array_new_length": "_ZTISt9bad_alloc", "_ZTISt9bad_alloc": "_ZTISt9exception",
    "_ZTISt8bad_cast": "_ZTISt9exception", "_ZTISt10bad_typeid": "_ZTISt9exception", "_ZTISt13bad_exception": "_ZTISt9exception",
}


def P_dem(n):
    import subprocess
    try:
        return subprocess.run(["c++filt", n], stdout=subprocess.PIPE, text=True).stdout.strip()[:90]
    except Exception:
        return n


class Budget(Exception):
    pass


class SymOffset(Exception):
    def __init__(self, term):
        self.term = term


class SymCond(Exception):
    """fork the current state on a condition and re-execute the instruction in both children"""

    def __init__(self, cond):
        self.cond = cond


class SymByte(Exception):
    def __init__(self, term):
        self.term = term


class MemError(Exception):
    pass


class _Tok:
    def __init__(self, n):
        self.n = n

    def __repr__(self):
        return self.n


THROWN = _Tok("THROWN")
NORETURN = _Tok("NORETURN")


def _raise(e):
    raise e


def _deepcopy_list(x):
    if isinstance(x, list):
        return [_deepcopy_list(i) for i in x]
    return x


def _cut_ranges(rs, lo, hi):
    out = []
    for a, e in rs:
        if e <= lo or a >= hi:
            out.append((a, e))
        else:
            if a < lo:
                out.append((a, lo))
            if e > hi:
                out.append((hi, e))
    return out


def _global_refs(c):
    k = c[0]
    if k == "global":
        yield c[1]
    elif k == "agg":
        for t, v in c[1]:
            for r in _global_refs(v):
                yield r
    elif k == "cexpr":
        for x in c[2:]:
            if isinstance(x, tuple) and len(x) == 2 and isinstance(x[1], tuple):
                for r in _global_refs(x[1]):
                    yield r
            elif isinstance(x, list):
                for t, v in x:
                    for r in _global_refs(v):
                        yield r
