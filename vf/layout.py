"""Scalar-member tables of C++ classes, from clang's record layout dump of the real headers (regenerated per run).

layout.<Class>.txt lines:  offset size kind name     kind: i (integer/bool/enum/char), d (floating), p (pointer)
Members of standard-library types are opaque containers and are skipped, as are members named in `skip`."""
import os, re, subprocess
from . import pipeline as P

SIZES = {"_Bool": 1, "bool": 1, "char": 1, "signed char": 1, "unsigned char": 1, "short": 2, "unsigned short": 2, "int": 4,
         "unsigned int": 4, "long": 8, "unsigned long": 8, "long long": 8, "unsigned long long": 8, "size_t": 8,
         "double": 8, "float": 4, "long double": 16, "LDBLE": 8}


def dump(header_lines):
    src = "/tmp/vf_layout_%d.cpp" % os.getpid()
    open(src, "w").write("\n".join('#include "%s"' % h for h in header_lines) + "\nint vf_layout_anchor;\n")
    cmd = [P.CLANGXX, "-std=c++14"] + P.repo_flags() + ["-Xclang", "-fdump-record-layouts", "-fsyntax-only", "-w", src]
    r = subprocess.run(cmd, stdout=subprocess.PIPE, stderr=subprocess.PIPE, text=True)
    os.unlink(src)
    return r.stdout


def leaves(cls, skip=(), headers=("Phreeqc.h", "IPhreeqc.hpp")):
    txt = dump(headers)
    m = re.search(r"^\s+0 \| (?:class|struct) %s\n" % re.escape(cls), txt, re.M)
    if not m:
        raise RuntimeError("record layout of %s not found" % cls)
    blk = txt[m.start():txt.index("\n\n", m.start())].split("\n")[1:]
    rows = []
    for ln in blk:
        mm = re.match(r"\s*(\d+)(:\d+-\d+)? \|(\s+)(.*)$", ln)
        if not mm or mm.group(4).startswith("["):
            continue
        rows.append((int(mm.group(1)), len(mm.group(3)), mm.group(4).strip(), mm.group(2)))
    out = []
    i = 0
    n = len(rows)
    stack = []      # (indent, member name) of the enclosing class-type members
    base_ind = rows[0][1] if rows else 0
    while i < n:
        off, ind, text, bits = rows[i]
        while stack and stack[-1][0] >= ind:
            stack.pop()
        has_children = i + 1 < n and rows[i + 1][1] > ind
        name = text.split()[-1] if " " in text else text
        if text.startswith("(") or bits:
            i += 1
            continue
        typ = text[:-(len(name))].strip() if " " in text else text
        if has_children:
            opaque = "std::" in typ or typ.startswith("union") or name in skip or "__gnu_cxx" in typ
            if opaque:
                j = i + 1
                while j < n and rows[j][1] > ind:
                    j += 1
                i = j
                continue
            if not text.endswith("(base)") and not text.endswith("(primary base)"):
                stack.append((ind, name))
            i += 1
            continue
        if name in skip:
            i += 1
            continue
        arr = re.match(r"(.*)\[(\d+)\]$", typ)
        cnt = 1
        if arr:
            typ, cnt = arr.group(1).strip(), int(arr.group(2))
            am = re.match(r"(.*)\[(\d+)\]$", typ)
            while am:
                typ, cnt = am.group(1).strip(), cnt * int(am.group(2))
                am = re.match(r"(.*)\[(\d+)\]$", typ)
        typ = typ.replace("const ", "").strip()
        if "(*)" in typ:
            sz, kind = 8, "f"          # function pointer (callback): never dereferenced by the re-initialisation itself
        elif typ.endswith("*"):
            sz, kind = 8, "p"
        elif typ in SIZES:
            sz, kind = SIZES[typ], ("d" if typ in ("double", "float", "long double", "LDBLE") else "i")
        elif typ.startswith("enum ") or re.match(r"(class |struct )?[A-Za-z_:]+::[A-Z_a-z0-9]+$", typ) and "std::" not in typ:
            sz, kind = 4, "i"          # enumerations
        else:
            i += 1
            continue                  # empty classes, unknown leaf types
        full = ".".join([x[1] for x in stack] + [name])
        if cnt * sz <= 8192:
            for k in range(cnt):
                out.append((off + k * sz, sz, kind, full if cnt == 1 else "%s[%d]" % (full, k)))
        i += 1
    return out


def write(wd, cls, skip=()):
    rows = leaves(cls, skip)
    with open(os.path.join(wd, "layout.%s.txt" % cls), "w") as fp:
        for o, s, k, nme in rows:
            fp.write("%d %d %s %s\n" % (o, s, k, nme))
    return rows
