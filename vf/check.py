"""CLI: ./check <property-id> [--tier quick|thorough] [--only OBL] [-v] [--replay FILE]

exit 0: every obligation held (or only known findings failed); exit 1 + VIOLATION line: a replayed
counterexample that is not a known finding; exit 2: tooling failure (never reported as a violation).
"""
import os, sys, json, time, argparse, traceback
from concurrent.futures import ThreadPoolExecutor, as_completed
from . import runner, pipeline as P

ROOT = P.ROOT


def load_known():
    p = os.path.join(ROOT, "known_findings.json")
    if not os.path.exists(p):
        return {"findings": [], "fixed": []}
    return json.load(open(p))


def match_known(known, prop, obl_id, cex):
    for k in known.get("findings", []):
        if k.get("obligation") != obl_id:
            continue
        if k.get("label") and k["label"] != cex["label"]:
            continue
        cond = k.get("when")
        if cond:
            try:
                env = {n.replace("#", "_").replace(".", "_"): v for n, v in cex["inputs"].items()}
                if not eval(cond, {"__builtins__": {}}, env):
                    continue
            except Exception:
                continue
        return k
    return None


def _work(args):
    """run one harness file in its own process under a hard wall-clock limit"""
    path, tier, seed, only, verbose = args
    import subprocess, tempfile
    limit = int(os.environ.get("VERIF_FILE_LIMIT_S", "1800" if tier == "thorough" else "420"))
    out = tempfile.mktemp(prefix="vfres.", suffix=".json", dir=os.path.join(P.BUILD))
    cmd = [sys.executable, "-m", "vf.worker", path, tier, str(seed), out, ",".join(only or [])]
    t0 = time.time()
    try:
        p = subprocess.run(cmd, cwd=ROOT, stdout=subprocess.PIPE, stderr=subprocess.PIPE, text=True, timeout=limit)
        if os.path.exists(out):
            res = json.load(open(out))
            os.unlink(out)
            return res
        err = "worker exited %d: %s" % (p.returncode, p.stderr[-1500:])
        st = "error"
    except subprocess.TimeoutExpired:
        err = "no verdict within the %d s wall-clock limit of this tier (reported as inconclusive, never as success)" % limit
        st = "inconclusive"
    obls = [o for o in runner.parse_header(path) if (tier == "thorough" or o.tier == "Q") and (not only or o.id in only)]
    return [{"id": o.id, "prop": o.prop, "engine": o.engine, "entry": o.entry, "harness": os.path.relpath(path, ROOT),
             "status": st, "error": err, "wall_s": round(time.time() - t0, 1), "bounds": o.text.get("bounds", "")} for o in obls]


def main(argv=None):
    ap = argparse.ArgumentParser()
    ap.add_argument("prop")
    ap.add_argument("--tier", default=os.environ.get("VERIF_TIER", "quick"))
    ap.add_argument("--only", action="append")
    ap.add_argument("-v", action="store_true")
    ap.add_argument("--replay")
    ap.add_argument("--jobs", type=int, default=int(os.environ.get("VERIF_JOBS", "16")))
    ap.add_argument("--no-evidence", action="store_true")
    a = ap.parse_args(argv)
    user_only = bool(a.only)
    tier = "thorough" if a.tier.startswith("t") else "quick"
    seed = int(os.environ.get("VERIF_SEED", "0") or 0)
    t0 = time.time()
    if a.replay:
        return replay(a.prop, a.replay)
    obls = runner.discover(a.prop)
    if not obls:
        print("no obligations registered for", a.prop)
        return 2
    # the library IR is built once, before the workers start
    P.build_lib(log=lambda *x: print(*x, file=sys.stderr))
    files = sorted(set(o.path for o in obls))
    wanted = set(o.id for o in obls)
    if a.only:
        wanted &= set(a.only)
    a.only = sorted(wanted)
    results = []
    jobs = []
    os.makedirs(P.BUILD, exist_ok=True)
    with ThreadPoolExecutor(max_workers=max(1, a.jobs)) as ex:
        for f in files:
            # one process per obligation (the slice is built once, under a lock, and shared)
            for o in runner.parse_header(f):
                if o.id in wanted and (tier == "thorough" or o.tier == "Q"):
                    jobs.append(ex.submit(_work, (f, tier, seed, [o.id], a.v)))
        for j in as_completed(jobs):
            results.extend(j.result())
    results = [r for r in results if r.get("id") in wanted or r.get("prop") == "?"]
    results.sort(key=lambda r: r["id"])
    known = load_known()
    viol = []
    knownhits = []
    errors = []
    os.makedirs(os.path.join(ROOT, "replays", a.prop), exist_ok=True)
    for r in results:
        if r["status"] == "error":
            errors.append(r)
        if r["status"] == "violation":
            new = []
            for c in r.get("confirmed", []):
                k = match_known(known, a.prop, r["id"], c)
                if k:
                    knownhits.append((k, r["id"]))
                    c["known_finding"] = k["id"]
                else:
                    new.append(c)
            if new:
                rp = os.path.join(ROOT, "replays", a.prop, r["id"] + ".json")
                json.dump({"property": a.prop, "obligation": r["id"], "harness": r.get("harness"), "entry": r.get("entry"),
                           "tier": tier, "counterexamples": new}, open(rp, "w"), indent=1, default=str)
                viol.append((r, rp))
            else:
                r["status"] = "known-finding"
    wall = time.time() - t0
    for r in results:
        print("%-28s %-13s paths=%-5s queries=%-5s solver=%-7ss wall=%ss %s" % (
            r["id"], r["status"], r.get("paths", "-"), r.get("queries", "-"), r.get("solver_s", "-"), r.get("wall_s", "-"),
            r.get("error", "")[:300]))
        if a.v and r.get("trace"):
            print(r["trace"])
    seen = set()
    for k, oid in knownhits:
        if k["id"] not in seen:
            seen.add(k["id"])
            if a.prop in (k.get("properties") or [k.get("property")]):
                print("KNOWN-FINDING: property=%s %s" % (a.prop, k["text"]))
            else:
                print("note: obligation %s hits known finding %s, which is recorded for %s" % (oid, k["id"], k.get("properties") or k.get("property")))
    for r, rp in viol:
        print("VIOLATION property=%s replay=%s" % (a.prop, rp))
    if not a.no_evidence and not user_only:
        write_evidence(a.prop, tier, seed, results, wall, len(viol), knownhits)
    if viol:
        return 1
    if errors:
        print("TOOLING-FAILURE: %d obligation(s) could not be decided (see above); not a violation" % len(errors))
        return 2
    return 0


def write_evidence(prop, tier, seed, results, wall, nviol, knownhits):
    decided = [r for r in results if r["status"] in ("pass", "known-finding", "violation")]
    samples = []
    for r in results:
        samples.append({
            "obligation": r["id"], "status": r["status"], "engine": r.get("engine"), "harness": r.get("harness"),
            "entry": r.get("entry"), "bounds": r.get("bounds"), "oracle": r.get("oracle"),
            "outside_the_claim": r.get("outside"), "stubs": r.get("stubs"),
            "paths": r.get("paths"), "path_ends": r.get("ended"), "queries": r.get("queries"),
            "solver_s": r.get("solver_s"), "wall_s": r.get("wall_s"), "checks": r.get("checks"),
            "vacuity_witnesses": r.get("reached"), "validation": r.get("validation"),
            "functions_encoded": [f["name"] for f in r.get("functions_encoded", [])][:25],
            "n_functions_encoded": r.get("n_functions_encoded"),
            "ir_lines": r.get("ir_lines"), "sample_paths": r.get("sample_paths"), "cex": r.get("cex"),
            "error": r.get("error"), "unwind": r.get("unwind"), "cbmc": r.get("cbmc"),
        })
    states = sum(int(r.get("paths") or 0) + int(r.get("ssa_steps") or 0) for r in results)
    queries = sum(int(r.get("queries") or 0) for r in results)
    evals = sum(sum(sum(d.values()) for d in (r.get("checks") or {}).values()) for r in results)
    val = sum(int((r.get("validation") or {}).get("agreed") or 0) for r in results) + \
        sum(len(r.get("cex") or []) for r in results)
    assumptions = set()
    for r in results:
        for x in r.get("assumptions") or []:
            assumptions.add(x)
        if r.get("stubs"):
            assumptions.add("%s stubs: %s" % (r["id"], r["stubs"]))
        if r.get("outside"):
            assumptions.add("%s outside the claim: %s" % (r["id"], r["outside"]))
    assumptions.add("doubles are decided in exact real arithmetic (z3 Real); IEEE-754 rounding is outside the claim; "
                    "every counterexample is replayed natively in double precision before it is reported")
    assumptions.add("encoding regenerated from /repo working tree on every run (clang++-14 -O1 IR of the real functions)")
    ev = {
        "property_id": prop, "tier": tier, "seed": seed, "level": "model_checking",
        "coverage": {
            "states": max(states, 0), "transitions": max(queries + evals, 0),
            "solver_queries": queries, "obligation_evaluations": evals,
            "traces_validated_against_impl": val,
            "samples": samples,
            "obligations": len(results), "discharged": len([r for r in results if r["status"] == "pass"]),
            "inconclusive": [r["id"] for r in results if r["status"] == "inconclusive"],
            "tooling_errors": [r["id"] for r in results if r["status"] == "error"],
            "known_findings_hit": sorted(set(k["id"] for k, _ in knownhits)),
            "solver_s": round(sum(float(r.get("solver_s") or 0) for r in results), 3),
            "peak_rss_mb": max([int(r.get("peak_rss_mb") or 0) for r in results] or [0]),
            "explanation": "states = symbolic paths explored (engine B) + CBMC SSA steps (engine A); transitions = "
                           "solver queries discharged + obligation evaluations decided along the paths (an obligation whose "
                           "operands are concrete on a path, e.g. after a case split of a small-range input, is decided without "
                           "a solver call); traces_validated = encoder-validation vectors on which the "
                           "encoding and the native build of the same IR agreed + natively replayed counterexamples",
        },
        "assumptions": sorted(assumptions),
        "wall_s": round(wall, 2), "violations": nviol,
    }
    os.makedirs(os.path.join(ROOT, "evidence"), exist_ok=True)
    json.dump(ev, open(os.path.join(ROOT, "evidence", prop + ".json"), "w"), indent=1, default=str)


def replay(prop, path):
    d = json.load(open(path))
    h = os.path.join(ROOT, d["harness"])
    ll, wd = runner.build_slice(h, [o.entry for o in runner.parse_header(h)], d.get("tier", "quick"), print)
    exe = runner.build_native(ll, wd, d["entry"])
    bad = 0
    for c in d["counterexamples"]:
        nat = runner.run_native(exe, list(c["inputs"].items()), wd, "replay")
        f = [l for l in nat["lines"] if l[1] == c["label"] and l[2] == 0]
        print("replay %s: %s" % (c["label"], "FAILS (violation reproduced)" if f else "passes"), nat["lines"][:4])
        bad += bool(f)
    if bad:
        print("VIOLATION property=%s replay=%s" % (prop, path))
        return 1
    return 0


if __name__ == "__main__":
    sys.exit(main())
