"""setup_cmd: byte-compile the framework and self-test the IR front end + solver on a fixed snippet (offline)."""
import compileall, os, sys, subprocess
from . import pipeline as P

def main():
    ok = compileall.compile_dir(os.path.join(P.ROOT, "vf"), quiet=1)
    import z3
    from . import irparse, irsym
    snippet = '''
declare double @vf_double(i8*, double, double)
declare void @vf_close(i8*, double, double, double, double)
@.n = private constant [2 x i8] c"x\\00"
@.l = private constant [2 x i8] c"l\\00"
define void @t() {
entry:
  %x = call double @vf_double(i8* getelementptr inbounds ([2 x i8], [2 x i8]* @.n, i64 0, i64 0), double 1.0, double 2.0)
  %a = fmul double %x, %x
  %b = fadd double %x, 1.0
  %c = fmul double %b, %b
  %d = fsub double %c, %b
  %e = fsub double %d, %x
  call void @vf_close(i8* getelementptr inbounds ([2 x i8], [2 x i8]* @.l, i64 0, i64 0), double %a, double %e, double 0.0, double 0.0)
  ret void
}
'''
    m = irparse.parse_module(snippet)
    r = irsym.Engine(m).run("t")
    assert r.checks["l"]["unsat"] == 1 and not r.cex, r.checks
    for tool in ("clang++-14", "llvm-link-14", "opt-14", "llvm-dis-14", "cbmc", "goto-cc"):
        subprocess.run([tool, "--version"], stdout=subprocess.DEVNULL, stderr=subprocess.DEVNULL, check=True)
    os.makedirs(P.BUILD, exist_ok=True)
    print("setup ok: z3", z3.get_version_string())
    return 0 if ok else 1

if __name__ == "__main__":
    sys.exit(main())
