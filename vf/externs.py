"""Models of external functions for engine B (vf_* API, libc, libm, C++ runtime)."""
import math, struct, os
from fractions import Fraction
import z3
from . import irparse as ir
from .symval import *  # noqa
from . import irsym as S


def install(E):
    X = E.externs

    def reg(*names, **kw):
        def d(f):
            for n in names:
                X[n] = f
            if kw.get("override"):
                f.override = True
            return f
        return d

    # ------------------------------------------------------------------ vf API
    @reg("vf_double")
    def vf_double(E, st, fr, ins, a):
        name = E.cstring(st, a[0]).decode()
        lo, hi = a[1], a[2]
        n = sum(1 for i in st.inputs if i[0].split("#")[0] == name)
        key = name if n == 0 else "%s#%d" % (name, n)
        if E.given is not None:
            v = E.take_given(key)
            v = Fraction(v) if E.exact else float(v)
            st.inputs.append((key, "double", v, float(lo), float(hi)))
            if not (float(lo) <= float(v) <= float(hi)):
                raise PathEnd("assume-false")
            return v
        x = z3.Real(key)
        st.inputs.append((key, "double", x, float(lo), float(hi)))
        st.pc.append(z3.And(x >= realz(lo), x <= realz(hi)))
        return x

    @reg("vf_int")
    def vf_int(E, st, fr, ins, a):
        name = E.cstring(st, a[0]).decode()
        lo, hi = to_signed(a[1], 64), to_signed(a[2], 64)
        n = sum(1 for i in st.inputs if i[0].split("#")[0] == name)
        key = name if n == 0 else "%s#%d" % (name, n)
        if E.given is not None:
            v = int(E.take_given(key))
            st.inputs.append((key, "int", v, lo, hi))
            if not (lo <= v <= hi):
                raise PathEnd("assume-false")
            return v & mask(64)
        if hi - lo <= 64 and E.presplit:
            # small range: case split keeps integers concrete (sound: every value gets a path)
            def mk(v):
                def f(s):
                    s.inputs.append((key, "int", v, lo, hi))
                    return v & mask(64)
                return f
            return S.Fork([(None, mk(v)) for v in range(lo, hi + 1)])
        x = z3.BitVec(key, 64)
        st.inputs.append((key, "int", x, lo, hi))
        st.pc.append(z3.And(x >= lo, x <= hi))
        return x

    @reg("vf_assume")
    def vf_assume(E, st, fr, ins, a):
        c = a[0]
        if not is_sym(c):
            if not c:
                raise PathEnd("assume-false")
            return None
        c = bv(c, 32) != 0 if not isinstance(c, z3.BoolRef) else c
        if not E.feasible(st, c):
            raise PathEnd("assume-false")
        st.pc.append(c)
        return None

    @reg("vf_reach")
    def vf_reach(E, st, fr, ins, a):
        lab = E.cstring(st, a[0]).decode()
        E.res.reached[lab] = E.res.reached.get(lab, 0) + 1
        return None

    def record(E, lab, outcome):
        d = E.res.checks.setdefault(lab, {"unsat": 0, "sat": 0, "unknown": 0, "concrete_ok": 0, "concrete_fail": 0})
        d[outcome] += 1

    def decide(E, st, lab, bad, detail):
        """bad: z3 Bool describing a violation on this path."""
        r, m = E.check(st.pc + [bad], want_model=True)
        if r == "unsat":
            record(E, lab, "unsat")
            return
        if r == "sat":
            record(E, lab, "sat")
            d = {"label": lab, "kind": "check", "inputs": E.model_inputs(st, m), "detail": detail(m) if detail else ""}
            E.res.cex.append(d)
        else:
            record(E, lab, "unknown")
            E.res.inconclusive.append(lab)
        # continue the path under the assumption that the check held
        st.pc.append(z3.Not(bad))
        if not E.feasible(st, z3.BoolVal(True)):
            raise PathEnd("check-failed-always")

    @reg("vf_check")
    def vf_check(E, st, fr, ins, a):
        lab = E.cstring(st, a[0]).decode()
        c = a[1]
        if not is_sym(c):
            if c:
                record(E, lab, "concrete_ok")
            else:
                record(E, lab, "concrete_fail")
                r, m = E.check(st.pc, want_model=True)
                if r != "unsat":
                    E.res.cex.append({"label": lab, "kind": "check", "inputs": E.model_inputs(st, m), "detail": "concrete false",
                                      "pc": [str(x)[:300] for x in st.pc][-12:]})
            if E.given is not None:
                E.res.closes.append(("check", lab, int(bool(c)), None, None))
            return None
        c = bv(c, 32) != 0 if not isinstance(c, z3.BoolRef) else c
        decide(E, st, lab, z3.Not(c), None)
        return None

    @reg("vf_close")
    def vf_close(E, st, fr, ins, a):
        lab = E.cstring(st, a[0]).decode()
        impl, ref, rtol, atol = a[1], a[2], a[3], a[4]
        if not any(is_sym(x) for x in (impl, ref, rtol, atol)):
            fi, fr_ = float(impl), float(ref)
            if fi != fi or fr_ != fr_:
                ok = (fi != fi) and (fr_ != fr_)
            elif math.isinf(fi) or math.isinf(fr_):
                ok = fi == fr_
            elif E.given is not None:
                # encoder validation runs in double precision: same formula, same rounding as rt/vf_native.c
                ok = abs(fi - fr_) <= float(atol) + float(rtol) * (abs(fi) + abs(fr_))
            else:
                ok = abs(Fraction(impl) - Fraction(ref)) <= Fraction(atol) + Fraction(rtol) * (abs(Fraction(impl)) + abs(Fraction(ref)))
            record(E, lab, "concrete_ok" if ok else "concrete_fail")
            if E.given is not None:
                E.res.closes.append(("close", lab, int(ok), fi, fr_))
            elif not ok:
                r, m = E.check(st.pc, want_model=True)
                if r != "unsat":
                    E.res.cex.append({"label": lab, "kind": "close", "inputs": E.model_inputs(st, m),
                                      "detail": "impl=%r ref=%r" % (fi, fr_)})
            return None
        for x in (impl, ref):
            if isinstance(x, float):
                raise EngineError("non-finite concrete operand in vf_close(%s)" % lab)
        i, r_ = realz(impl), realz(ref)
        d = i - r_
        ad = z3.If(d >= 0, d, -d)
        ai = z3.If(i >= 0, i, -i)
        ar = z3.If(r_ >= 0, r_, -r_)
        bad = ad > realz(atol) + realz(rtol) * (ai + ar)

        def detail(m):
            try:
                return "impl=%s ref=%s" % (m.eval(i, model_completion=True).as_decimal(17),
                                           m.eval(r_, model_completion=True).as_decimal(17))
            except Exception:
                return ""
        decide(E, st, lab, bad, detail)
        return None

    @reg("vf_event")
    def vf_event(E, st, fr, ins, a):
        st.trace.append((E.cstring(st, a[0]).decode(), a[1], a[2]))
        return None

    @reg("vf_event_d")
    def vf_event_d(E, st, fr, ins, a):
        st.trace.append((E.cstring(st, a[0]).decode(), a[1]))
        return None

    @reg("vf_event_s")
    def vf_event_s(E, st, fr, ins, a):
        s = "<null>" if a[1].is_null() else E.cstring(st, a[1]).decode(errors="replace")
        st.trace.append((E.cstring(st, a[0]).decode(), s))
        return None

    @reg("vf_raw")
    def vf_raw(E, st, fr, ins, a):
        o = E.new_obj(st, a[0], name="raw%d" % E.next_obj, zero=True, kind="raw")
        return Ptr(o.id, 0)

    def leaves(E, tname):
        """[(offset, size, kind, name)] read from the table the runner generated from clang's record layout"""
        cache = E.__dict__.setdefault("_leaves", {})
        if tname in cache:
            return cache[tname]
        d = E.__dict__.get("layout_dir") or "."
        path = os.path.join(d, "layout.%s.txt" % tname)
        if not os.path.exists(path):
            raise EngineError("no layout table for %s (harness needs '// @layout %s')" % (tname, tname))
        out = []
        for ln in open(path):
            o, sz, kd, nm = ln.split()
            out.append((int(o), int(sz), kd, nm))
        cache[tname] = out
        return out
    E.struct_leaves = leaves

    @reg("vf_havoc", "vf_havoc_except")
    def vf_havoc(E, st, fr, ins, a):
        tname = E.cstring(st, a[1]).decode()
        skip = tuple(x for x in E.cstring(st, a[2]).decode().split("|") if x) if len(a) > 2 else ()
        for o, sz, kd, nm in leaves(E, tname):
            if kd == "p" or (skip and nm.startswith(skip)):
                continue
            q = Ptr(a[0].obj, E.padd(a[0].off, o))
            if kd == "f":
                E.store(st, q, ir.I8P, Ptr(0, 0x5a5a5a5a5a5a5a5a))      # a stale callback address
                continue
            if kd == "d":
                f = struct.unpack("<d", b"\x5a" * 8)[0] if sz == 8 else struct.unpack("<f", b"\x5a" * 4)[0]
                E.store(st, q, ir.DOUBLE if sz == 8 else ir.FLOAT, Fraction(f) if E.exact else f)
            else:
                E.store(st, q, ir.intT(8 * sz), int.from_bytes(b"\x5a" * sz, "little"))
        return None

    @reg("vf_same_scalars", "vf_same_scalars_except")
    def vf_same_scalars(E, st, fr, ins, a):
        lab = E.cstring(st, a[0]).decode()
        tname = E.cstring(st, a[3]).decode()
        skip = tuple(x for x in E.cstring(st, a[4]).decode().split("|") if x) if len(a) > 4 else ()
        bad = []
        for o, sz, kd, nm in leaves(E, tname):
            if skip and nm.startswith(skip):
                continue
            pa, pb = Ptr(a[1].obj, E.padd(a[1].off, o)), Ptr(a[2].obj, E.padd(a[2].off, o))
            ty = ir.I8P if kd in ("p", "f") else (ir.DOUBLE if sz == 8 else ir.FLOAT) if kd == "d" else ir.intT(8 * sz)
            try:
                va = E.load(st, pa, ty)
            except S.MemError:
                va = "<uninitialised>"
            try:
                vb = E.load(st, pb, ty)
            except S.MemError:
                vb = "<uninitialised>"
            if kd in ("p", "f"):
                na = va.is_null() if isinstance(va, Ptr) else va
                nb = vb.is_null() if isinstance(vb, Ptr) else vb
                same = na == nb
            elif is_sym(va) or is_sym(vb):
                same = None
            else:
                same = (va == vb) or (isinstance(va, float) and isinstance(vb, float) and va != va and vb != vb)
            if same is None:
                E.res.assumptions.add("members holding environment values (clock) are not compared (%s)" % nm)
                continue
            if not same:
                bad.append((nm, o, str(va)[:40], str(vb)[:40]))
        d = E.res.checks.setdefault(lab, {"unsat": 0, "sat": 0, "unknown": 0, "concrete_ok": 0, "concrete_fail": 0})
        if E.given is not None:
            E.res.closes.append(("check", lab, int(not bad), None, None))
        if bad:
            d["concrete_fail"] += 1
            r, m = E.check(st.pc, want_model=True)
            if r != "unsat":
                E.res.cex.append({"label": lab, "kind": "check", "inputs": E.model_inputs(st, m),
                                  "detail": "members differ (name, offset, first, second): %s%s" % (bad[:400], " ... %d in all" % len(bad) if len(bad) > 400 else "")})
        else:
            d["concrete_ok"] += 1
        return None

    @reg("vf_guarded")
    def vf_guarded(E, st, fr, ins, a):
        g = list(st.user.get("guards") or [])
        g.append((a[0].obj, a[0].off, a[0].off + a[1], _pname(st, a[2]), E.cstring(st, a[3]).decode()))
        st.user["guards"] = g
        st.user["guard_on"] = True
        return None

    @reg("vf_guard_enable")
    def vf_guard_enable(E, st, fr, ins, a):
        st.user["guard_on"] = bool(a[0])
        return None

    @reg("vf_watch_shared_state")
    def vf_watch_shared_state(E, st, fr, ins, a):
        # from here on, a store to a process-wide mutable object of the library without a lock held is a
        # lock-discipline violation (the harness' own globals are exempt)
        if E.watch_enabled:
            st.user["watch_globals"] = bool(a[0])
            E.res.watch_regions = getattr(E.res, "watch_regions", 0) + (1 if a[0] else 0)
        return None

    @reg("vf_locks_held")
    def vf_locks_held(E, st, fr, ins, a):
        return len(st.user.get("held") or [])

    @reg("vf_fail")
    def vf_fail(E, st, fr, ins, a):
        raise EngineError("harness failure: " + E.cstring(st, a[0]).decode())

    def take_given(key):
        vals = E.given.get(key)
        if vals is None:
            base = key.split("#")[0]
            vals = E.given.get(base)
            if vals is None:
                raise EngineError("replay/validation input missing for " + key)
        if isinstance(vals, list):
            pos = E.given_pos.get(key, 0)
            E.given_pos[key] = pos + 1
            return vals[min(pos, len(vals) - 1)]
        return vals
    E.take_given = take_given

    # ------------------------------------------------------------------ allocation
    @reg("malloc", "_Znwm", "_Znam")
    def malloc(E, st, fr, ins, a):
        n = a[0]
        if is_sym(n):
            raise S.SymOffset(bv(n, 64))
        o = E.new_obj(st, n, name="heap%d" % E.next_obj, kind="heap")
        return Ptr(o.id, 0)

    @reg("calloc")
    def calloc(E, st, fr, ins, a):
        o = E.new_obj(st, a[0] * a[1], name="heap%d" % E.next_obj, zero=True, kind="heap")
        return Ptr(o.id, 0)

    @reg("free", "_ZdlPv", "_ZdaPv", "_ZdlPvm", "_ZdaPvm")
    def free(E, st, fr, ins, a):
        p = a[0]
        if p.obj == 0:
            return None
        o = st.mem.get(p.obj)
        if o is None or isinstance(p.obj, str):
            raise S.MemError("free of invalid pointer")
        if o.freed:
            raise S.MemError("double free of %s" % o.name)
        if o.kind not in ("heap",):
            raise S.MemError("free of non-heap object %s" % o.name)
        if not (isinstance(p.off, int) and p.off == 0):
            raise S.MemError("free of interior pointer")
        o = E.wobj(st, p.obj)
        o.freed = True
        o.cells = {}
        return None

    @reg("realloc")
    def realloc(E, st, fr, ins, a):
        p, n = a
        if is_sym(n):
            raise S.SymOffset(bv(n, 64))
        o = E.new_obj(st, n, name="heap%d" % E.next_obj, kind="heap")
        if p.obj != 0:
            old = st.mem[p.obj]
            m = min(n, old.size)
            E.memcpy(st, Ptr(o.id, 0), p, m)
            free(E, st, fr, ins, [p])
        return Ptr(o.id, 0)

    # ------------------------------------------------------------------ llvm intrinsics
    @reg("llvm.lifetime.start", "llvm.lifetime.end", "llvm.experimental.noalias.scope.decl", "llvm.dbg.value",
         "llvm.dbg.declare", "llvm.dbg.label", "llvm.assume", "llvm.invariant.start", "llvm.invariant.end")
    def nop(E, st, fr, ins, a):
        return None

    def csize(E, n):
        if is_sym(n):
            n = z3.simplify(n)
            if z3.is_bv_value(n):
                return n.as_long()
            raise S.SymOffset(n)
        return n

    @reg("llvm.memcpy", "llvm.memmove", "memcpy", "memmove")
    def memcpy(E, st, fr, ins, a):
        E.memcpy(st, a[0], a[1], csize(E, a[2]))
        return a[0]

    @reg("llvm.memset", "memset")
    def memset(E, st, fr, ins, a):
        v = a[1]
        if not is_sym(v):
            v &= 255
        else:
            v = z3.Extract(7, 0, bv(v, 32)) if v.size() > 8 else v
        E.memset(st, a[0], v, csize(E, a[2]))
        return a[0]

    @reg("llvm.load.relative")
    def load_relative(E, st, fr, ins, a):
        v = E.load(st, Ptr(a[0].obj, E.padd(a[0].off, to_signed(a[1], 64))), ir.I32)
        if isinstance(v, PtrDiff) and v.b.obj == a[0].obj:
            d = v.b.off - a[0].off if isinstance(v.b.off, int) and isinstance(a[0].off, int) else None
            if d == 0:
                return v.a
        if isinstance(v, int):
            return Ptr(a[0].obj, E.padd(a[0].off, to_signed(v, 32)))
        raise EngineError("llvm.load.relative of unsupported table entry")

    @reg("llvm.trap")
    def trap(E, st, fr, ins, a):
        raise PathEnd("trap")

    @reg("llvm.fabs")
    def l_fabs(E, st, fr, ins, a):
        return E.fp.math1("fabs", a[0])

    @reg("llvm.floor", "floor")
    def l_floor(E, st, fr, ins, a):
        return E.fp.math1("floor", a[0])

    @reg("llvm.ceil", "ceil")
    def l_ceil(E, st, fr, ins, a):
        return E.fp.math1("ceil", a[0])

    @reg("llvm.sqrt", "sqrt")
    def l_sqrt(E, st, fr, ins, a):
        return E.fp.math1("sqrt", a[0])

    @reg("fabs")
    def fabs(E, st, fr, ins, a):
        return E.fp.math1("fabs", a[0])

    for nm in ("log", "log10", "exp", "sin", "cos", "sinh", "cosh", "tanh", "acos", "atan", "asin", "tan"):
        def mk(nm):
            def f(E, st, fr, ins, a):
                return E.fp.math1(nm, a[0])
            return f
        X[nm] = mk(nm)
        X["llvm." + nm] = X[nm]

    @reg("pow", "llvm.pow")
    def pow_(E, st, fr, ins, a):
        return E.fp.pow(a[0], a[1])

    @reg("llvm.powi")
    def powi(E, st, fr, ins, a):
        return E.fp.pow(a[0], Fraction(to_signed(a[1], 32)))

    @reg("fmod")
    def fmod(E, st, fr, ins, a):
        return E.fp.bin("frem", a[0], a[1])

    def minmax(signed, ismax):
        def f(E, st, fr, ins, a):
            bits = ins.ty.bits
            x, y = a
            if not is_sym(x) and not is_sym(y):
                kx = to_signed(x, bits) if signed else x
                ky = to_signed(y, bits) if signed else y
                return x if ((kx >= ky) == ismax) else y
            c = int_cmp(("sge" if signed else "uge"), x, y, bits)
            return z3.If(c, bv(x, bits), bv(y, bits)) if ismax else z3.If(c, bv(y, bits), bv(x, bits))
        return f
    X["llvm.smax"] = minmax(True, True)
    X["llvm.smin"] = minmax(True, False)
    X["llvm.umax"] = minmax(False, True)
    X["llvm.umin"] = minmax(False, False)

    @reg("llvm.abs")
    def l_abs(E, st, fr, ins, a):
        bits = ins.ty.bits
        x = a[0]
        if not is_sym(x):
            return abs(to_signed(x, bits)) & mask(bits)
        return z3.If(bv(x, bits) >= 0, bv(x, bits), -bv(x, bits))

    @reg("llvm.umul.with.overflow")
    def umul_ov(E, st, fr, ins, a):
        bits = ins.args[0][0].bits
        x, y = a
        if is_sym(x) or is_sym(y):
            raise EngineError("symbolic umul.with.overflow")
        p = x * y
        return [p & mask(bits), int(p > mask(bits))]

    @reg("llvm.ctlz")
    def ctlz(E, st, fr, ins, a):
        bits = ins.ty.bits
        x = a[0]
        if is_sym(x):
            raise EngineError("symbolic ctlz")
        return bits - x.bit_length()

    @reg("llvm.fshl")
    def fshl(E, st, fr, ins, a):
        bits = ins.ty.bits
        x, y, s = a
        if any(is_sym(v) for v in a):
            raise EngineError("symbolic fshl")
        s %= bits
        return (((x << bits) | y) << s >> bits) & mask(bits)

    @reg("llvm.eh.typeid.for")
    def typeid_for(E, st, fr, ins, a):
        p = a[0]
        if p.obj == 0:
            return E.typeid_for(None)
        o = st.mem[p.obj]
        return E.typeid_for(o.name[1:])

    @reg("llvm.va_start", "llvm.va_end")
    def va(E, st, fr, ins, a):
        # the va_list object stays opaque: it may only be handed to a (stubbed) v*printf-style callee
        if ins and "va_start" in ins.text:
            E.memset(st, a[0], 0, 24)
        return None

    @reg("llvm.va_copy")
    def va_copy(E, st, fr, ins, a):
        raise EngineError("va_copy in %s (stub the variadic callee)" % fr.func.name)

    # ------------------------------------------------------------------ C strings
    def sbyte(E, st, p, i):
        o, off = E.deref(st, Ptr(p.obj, E.padd(p.off, i)), 1)
        b = E._byte_of(o, off)
        if b is None:
            raise S.MemError("read of uninitialised byte %s+%d" % (o.name or o.id, off))
        if isinstance(b, tuple):
            raise EngineError("pointer bytes read as char")
        if is_sym(b):
            b = z3.simplify(b)
            if z3.is_bv_value(b):
                b = b.as_long()
        return b

    def cbyte(E, st, p, i):
        b = sbyte(E, st, p, i)
        if is_sym(b):
            raise S.SymByte(b)
        return b

    def iszero(E, st, b):
        if not is_sym(b):
            return b == 0
        return E.decide(st, bv(b, 8) == 0)

    @reg("strlen")
    def strlen(E, st, fr, ins, a):
        n = 0
        while not iszero(E, st, sbyte(E, st, a[0], n)):
            n += 1
        return n

    @reg("strcmp")
    def strcmp(E, st, fr, ins, a):
        i = 0
        while True:
            x, y = cbyte(E, st, a[0], i), cbyte(E, st, a[1], i)
            if x != y:
                return (1 if x > y else -1) & mask(32)
            if x == 0:
                return 0
            i += 1

    @reg("strncmp")
    def strncmp(E, st, fr, ins, a):
        n = csize(E, a[2])
        for i in range(n):
            x, y = cbyte(E, st, a[0], i), cbyte(E, st, a[1], i)
            if x != y:
                return (1 if x > y else -1) & mask(32)
            if x == 0:
                return 0
        return 0

    @reg("memcmp", "bcmp")
    def memcmp(E, st, fr, ins, a):
        n = csize(E, a[2])
        for i in range(n):
            x, y = cbyte(E, st, a[0], i), cbyte(E, st, a[1], i)
            if x != y:
                return (1 if x > y else -1) & mask(32)
        return 0

    @reg("strcpy")
    def strcpy(E, st, fr, ins, a):
        i = 0
        while True:
            b = sbyte(E, st, a[1], i)
            if is_sym(b):
                b = cbyte(E, st, a[1], i)
            E.store(st, Ptr(a[0].obj, E.padd(a[0].off, i)), ir.I8, b)
            if b == 0:
                break
            i += 1
        return a[0]

    @reg("strncpy")
    def strncpy(E, st, fr, ins, a):
        n = csize(E, a[2])
        done = False
        for i in range(n):
            b = 0 if done else cbyte(E, st, a[1], i)
            if b == 0:
                done = True
            E.store(st, Ptr(a[0].obj, E.padd(a[0].off, i)), ir.I8, b)
        return a[0]

    @reg("strcat")
    def strcat(E, st, fr, ins, a):
        n = 0
        while cbyte(E, st, a[0], n) != 0:
            n += 1
        return strcpy(E, st, fr, ins, [Ptr(a[0].obj, E.padd(a[0].off, n)), a[1]]) and a[0]

    @reg("strchr")
    def strchr(E, st, fr, ins, a):
        c = a[1] & 255 if not is_sym(a[1]) else _raise_sym(a[1])
        i = 0
        while True:
            b = cbyte(E, st, a[0], i)
            if b == c:
                return Ptr(a[0].obj, E.padd(a[0].off, i))
            if b == 0:
                return NULL
            i += 1

    @reg("memchr")
    def memchr(E, st, fr, ins, a):
        c = a[1] & 255 if not is_sym(a[1]) else _raise_sym(a[1])
        n = csize(E, a[2])
        for i in range(n):
            if cbyte(E, st, a[0], i) == c:
                return Ptr(a[0].obj, E.padd(a[0].off, i))
        return NULL

    @reg("strrchr")
    def strrchr(E, st, fr, ins, a):
        c = a[1] & 255 if not is_sym(a[1]) else _raise_sym(a[1])
        h = E.cstring(st, a[0]) + b"\0"
        k = h.rfind(bytes([c]))
        return NULL if k < 0 else Ptr(a[0].obj, E.padd(a[0].off, k))

    @reg("strspn")
    def strspn(E, st, fr, ins, a):
        h = E.cstring(st, a[0])
        n = E.cstring(st, a[1])
        for i, c in enumerate(h):
            if c not in n:
                return i
        return len(h)

    @reg("atoi")
    def atoi(E, st, fr, ins, a):
        import re
        m = re.match(r"\s*[-+]?\d+", E.cstring(st, a[0]).decode("latin1"))
        return (int(m.group(0)) if m else 0) & mask(32)

    @reg("strstr")
    def strstr(E, st, fr, ins, a):
        h = E.cstring(st, a[0])
        n = E.cstring(st, a[1])
        k = h.find(n)
        return NULL if k < 0 else Ptr(a[0].obj, E.padd(a[0].off, k))

    @reg("strcspn")
    def strcspn(E, st, fr, ins, a):
        h = E.cstring(st, a[0])
        n = E.cstring(st, a[1])
        for i, c in enumerate(h):
            if c in n:
                return i
        return len(h)

    def ctype(pred):
        def f(E, st, fr, ins, a):
            c = a[0]
            if is_sym(c):
                raise S.SymByte(c)
            c = to_signed(c, 32)
            if c < 0 or c > 255:
                return 0
            return int(pred(c))
        return f
    X["isspace"] = ctype(lambda c: c in (32, 9, 10, 11, 12, 13))
    X["isalpha"] = ctype(lambda c: 65 <= c <= 90 or 97 <= c <= 122)
    X["isalnum"] = ctype(lambda c: 65 <= c <= 90 or 97 <= c <= 122 or 48 <= c <= 57)
    X["isupper"] = ctype(lambda c: 65 <= c <= 90)
    X["islower"] = ctype(lambda c: 97 <= c <= 122)
    X["isdigit"] = ctype(lambda c: 48 <= c <= 57)

    @reg("tolower", "_tolower")
    def tolower(E, st, fr, ins, a):
        c = a[0]
        if is_sym(c):
            raise S.SymByte(c)
        s = to_signed(c, 32)
        return (s + 32) & mask(32) if 65 <= s <= 90 else c

    @reg("toupper", "_toupper")
    def toupper(E, st, fr, ins, a):
        c = a[0]
        if is_sym(c):
            raise S.SymByte(c)
        s = to_signed(c, 32)
        return (s - 32) & mask(32) if 97 <= s <= 122 else c

    @reg("strtod")
    def strtod(E, st, fr, ins, a):
        s = E.cstring(st, a[0]).decode("latin1")
        import re
        mph = re.match(r"\s*[-+]?0e\+9(\d{6})", s)
        if mph:
            k, v = E.token_value(st, int(mph.group(1)))
            if not a[1].is_null():
                E.store(st, a[1], ir.I8P, Ptr(a[0].obj, E.padd(a[0].off, mph.end())))
            if k == "double":
                return v
            return E.fp.sitofp(v, 64) if is_sym(v) else (Fraction(v) if E.exact else float(v))
        m = re.match(r"\s*[-+]?(?:(?:\d+\.?\d*|\.\d+)(?:[eE][-+]?\d+)?|inf(?:inity)?|nan)", s, re.I)
        if not m:
            n, v = 0, (Fraction(0) if E.exact else 0.0)
        else:
            n = m.end()
            f = float(m.group(0))
            v = Fraction(f) if (E.exact and f == f and not math.isinf(f)) else f
        if not a[1].is_null():
            E.store(st, a[1], ir.I8P, Ptr(a[0].obj, E.padd(a[0].off, n)))
        return v

    @reg("strtol")
    def strtol(E, st, fr, ins, a):
        s = E.cstring(st, a[0]).decode("latin1")
        base = a[2]
        import re
        if base not in (0, 10):
            raise EngineError("strtol base %d" % base)
        m = re.match(r"\s*[-+]?\d+", s)
        n, v = (m.end(), int(m.group(0))) if m else (0, 0)
        v = max(-(1 << 63), min((1 << 63) - 1, v))
        if not a[1].is_null():
            E.store(st, a[1], ir.I8P, Ptr(a[0].obj, E.padd(a[0].off, n)))
        return v & mask(64)

    @reg("__errno_location")
    def errno_loc(E, st, fr, ins, a):
        oid = st.globals.get("%errno")
        if oid is None:
            o = E.new_obj(st, 4, name="errno", zero=True, kind="tls")        # errno is thread-local (C11 7.5): not shared state
            st.globals["%errno"] = oid = o.id
        return Ptr(oid, 0)

    @reg("exit", "abort")
    def exit_(E, st, fr, ins, a):
        st.trace.append(("exit", a[0] if a else 0))
        raise PathEnd("process-exit")

    @reg("clock", "time")
    def clock(E, st, fr, ins, a):
        return E.fresh_bv("clock", 64)

    # ------------------------------------------------------------------ pthread (events; CBMC decides interleavings)
    @reg("pthread_mutex_lock")
    def mlock(E, st, fr, ins, a):
        st.trace.append(("mutex_lock", _pname(st, a[0])))
        held = st.user.setdefault("held", [])
        held = list(held)
        held.append(_pname(st, a[0]))
        st.user["held"] = held
        return 0

    @reg("pthread_mutex_unlock")
    def munlock(E, st, fr, ins, a):
        st.trace.append(("mutex_unlock", _pname(st, a[0])))
        held = list(st.user.get("held", []))
        if _pname(st, a[0]) in held:
            held.remove(_pname(st, a[0]))
        st.user["held"] = held
        return 0

    # ------------------------------------------------------------------ C++ runtime
    @reg("__cxa_allocate_exception")
    def cxa_alloc(E, st, fr, ins, a):
        o = E.new_obj(st, a[0], name="exc%d" % E.next_obj, zero=True, kind="exc")
        return Ptr(o.id, 0)

    @reg("__cxa_free_exception")
    def cxa_free(E, st, fr, ins, a):
        return None

    @reg("__cxa_throw")
    def cxa_throw(E, st, fr, ins, a):
        ti = a[1]
        name = st.mem[ti.obj].name[1:] if ti.obj else None
        st.exc = (a[0], name)
        st.trace.append(("throw", name))
        return S.THROWN

    @reg("__cxa_begin_catch")
    def begin_catch(E, st, fr, ins, a):
        st.caught.append(st.exc)
        st.exc = None
        return a[0]

    @reg("__cxa_end_catch")
    def end_catch(E, st, fr, ins, a):
        if st.caught:
            st.caught.pop()
        return None

    @reg("__cxa_rethrow")
    def rethrow(E, st, fr, ins, a):
        if not st.caught:
            # "throw;" with no exception in flight: std::terminate - fatal for the process, reported like an invalid access
            raise S.MemError("std::terminate: rethrow ('throw;') with no exception in flight")
        st.exc = st.caught[-1]
        return S.THROWN

    @reg("_Unwind_Resume")
    def unwind_resume(E, st, fr, ins, a):
        return S.THROWN

    @reg("__clang_call_terminate", "_ZSt9terminatev", "__cxa_call_unexpected", "__cxa_pure_virtual")
    def terminate(E, st, fr, ins, a):
        st.trace.append(("terminate",))
        raise S.MemError("std::terminate called (process would abort)")
    terminate.override = True

    @reg("__cxa_atexit")
    def atexit(E, st, fr, ins, a):
        return 0

    @reg("__cxa_guard_acquire")
    def guard_acq(E, st, fr, ins, a):
        b = E.load(st, a[0], ir.I8)
        if not b:
            # one-time initialisation of a function-local static is serialised by the C++ runtime
            st.user["held"] = list(st.user.get("held") or []) + ["__cxa_guard"]
        return 0 if b else 1

    @reg("__cxa_guard_release")
    def guard_rel(E, st, fr, ins, a):
        E.store(st, a[0], ir.I8, 1)
        held = list(st.user.get("held") or [])
        if "__cxa_guard" in held:
            held.remove("__cxa_guard")
        st.user["held"] = held
        return None

    def thrower(tiname):
        def f(E, st, fr, ins, a):
            o = E.new_obj(st, 16, name="exc%d" % E.next_obj, zero=True, kind="exc")
            st.exc = (Ptr(o.id, 0), tiname)
            st.trace.append(("throw", tiname))
            return S.THROWN
        return f
    def std_exc_ctor(E, st, fr, ins, a):
        # std::logic_error / runtime_error family built from a C string or std::string: the object keeps the message pointer
        # and gets a model vtable (destructors, what())
        vt = st.user.get("std_exc_vtable")
        if vt is None:
            o = E.new_obj(st, 64, name="vtable(std exception model)", zero=True, kind="global")
            o.cells[16] = (Ptr("@vf_std_exc_dtor", 0), 8)
            o.cells[24] = (Ptr("@vf_std_exc_dtor", 0), 8)
            o.cells[32] = (Ptr("@vf_std_exc_what", 0), 8)
            vt = o.id
            st.user["std_exc_vtable"] = vt
        E.store(st, Ptr(a[0].obj, a[0].off), ir.I8P, Ptr(vt, 16))
        msg = a[1] if len(a) > 1 and isinstance(a[1], Ptr) else Ptr(0, 0)
        if len(a) > 1 and "basic_string" in ins.text.split("(")[0]:
            msg = E.load(st, a[1], ir.I8P)          # std::string argument: its character pointer
        E.store(st, Ptr(a[0].obj, E.padd(a[0].off, 8)), ir.I8P, msg)
        return None
    X["vf_std_exc_dtor"] = lambda E, st, fr, ins, a: None
    X["vf_std_exc_what"] = lambda E, st, fr, ins, a: E.load(st, Ptr(a[0].obj, E.padd(a[0].off, 8)), ir.I8P)
    for cls in ("St16invalid_argument", "St12length_error", "St12out_of_range", "St11logic_error", "St13runtime_error",
                "St12domain_error", "St11range_error", "St14overflow_error", "St15underflow_error"):
        for cd in ("C1", "C2"):
            X["_ZN%s%sEPKc" % (cls, cd)] = std_exc_ctor
            X["_ZN%s%sERKNSt7__cxx1112basic_stringIcSt11char_traitsIcESaIcEEE" % (cls, cd)] = std_exc_ctor
        for dd in ("D0", "D1", "D2"):
            X["_ZN%s%sEv" % (cls, dd)] = lambda E, st, fr, ins, a: None
    X["_ZSt17__throw_bad_allocv"] = thrower("_ZTISt9bad_alloc")
    X["_ZSt28__throw_bad_array_new_lengthv"] = thrower("_ZTISt20bad_array_new_length")
    X["_ZSt20__throw_length_errorPKc"] = thrower("_ZTISt12length_error")
    X["_ZSt19__throw_logic_errorPKc"] = thrower("_ZTISt11logic_error")
    X["_ZSt24__throw_out_of_range_fmtPKcz"] = thrower("_ZTISt12out_of_range")
    X["_ZSt20__throw_out_of_rangePKc"] = thrower("_ZTISt12out_of_range")
    X["_ZSt16__throw_bad_castv"] = thrower("_ZTISt8bad_cast")
    from . import streams
    streams.install(E)
    install_printf(E)
    install_scanf(E)


def _pname(st, p):
    o = st.mem.get(p.obj)
    return "%s+%s" % (o.name if o else p.obj, p.off)


def _raise_sym(t):
    raise S.SymByte(t)


def c_format(E, st, fmt, args):
    """printf-style formatting of concrete arguments -> bytes"""
    import re
    out = bytearray()
    i = 0
    ai = 0
    f = fmt.decode("latin1")
    for m in re.finditer(r"%([-+ #0]*)(\*|\d+)?(?:\.(\*|\d+))?(hh|h|ll|l|z|L)?([diuxXcsfFeEgG%])", f):
        out += f[i:m.start()].encode("latin1")
        i = m.end()
        flags, width, prec, length, conv = m.groups()
        if conv == "%":
            out += b"%"
            continue
        if width == "*":
            width = str(to_signed(args[ai], 32)); ai += 1
        if prec == "*":
            prec = str(to_signed(args[ai], 32)); ai += 1
        v = args[ai]; ai += 1
        if is_sym(v):
            if isinstance(v, z3.BitVecRef):
                raise S.SymOffset(v)          # concretise by solver enumeration, one path per feasible value
            # a real- or integer-valued symbol in progress / log text: rendered as a marker (the text of such
            # messages is not part of any obligation)
            E.res.assumptions.add("symbolic numbers inside formatted message text are rendered as '<sym>'")
            out += b"<sym>"
            continue
        spec = "%" + flags + (width or "") + ("." + prec if prec is not None else "")
        if conv in "di":
            bits = 64 if length in ("l", "ll", "z") else 32
            out += ((spec + "d") % to_signed(v & mask(bits), bits)).encode("latin1")
        elif conv in "uxX":
            bits = 64 if length in ("l", "ll", "z") else 32
            out += ((spec + ("d" if conv == "u" else conv)) % (v & mask(bits))).encode()
            continue
        elif conv == "c":
            out += ((spec + "c") % chr(v & 255)).encode("latin1")
        elif conv == "s":
            sv = "(null)" if v.is_null() else E.cstring(st, v).decode("latin1")
            out += ((spec + "s") % sv).encode("latin1")
        else:
            out += ((spec + conv) % float(v)).encode("latin1")
        if isinstance(out, str):
            pass
    out += f[i:].encode("latin1")
    return bytes(out)


def install_printf(E):
    X = E.externs

    def snprintf(E, st, fr, ins, a):
        n = a[1]
        if is_sym(n):
            raise S.SymOffset(bv(n, 64))
        data = c_format(E, st, E.cstring(st, a[2]), a[3:])
        if n > 0:
            w = data[:n - 1] + b"\0"
            E.write_bytes(st, a[0], w)
        return len(data) & mask(32)
    X["snprintf"] = snprintf

    def sprintf(E, st, fr, ins, a):
        data = c_format(E, st, E.cstring(st, a[1]), a[2:])
        E.write_bytes(st, a[0], data + b"\0")
        return len(data) & mask(32)
    X["sprintf"] = sprintf

    def vsnprintf(E, st, fr, ins, a):
        # the va_list stays opaque: message text produced through v*printf is rendered as its format string
        n = a[1]
        if is_sym(n):
            raise S.SymOffset(bv(n, 64))
        data = E.cstring(st, a[2])
        if n > 0:
            E.write_bytes(st, a[0], data[:n - 1] + b"\0")
        E.res.assumptions.add("text produced through vsnprintf (sformatf, messages) is rendered as its format string")
        return len(data) & mask(32)
    X["vsnprintf"] = vsnprintf


def install_scanf(E):
    X = E.externs
    import re

    def sscanf(E, st, fr, ins, a):
        src = E.cstring(st, a[0])
        fmt = E.cstring(st, a[1]).decode("latin1")
        pos = 0
        ai = 2
        n = 0
        i = 0
        while i < len(fmt):
            c = fmt[i]
            if c.isspace():
                while pos < len(src) and src[pos] in (32, 9, 10, 11, 12, 13):
                    pos += 1
                i += 1
                continue
            if c != "%":
                if pos < len(src) and src[pos] == ord(c):
                    pos += 1
                    i += 1
                    continue
                break
            m = re.match(r"%(\*)?(\d+)?(hh|h|ll|l|L)?([diufgesc%])", fmt[i:])
            if not m:
                raise EngineError("sscanf format %r" % fmt)
            i += m.end()
            star, width, length, conv = m.groups()
            if conv != "c":
                while pos < len(src) and src[pos] in (32, 9, 10, 11, 12, 13):
                    pos += 1
            rest = src[pos:pos + int(width)] if width else src[pos:]
            if conv in "diu":
                mm = re.match(rb"[-+]?\d+", rest)
                if not mm:
                    break
                v = int(mm.group(0))
                pos += mm.end()
                if not star:
                    bits = 64 if length in ("l", "ll") else 16 if length == "h" else 32
                    E.store(st, a[ai], ir.intT(bits), v & mask(bits))
                    ai += 1
                    n += 1
            elif conv in "fge":
                mph = re.match(rb"[-+]?0e\+9(\d{6})", rest)
                if mph:
                    k, v = E.token_value(st, int(mph.group(1)))
                    if k != "double":
                        v = E.fp.sitofp(v, 64) if is_sym(v) else (Fraction(v) if E.exact else float(v))
                    pos += mph.end()
                else:
                    mm = re.match(rb"[-+]?(?:\d+\.?\d*|\.\d+)(?:[eE][-+]?\d+)?", rest)
                    if not mm:
                        break
                    txt = mm.group(0).decode()
                    v = Fraction(txt) if E.exact else float(txt)
                    pos += mm.end()
                if not star:
                    E.store(st, a[ai], ir.DOUBLE if length in ("l", "L") else ir.FLOAT, v)
                    ai += 1
                    n += 1
            elif conv == "s":
                mm = re.match(rb"\S+", rest)
                if not mm:
                    break
                pos += mm.end()
                if not star:
                    E.write_bytes(st, a[ai], mm.group(0) + b"\0")
                    ai += 1
                    n += 1
            elif conv == "c":
                if pos >= len(src):
                    break
                if not star:
                    E.store(st, a[ai], ir.I8, src[pos])
                    ai += 1
                    n += 1
                pos += 1
        if n == 0 and pos >= len(src):
            return mask(32)  # EOF
        return n
    X["__isoc99_sscanf"] = sscanf
    X["sscanf"] = sscanf
