"""One harness file per process: python3-vt -m vf.worker <harness> <tier> <seed> <out.json> [only,...]"""
import sys, json, resource
from . import runner


def main():
    path, tier, seed, out = sys.argv[1], sys.argv[2], int(sys.argv[3]), sys.argv[4]
    only = sys.argv[5].split(",") if len(sys.argv) > 5 and sys.argv[5] else None
    try:
        hard = resource.getrlimit(resource.RLIMIT_AS)[1]
        resource.setrlimit(resource.RLIMIT_AS, (24 << 30, hard))     # soft limit only: sanitizer replays lift it again
    except Exception:
        pass
    eng = set(o.engine for o in runner.parse_header(path))
    if eng == {"A"}:
        from . import cbmc_runner
        res = cbmc_runner.work((path, tier, seed, only, False))
    else:
        res = runner.run_obligation_file(path, tier, seed, only=only)
    json.dump(res, open(out, "w"), default=str)


if __name__ == "__main__":
    main()
