"""Value domain of engine B: concrete python values or z3 terms.

ints   : python int (unsigned, normalised to width) | z3 BitVecRef ; i1 may also be z3 BoolRef
doubles: Fraction (exact, symbolic mode) | float (validation mode, IEEE) | z3 ArithRef (Real)
ptrs   : Ptr(obj, off)  obj = int object id | "@fname" | 0 (null) ; off = python int | z3 BV64
"""
import math, sys
sys.set_int_max_str_digits(0)
from fractions import Fraction
import z3


class Ptr:
    __slots__ = ("obj", "off")

    def __init__(self, obj, off=0):
        self.obj = obj
        self.off = off

    def __repr__(self):
        return "Ptr(%r,%r)" % (self.obj, self.off)

    def is_null(self):
        return self.obj == 0 and isinstance(self.off, int) and self.off == 0


NULL = Ptr(0, 0)


class Undef:
    def __repr__(self):
        return "undef"


class PtrDiff(Undef):
    """difference of pointers into different objects (only meaningful when added back to `b`)"""

    def __init__(self, a, b):
        self.a = a
        self.b = b

    def __repr__(self):
        return "PtrDiff(%r,%r)" % (self.a, self.b)


UNDEF = Undef()


class PathEnd(Exception):
    """Terminates the current path (assume(false), trap, exit...)."""

    def __init__(self, why):
        Exception.__init__(self, why)
        self.why = why


class EngineError(Exception):
    """Tooling failure: unsupported construct / harness error. Never a violation."""


def is_sym(v):
    return isinstance(v, z3.ExprRef)


def mask(bits):
    return (1 << bits) - 1


def to_signed(v, bits):
    return v - (1 << bits) if v >> (bits - 1) else v


def is_zint(v):
    return isinstance(v, z3.ArithRef) and v.is_int()


def zint(v, bits):
    """coerce an integer value to a z3 Int (signed interpretation)"""
    if is_zint(v):
        return v
    if isinstance(v, z3.BitVecRef):
        return z3.BV2Int(v, is_signed=True)
    if isinstance(v, z3.BoolRef):
        return z3.If(v, z3.IntVal(1), z3.IntVal(0))
    return z3.IntVal(to_signed(int(v), bits))


def bv(v, bits):
    """coerce int value to z3 BV of width bits"""
    if is_zint(v):
        return z3.Int2BV(v, bits)
    if isinstance(v, z3.BitVecRef):
        return v
    if isinstance(v, z3.BoolRef):
        return z3.If(v, z3.BitVecVal(1, bits), z3.BitVecVal(0, bits))
    if isinstance(v, bool):
        v = int(v)
    if isinstance(v, int):
        return z3.BitVecVal(v, bits)
    raise EngineError("cannot make bitvector of %r" % (v,))


def boolz(v):
    """i1 value -> z3 Bool"""
    if isinstance(v, z3.BoolRef):
        return v
    if isinstance(v, z3.BitVecRef):
        return v == z3.BitVecVal(1, v.size())
    return z3.BoolVal(bool(v))


def realz(v):
    if isinstance(v, z3.ArithRef):
        return v
    if isinstance(v, Fraction):
        return z3.RealVal(v)
    if isinstance(v, float):
        if v != v or v in (float("inf"), float("-inf")):
            raise EngineError("non-finite double in a symbolic real expression")
        return z3.RealVal(Fraction(v))
    if isinstance(v, int):
        return z3.RealVal(v)
    raise EngineError("cannot make real of %r" % (v,))


def _cap(r):
    """exact rationals of concrete computations are rounded to double once they grow beyond 1024-bit denominators
    (long concrete chains, e.g. adaptive step sizes): the same rounding the machine applies at every step"""
    if r.denominator.bit_length() > 1024 or r.numerator.bit_length() > 2048:
        f = float(r)
        return Fraction(f) if f == f and f not in (float("inf"), float("-inf")) else f
    return r


class FP:
    """floating point operations; `exact` selects Fraction (symbolic runs) or float (validation runs)."""

    def __init__(self, exact, ctx):
        self.exact = exact
        self.ctx = ctx  # engine (for fresh vars, assumptions)
        self.ufs = {}

    def const(self, c):
        # c: Fraction or float(inf/nan) from the parser
        if isinstance(c, float):
            return c
        return c if self.exact else float(c)

    def conc(self, x):
        return not is_sym(x)

    def _nonfinite(self, *xs):
        return any(isinstance(x, float) and (x != x or x in (float("inf"), float("-inf"))) for x in xs)

    def bin(self, op, a, b):
        if self.conc(a) and self.conc(b):
            if self.exact and not self._nonfinite(a, b):
                a = Fraction(a)
                b = Fraction(b)
                if op == "fadd":
                    return _cap(a + b)
                if op == "fsub":
                    return _cap(a - b)
                if op == "fmul":
                    return _cap(a * b)
                if op == "fdiv":
                    if b == 0:
                        if a == 0:
                            return float("nan")
                        return float("inf") if a > 0 else float("-inf")
                    return _cap(a / b)
                if op == "frem":
                    return Fraction(math.fmod(a, b))
            a = float(a)
            b = float(b)
            try:
                if op == "fadd":
                    return a + b
                if op == "fsub":
                    return a - b
                if op == "fmul":
                    return a * b
                if op == "fdiv":
                    if b == 0:
                        if a == 0 or a != a:
                            return float("nan")
                        return math.copysign(float("inf"), a) * math.copysign(1.0, b)
                    return a / b
                if op == "frem":
                    return math.fmod(a, b)
            except OverflowError:
                return float("inf")
        if self._nonfinite(a, b):
            raise EngineError("non-finite operand in symbolic fp op")
        a = realz(a)
        b = realz(b)
        if op == "fadd":
            return a + b
        if op == "fsub":
            return a - b
        if op == "fmul":
            return a * b
        if op == "fdiv":
            return a / b
        raise EngineError("unsupported symbolic fp op " + op)

    def neg(self, a):
        if self.conc(a):
            return -a
        return -a

    def cmp(self, pred, a, b):
        if self.conc(a) and self.conc(b):
            nan = (isinstance(a, float) and a != a) or (isinstance(b, float) and b != b)
            if pred == "ord":
                return int(not nan)
            if pred == "uno":
                return int(nan)
            if pred == "true":
                return 1
            if pred == "false":
                return 0
            base = pred[1:]
            r = {"eq": a == b, "ne": a != b, "gt": a > b, "ge": a >= b, "lt": a < b, "le": a <= b}[base]
            if nan:
                return int(pred[0] == "u")
            return int(r)
        a = realz(a)
        b = realz(b)
        if pred == "ord" or pred == "true":
            return 1
        if pred == "uno" or pred == "false":
            return 0
        base = pred[1:]
        return {"eq": a == b, "ne": a != b, "gt": a > b, "ge": a >= b, "lt": a < b, "le": a <= b}[base]

    def uf(self, name, arity=1):
        f = self.ufs.get(name)
        if f is None:
            f = self.ufs[name] = z3.Function("uf_" + name, *([z3.RealSort()] * (arity + 1)))
        return f

    _M1 = {"log": math.log, "log10": math.log10, "exp": math.exp, "sin": math.sin, "cos": math.cos,
           "sinh": math.sinh, "cosh": math.cosh, "tanh": math.tanh, "acos": math.acos, "atan": math.atan,
           "asin": math.asin, "tan": math.tan}

    def math1(self, name, x):
        if self.conc(x):
            xf = float(x)
            if name == "sqrt":
                if xf < 0:
                    return float("nan")
                if self.exact:
                    r = Fraction(math.sqrt(xf))
                    # exact when perfect square
                    fx = Fraction(x)
                    n, d = fx.numerator, fx.denominator
                    rn, rd = math.isqrt(n), math.isqrt(d)
                    if rn * rn == n and rd * rd == d:
                        return Fraction(rn, rd)
                    return r
                return math.sqrt(xf)
            if name == "fabs":
                return abs(x)
            if name == "floor":
                return (Fraction(math.floor(x)) if self.exact else float(math.floor(xf))) if not self._nonfinite(x) else x
            if name == "ceil":
                return (Fraction(math.ceil(x)) if self.exact else float(math.ceil(xf))) if not self._nonfinite(x) else x
            try:
                r = self._M1[name](xf)
            except (ValueError, OverflowError):
                if name in ("log", "log10") and xf == 0:
                    r = float("-inf")
                elif name in ("exp", "sinh", "cosh"):
                    r = float("inf")
                else:
                    r = float("nan")
            if self.exact and r == r and r not in (float("inf"), float("-inf")):
                return Fraction(r)
            return r
        x = realz(x)
        if name == "fabs":
            return z3.If(x >= 0, x, -x)
        if name == "sqrt":
            x = z3.simplify(x)
            cache = self.ctx.cur.user.setdefault("sqrt", {})
            hit = cache.get(x.get_id())
            if hit is not None:
                return hit[1]
            y = self.ctx.fresh_real("sqrt")
            self.ctx.add_side(z3.And(y >= 0, y * y == x), "sqrt(x): x>=0 assumed (NaN paths outside the claim)")
            cache[x.get_id()] = (x, y)
            return y
        if name in ("floor", "ceil"):
            k = self.ctx.fresh_int(name)
            kr = z3.ToReal(k)
            if name == "floor":
                self.ctx.add_side(z3.And(kr <= x, x < kr + 1), None)
            else:
                self.ctx.add_side(z3.And(kr - 1 < x, x <= kr), None)
            return kr
        return self.uf_app(name, (x,))

    def uf_app(self, name, args):
        """Uninterpreted function application by solver-checked congruence: an application whose arguments
        are provably equal (under the path condition) to those of an earlier application of the same function
        gets the same result variable; otherwise a fresh one.  No UF reaches the solver, queries stay pure NRA."""
        st = self.ctx.cur
        tab = st.user.get("uf")
        tab = list(tab) if tab else []
        args = tuple(z3.simplify(a) for a in args)
        if name == "exp":
            # exp(k * log(t)) = t^k for a small integer k (t > 0 wherever log(t) is defined): the identity behind
            # PBasic's power operator; listed in the evidence as an axiom
            r = self._exp_of_log(tab, args[0])
            if r is not None:
                self.ctx.res.assumptions.add("axiom: exp(k*log(t)) = t^k for integer k in -8..8")
                return r
        for fn, oargs, res in tab:
            if fn != name or len(oargs) != len(args):
                continue
            if all(a.eq(b) for a, b in zip(args, oargs)):
                return res
        for fn, oargs, res in tab:
            if fn != name or len(oargs) != len(args):
                continue
            diff = z3.Or(*[a != b for a, b in zip(args, oargs)])
            r, _ = self.ctx.check(st.pc + [diff])
            if r == "unsat":
                return res
        y = self.ctx.fresh_real(name)
        tab.append((name, args, y))
        st.user["uf"] = tab
        if name == "exp":
            # range facts of the real exponential (sound for every argument): positive; <= 1 for x <= 0; >= 1 for x >= 0
            st.pc.append(y > 0)
            st.pc.append(z3.Implies(args[0] <= 0, y <= 1))
            st.pc.append(z3.Implies(args[0] >= 0, y >= 1))
            self.ctx.res.assumptions.add("axiom: exp(x) > 0, exp(x) <= 1 for x <= 0, exp(x) >= 1 for x >= 0")
        elif name == "sqrt":
            st.pc.append(y >= 0)
        self.ctx.res.assumptions.add("%s() is uninterpreted: only f(x)=f(y) for provably equal arguments is used" % name)
        return y

    def _exp_of_log(self, tab, arg):
        logs = {res.get_id(): targs[0] for fn, targs, res in tab if fn == "log"}
        k, y = None, None
        if arg.get_id() in logs:
            k, y = 1, arg
        elif z3.is_mul(arg) and arg.num_args() == 2:
            a0, a1 = arg.arg(0), arg.arg(1)
            if z3.is_rational_value(a0) and a1.get_id() in logs:
                k, y = a0, a1
            elif z3.is_rational_value(a1) and a0.get_id() in logs:
                k, y = a1, a0
            if k is not None:
                fk = Fraction(k.numerator_as_long(), k.denominator_as_long())
                if fk.denominator != 1 or abs(fk.numerator) > 8:
                    return None
                k = fk.numerator
        if k is None:
            return None
        t = logs[y.get_id()]
        r = z3.RealVal(1)
        for _ in range(abs(k)):
            r = r * t
        return r if k >= 0 else 1 / r

    def pow(self, a, b):
        if self.conc(a) and self.conc(b):
            try:
                r = math.pow(float(a), float(b))
            except (ValueError, OverflowError):
                r = float("nan")
            if self.exact:
                fb = Fraction(b)
                if fb.denominator == 1 and abs(fb.numerator) <= 8 and not self._nonfinite(a):
                    fa = Fraction(a)
                    if fb.numerator >= 0:
                        return fa ** fb.numerator
                    if fa != 0:
                        return fa ** fb.numerator
                if r == r and r not in (float("inf"), float("-inf")):
                    return Fraction(r)
            return r
        if self.conc(b):
            fb = Fraction(b)
            if fb.denominator == 1 and 0 <= fb.numerator <= 8:
                r = z3.RealVal(1)
                ar = realz(a)
                for _ in range(fb.numerator):
                    r = r * ar
                return r
            if fb.denominator == 1 and -8 <= fb.numerator < 0:
                r = z3.RealVal(1)
                ar = realz(a)
                for _ in range(-fb.numerator):
                    r = r * ar
                return 1 / r
            if fb == Fraction(1, 2):
                return self.math1("sqrt", a)
            if fb == Fraction(1, 3) or abs(float(fb) - 1.0 / 3) < 1e-15:
                y = self.ctx.fresh_real("cbrt")
                self.ctx.add_side(y * y * y == realz(a), None)
                return y
        if self.conc(a) and Fraction(a) == 10:
            return self.uf_app("exp10", (realz(b),))
        return self.uf_app("pow", (realz(a), realz(b)))

    def fptosi(self, x, bits):
        if self.conc(x):
            if self._nonfinite(x):
                return 0
            return int(x) & mask(bits)  # trunc toward zero
        xr = realz(x)
        self.ctx.res.assumptions.add("integers obtained from double->int conversions are mathematical integers "
                                     "(conversion in range, later int arithmetic on them does not wrap: both are UB in C otherwise)")
        if z3.is_app_of(xr, z3.Z3_OP_TO_REAL):
            return xr.arg(0)
        k = self.ctx.fresh_int("fptosi")
        kr = z3.ToReal(k)
        self.ctx.add_side(z3.If(xr >= 0, z3.And(kr <= xr, xr < kr + 1), z3.And(kr >= xr, xr > kr - 1)), None)
        return k

    def sitofp(self, v, bits, signed=True):
        if not is_sym(v):
            v = to_signed(v, bits) if signed else v
            return Fraction(v) if self.exact else float(v)
        if is_zint(v):
            return z3.ToReal(v)
        b = bv(v, bits)
        return z3.ToReal(z3.BV2Int(b, is_signed=signed))


# ------------------------------------------------------------------ integer ops
def int_bin(op, a, b, bits):
    if not is_sym(a) and not is_sym(b):
        m = mask(bits)
        if op == "add":
            return (a + b) & m
        if op == "sub":
            return (a - b) & m
        if op == "mul":
            return (a * b) & m
        if op == "and":
            return a & b
        if op == "or":
            return a | b
        if op == "xor":
            return a ^ b
        if op == "shl":
            return (a << b) & m if b < bits else 0
        if op == "lshr":
            return a >> b if b < bits else 0
        if op == "ashr":
            return (to_signed(a, bits) >> min(b, bits - 1)) & m
        if op == "udiv":
            if b == 0:
                raise PathEnd("division by zero")
            return a // b
        if op == "urem":
            if b == 0:
                raise PathEnd("division by zero")
            return a % b
        if op in ("sdiv", "srem"):
            sa, sb = to_signed(a, bits), to_signed(b, bits)
            if sb == 0:
                raise PathEnd("division by zero")
            q = abs(sa) // abs(sb)
            if (sa < 0) != (sb < 0):
                q = -q
            if op == "sdiv":
                return q & m
            return (sa - q * sb) & m
        raise EngineError("int op " + op)
    if bits == 1 and op in ("and", "or", "xor"):
        x, y = boolz(a), boolz(b)
        return {"and": z3.And, "or": z3.Or, "xor": z3.Xor}[op](x, y)
    if (is_zint(a) or is_zint(b)) and op in ("add", "sub", "mul"):
        x, y = zint(a, bits), zint(b, bits)
        return x + y if op == "add" else x - y if op == "sub" else x * y
    x, y = bv(a, bits), bv(b, bits)
    if op == "add":
        return x + y
    if op == "sub":
        return x - y
    if op == "mul":
        return x * y
    if op == "and":
        return x & y
    if op == "or":
        return x | y
    if op == "xor":
        return x ^ y
    if op == "shl":
        return x << y
    if op == "lshr":
        return z3.LShR(x, y)
    if op == "ashr":
        return x >> y
    if op == "udiv":
        return z3.UDiv(x, y)
    if op == "urem":
        return z3.URem(x, y)
    if op == "sdiv":
        return x / y
    if op == "srem":
        return z3.SRem(x, y)
    raise EngineError("int op " + op)


def int_cmp(pred, a, b, bits):
    if not is_sym(a) and not is_sym(b):
        if pred in ("sgt", "sge", "slt", "sle"):
            a, b = to_signed(a, bits), to_signed(b, bits)
        return int({"eq": a == b, "ne": a != b, "ugt": a > b, "uge": a >= b, "ult": a < b, "ule": a <= b,
                    "sgt": a > b, "sge": a >= b, "slt": a < b, "sle": a <= b}[pred])
    if bits == 1:
        x, y = boolz(a), boolz(b)
        if pred == "eq":
            return x == y
        if pred == "ne":
            return z3.Xor(x, y)
    if (is_zint(a) or is_zint(b)) and pred in ("eq", "ne", "sgt", "sge", "slt", "sle"):
        x, y = zint(a, bits), zint(b, bits)
        return {"eq": x == y, "ne": x != y, "sgt": x > y, "sge": x >= y, "slt": x < y, "sle": x <= y}[pred]
    x, y = bv(a, bits), bv(b, bits)
    if pred == "eq":
        return x == y
    if pred == "ne":
        return x != y
    if pred == "ugt":
        return z3.UGT(x, y)
    if pred == "uge":
        return z3.UGE(x, y)
    if pred == "ult":
        return z3.ULT(x, y)
    if pred == "ule":
        return z3.ULE(x, y)
    if pred == "sgt":
        return x > y
    if pred == "sge":
        return x >= y
    if pred == "slt":
        return x < y
    if pred == "sle":
        return x <= y
    raise EngineError("icmp " + pred)


def int_cast(op, v, fb, tb):
    if isinstance(v, Undef):
        return v
    if isinstance(v, Ptr):
        if op == "trunc":
            raise EngineError("truncation of a pointer value")
        return v
    if not is_sym(v):
        if op == "trunc":
            return v & mask(tb)
        if op == "zext":
            return v
        if op == "sext":
            return to_signed(v, fb) & mask(tb)
    if is_zint(v):
        return v
    if op == "trunc":
        if tb == 1:
            return z3.Extract(0, 0, bv(v, fb)) == z3.BitVecVal(1, 1)
        return z3.Extract(tb - 1, 0, bv(v, fb))
    if op == "zext":
        return z3.ZeroExt(tb - fb, bv(v, fb))
    if op == "sext":
        return z3.SignExt(tb - fb, bv(v, fb))
    raise EngineError("cast " + op)
