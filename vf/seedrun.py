"""Run the checks against the seeded changes, each in its own scratch worktree (never in /repo).
usage: python3 -m vf.seedrun [seed-id ...]   -> updates seeded/<id>/meta.json (caught_by) and prints a table"""
import os, sys, json, subprocess, shutil, re, time
ROOT = os.path.dirname(os.path.dirname(os.path.abspath(__file__)))


def run_seed(sid, tier="quick"):
    d = os.path.join(ROOT, "seeded", sid)
    meta = json.load(open(os.path.join(d, "meta.json")))
    prop = meta["breaks_property"]
    wt = "/tmp/seedrepo_%s" % sid
    subprocess.run(["git", "-C", "/repo", "worktree", "remove", "--force", wt], stdout=subprocess.DEVNULL, stderr=subprocess.DEVNULL)
    subprocess.run(["git", "-C", "/repo", "worktree", "add", "--detach", wt, "HEAD"], stdout=subprocess.DEVNULL, stderr=subprocess.DEVNULL, check=True)
    try:
        r = subprocess.run(["git", "-C", wt, "apply", os.path.join(d, "patch.diff")], stdout=subprocess.PIPE, stderr=subprocess.STDOUT, text=True)
        if r.returncode != 0 and os.path.exists(os.path.join(d, "patch.rebased.diff")):
            # the original patch was made against the pinned commit; "fix:" commits since then moved its context
            r = subprocess.run(["git", "-C", wt, "apply", os.path.join(d, "patch.rebased.diff")], stdout=subprocess.PIPE, stderr=subprocess.STDOUT, text=True)
        if r.returncode != 0:
            return {"seed": sid, "property": prop, "result": "patch-does-not-apply", "detail": r.stdout[-300:]}
        env = dict(os.environ, VERIF_REPO=wt, VERIF_JOBS=os.environ.get("SEED_JOBS", "6"))
        t = time.time()
        r = subprocess.run([os.path.join(ROOT, "check"), prop, "--tier", tier, "--no-evidence"], env=env, stdout=subprocess.PIPE,
                           stderr=subprocess.STDOUT, text=True, timeout=3600)
        flagged = re.findall(r"^(\S+)\s+violation", r.stdout, re.M)
        return {"seed": sid, "property": prop, "result": "caught" if r.returncode == 1 else ("tooling-error" if r.returncode == 2 else "missed"),
                "obligations": flagged, "rc": r.returncode, "wall_s": round(time.time() - t, 1),
                "errors": re.findall(r"^(\S+)\s+error\s.*$", r.stdout, re.M)[:5]}
    finally:
        subprocess.run(["git", "-C", "/repo", "worktree", "remove", "--force", wt], stdout=subprocess.DEVNULL, stderr=subprocess.DEVNULL)
        shutil.rmtree(wt, ignore_errors=True)
        # the per-seed library IR is not needed afterwards
        b = os.path.join(ROOT, "build")
        libs = sorted([n for n in os.listdir(b) if n.startswith("lib-")], key=lambda n: os.path.getmtime(os.path.join(b, n)))
        for n in libs[:-4]:
            shutil.rmtree(os.path.join(b, n), ignore_errors=True)


def main():
    ids = sys.argv[1:] or sorted(os.listdir(os.path.join(ROOT, "seeded")))
    out = []
    for sid in ids:
        if not os.path.exists(os.path.join(ROOT, "seeded", sid, "meta.json")):
            continue
        res = run_seed(sid)
        out.append(res)
        print(json.dumps(res), flush=True)
        mp = os.path.join(ROOT, "seeded", sid, "meta.json")
        meta = json.load(open(mp))
        meta["caught_by"] = res.get("obligations", [])
        meta["last_check_result"] = res["result"]
        meta["what_was_run"] = "python3 -m vf.seedrun %s  (scratch worktree of /repo + patch; VERIF_REPO=<worktree> ./check %s --tier quick)" % (sid, res["property"])
        json.dump(meta, open(mp, "w"), indent=1)
    rp = os.path.join(ROOT, "seeded", "RESULTS.json")
    prev = {r["seed"]: r for r in (json.load(open(rp)) if os.path.exists(rp) else [])}
    for r in out:
        prev[r["seed"]] = r
    json.dump([prev[k] for k in sorted(prev)], open(rp, "w"), indent=1)


if __name__ == "__main__":
    main()
