"""Regenerate MANIFEST.json from the harness registry + per-property texts in vf/claims.json."""
import json, os, sys
from . import runner, pipeline as P

ROOT = P.ROOT


def main():
    claims = json.load(open(os.path.join(ROOT, "vf", "claims.json")))
    props = [json.loads(l)["id"] for l in open(os.path.join(ROOT, "properties.jsonl"))]
    obls = runner.discover()
    byprop = {}
    for o in obls:
        byprop.setdefault(o.prop, []).append(o)
        for p2 in o.also:
            byprop.setdefault(p2, []).append(o)
    checks = []
    na = []
    for p in props:
        c = claims.get(p, {})
        if p in byprop and not c.get("not_applicable"):
            derived = [o.id for o in byprop[p] if o.id.startswith("C06.shared_state.")]
            ids = [o.id for o in byprop[p] if o.id not in derived]
            q = [o.id for o in byprop[p] if o.tier == "Q" and o.id not in derived]
            if derived:
                q.append("C06.shared_state.<id> for %d obligations of the other properties" % len(derived))
            checks.append({
                "property_id": p,
                "quick_cmd": "./check %s --tier quick" % p,
                "thorough_cmd": "./check %s --tier thorough" % p,
                "evidence_file": "/verif/evidence/%s.json" % p,
                "replay_cmd_template": "./check %s --replay {path}" % p,
                "engine": "irsym+z3 / ir2c+cbmc",
                "level_claimed": {"category": "model_checking",
                                  "text": c.get("text", "") + " Obligations (quick): %s; thorough adds: %s." % (
                                      ", ".join(q), ", ".join(i for i in ids if i not in q) or "larger bounds only"),
                                  "design_ref": c.get("design_ref", "DESIGN.md section 2 (%s)" % p)},
                "level_note": c.get("note", ""),
                "technique": c.get("technique", "bounded symbolic execution of the real functions' LLVM IR, verdict by SMT solver (z3 reals/bit-vectors; CBMC for bit-precise units)"),
            })
        else:
            na.append({"property_id": p, "reason": c.get("not_applicable") or "no sound solver-based check built yet for this property"})
    m = {
        "version": 1,
        "setup_cmd": "python3-vt -m vf.setup",
        "hooks": {"guard": "IPHREEQC_VERIF", "enable": "checks compile /repo/src to LLVM IR with -DIPHREEQC_VERIF (no source hooks exist; harnesses reach private members with -fno-access-control)",
                  "baseline_off_cmd": "cmake --build /repo/_build -j16 && ctest --test-dir /repo/_build -j1 --timeout 900",
                  "source_commits": [], "add_only": True},
        "engines": [
            {"name": "irsym", "path": "vf/irsym.py", "serves_properties": sorted(byprop),
             "kind_free_text": "own symbolic executor over clang-14 LLVM IR of the real functions; z3 (reals + bit-vectors) decides every path's obligations"},
            {"name": "ir2c+cbmc", "path": "vf/cbmc_runner.py", "serves_properties": sorted(set(o.prop for o in obls if o.engine == "A")),
             "kind_free_text": "C units through goto-cc/cbmc 6.11 with --unwinding-assertions"},
        ],
        "checks": checks,
        "not_applicable": na,
        "notes": "All verdicts are bounded (bounds per obligation in evidence/<id>.json -> coverage.samples[].bounds). See DESIGN.md.",
    }
    json.dump(m, open(os.path.join(ROOT, "MANIFEST.json"), "w"), indent=1)
    print("checks:", [c["property_id"] for c in checks], "n/a:", [n["property_id"] for n in na])


if __name__ == "__main__":
    main()
