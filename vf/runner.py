"""Obligation runner: harness file -> slice -> engine B (symbolic) -> encoder validation -> replay.

Harness files carry their own metadata in `// @key value` header comments:
  @id C01.k_calc        (starts a new obligation block; a file may hold several)
  @entry vfh_C01_k_calc @engine B   @tier Q|T
  @reach label[,label]  vacuity witnesses that must be reachable
  @funcs demangled names of the real functions under test (must appear in the slice)
  @bounds / @oracle / @outside / @stubs   free text copied into the evidence
  @opts key=value ...   (timeout_ms, loop_bound, max_paths, max_steps, validate, lang)
"""
import os, re, sys, json, time, random, subprocess, hashlib, traceback, resource
from fractions import Fraction
from . import pipeline as P

ROOT = P.ROOT
HDIR = os.path.join(ROOT, "harness")
REPLAYS = os.path.join(ROOT, "replays")


class Obl:
    def __init__(self, path):
        self.path = path
        self.id = None
        self.entry = None
        self.engine = "B"
        self.tier = "Q"
        self.reach = []
        self.funcs = []
        self.text = {}
        self.opts = {}
        self.also = []

    @property
    def prop(self):
        return self.id.split(".")[0]


def parse_header(path):
    obls = []
    cur = None
    for ln in open(path):
        m = re.match(r"\s*//\s*@(\w+)\s*(.*)$", ln)
        if not m:
            continue
        k, v = m.group(1), m.group(2).strip()
        if k == "id":
            cur = Obl(path)
            cur.id = v
            obls.append(cur)
            continue
        if cur is None:
            continue
        if k == "entry":
            cur.entry = v
        elif k == "engine":
            cur.engine = v
        elif k == "tier":
            cur.tier = v
        elif k == "reach":
            cur.reach += [x.strip() for x in v.split(",") if x.strip()]
        elif k == "funcs":
            cur.funcs += [x.strip() for x in v.split(";") if x.strip()]
        elif k == "also":
            cur.also += [x.strip() for x in v.replace(",", " ").split() if x.strip()]
        elif k == "opts":
            for kv in v.split():
                a, b = kv.split("=", 1)
                cur.opts[a] = b
        else:
            cur.text[k] = (cur.text.get(k, "") + " " + v).strip()
    for o in obls:
        if not o.entry:
            raise RuntimeError("%s: obligation %s has no @entry" % (path, o.id))
    # "// @shared_state_watch": the same symbolic execution is also run as a C06 obligation in which every store the
    # code under test makes to process-wide mutable library state without a lock is a violation
    extra = []
    for o in obls:
        if "shared_state_watch" in o.text and o.engine == "B":
            d = Obl(path)
            d.id = "C06.shared_state." + o.id
            d.entry, d.engine, d.tier = o.entry, "B", o.tier
            d.reach, d.funcs = list(o.reach), list(o.funcs)
            d.opts = dict(o.opts, watch="1", only_lock="1", validate="0")
            d.text = {
                "bounds": "the paths of %s (%s), every store monitored while the code under test runs" % (o.id, o.text.get("bounds", "")),
                "oracle": "engine state is per instance (C06): between the harness' vf_watch_shared_state(1) and (0) the real code "
                          "stores only to the instance, to memory it owns, or to shared objects while a mutex (or the C++ "
                          "one-time-initialisation guard) is held; a store to a namespace-scope / static variable of the library "
                          "without a lock is reported and confirmed natively by putting the variable on a write-protected page",
                "stubs": o.text.get("stubs", ""),
                "outside": "loads of shared state; stores through pointers kept in shared variables; the other checks of %s (decided under %s)" % (o.id, o.prop),
            }
            extra.append(d)
    return obls + extra


def discover(prop=None):
    out = []
    for dp, dn, fn in sorted(os.walk(HDIR)):
        for f in sorted(fn):
            if f.endswith((".cpp", ".c")):
                for o in parse_header(os.path.join(dp, f)):
                    if prop is None or o.prop == prop or prop in o.also:
                        out.append(o)
    return out


def _h(*parts):
    h = hashlib.sha256()
    for p in parts:
        h.update(p if isinstance(p, bytes) else str(p).encode())
        h.update(b"\0")
    return h.hexdigest()[:16]


def static_inits(path):
    out = []
    for ln in open(path):
        m = re.match(r"\s*//\s*@static_init\s+(.*)$", ln)
        if m:
            out += m.group(1).split()
    return out


def build_slice(path, entries, tier, log):
    """-> (ll_path, workdir, info)"""
    lib = P.build_lib(log=log)
    libtag = os.path.basename(os.path.dirname(lib))
    rt = b"".join(open(os.path.join(ROOT, "rt", f), "rb").read() for f in sorted(os.listdir(os.path.join(ROOT, "rt")))
                  if f.endswith(".h"))
    incs = b""
    for m in re.finditer(r'#include "(\.\./[^"]+|[a-z_0-9]+\.inc)"', open(path).read()):
        q = os.path.normpath(os.path.join(os.path.dirname(path), m.group(1)))
        if os.path.exists(q):
            incs += open(q, "rb").read()
    for mg in re.finditer(r"^\s*//\s*@gen\s+(\S+)", open(path).read(), re.M):
        incs += open(os.path.join(os.path.dirname(path), mg.group(1)), "rb").read()
    key = _h(libtag, open(path, "rb").read(), rt, incs, tier, ",".join(entries))
    name = os.path.splitext(os.path.basename(path))[0]
    wd = os.path.join(P.BUILD, "s", "%s-%s" % (name, key))
    ll = os.path.join(wd, name + ".ll")
    if os.path.exists(ll):
        return ll, wd
    os.makedirs(wd, exist_ok=True)
    import fcntl
    lock = open(os.path.join(wd, ".lock"), "w")
    fcntl.flock(lock, fcntl.LOCK_EX)       # one builder per slice; the others wait and reuse
    if os.path.exists(ll):
        return ll, wd
    # "// @gen script.py out.inc": the include is regenerated from the current /repo source before the harness is compiled
    gen_flags = []
    for ln in open(path):
        mg = re.match(r"\s*//\s*@gen\s+(\S+)\s+(\S+)", ln)
        if mg:
            gd = os.path.join(wd, "gen")
            os.makedirs(gd, exist_ok=True)
            P.run([sys.executable, os.path.join(os.path.dirname(path), mg.group(1)), P.REPO, os.path.join(gd, mg.group(2))])
            gen_flags = ["-I" + gd]
    hb = P.compile_harness(path, wd, extra_flags=["-DVF_TIER=%d" % (2 if tier == "thorough" else 1)] + gen_flags)
    # data symbols the harness itself defines (its own statics are not library state)
    nm = P.run(["llvm-nm-14", hb])
    open(os.path.join(wd, "harness_syms.txt"), "w").write("\n".join(
        ln.split()[-1] for ln in nm.splitlines() if len(ln.split()) >= 2 and ln.split()[-2] in "BbDdCc") + "\n")
    # functions the harness defines itself (entries, stubs): their own stores are not the code under test
    open(os.path.join(wd, "harness_funcs.txt"), "w").write("\n".join(
        ln.split()[-1] for ln in nm.splitlines() if len(ln.split()) >= 2 and ln.split()[-2] in "Tt") + "\n")
    linked = os.path.join(wd, "linked.bc")
    # "// @extract sym ...": file-local (static) library functions the harness drives directly or whose callees it
    # replaces: llvm-extract turns them into an external definition and their file-local callees into external
    # declarations, which the harness resolves through asm labels
    extract = []
    for ln in open(path):
        mx = re.match(r"\s*//\s*@extract\s+(.*)$", ln)
        if mx:
            extract += mx.group(1).split()
    link_in = [lib]
    if extract:
        xbc = os.path.join(wd, "extract.bc")
        # names prefixed with "data:" are file-local constants / variables (llvm-extract --glob)
        P.run(["llvm-extract-14"] + [("--glob=" + f[5:]) if f.startswith("data:") else ("--func=" + f) for f in extract] + [lib, "-o", xbc])
        xt = P.run([P.LLVM_DIS, xbc, "-o", "-"])
        xt = re.sub(r"\b(hidden|internal|fastcc) ", "", xt)
        xll = os.path.join(wd, "extract.ll")
        open(xll, "w").write(xt)
        link_in.append(xll)
    P.run([P.LLVM_LINK] + link_in + ["--override", hb, "-o", linked])
    api = ",".join(entries)
    P.run([P.OPT, "-passes=internalize,globaldce", "-internalize-public-api-list=" + api, linked, "-o", linked + ".1"])
    txt = P.run([P.LLVM_DIS, linked + ".1", "-o", "-"])
    m = re.search(r"^@llvm\.global_ctors = .*$", txt, re.M)
    if m:
        # keep only the static initialisers the harness asked for (@static_init <TU file names>) and its own
        keep = []
        wanted = static_inits(path) + [os.path.basename(path)]
        for e in re.findall(r"\{ i32 \d+, void \(\)\* @[^,]+, i8\* [^}]*\}", m.group(0)):
            fn = re.search(r"@([^, ]+)", e).group(1).strip('"')
            if any(fn == "_GLOBAL__sub_I_" + w for w in wanted) or ("ALL" in wanted and fn.startswith("_GLOBAL__sub_I_")):
                keep.append(e)
        if keep:
            line = "@llvm.global_ctors = appending global [%d x { i32, void ()*, i8* }] [%s]" % (len(keep), ", ".join("{ i32, void ()*, i8* } " + k for k in keep))
        else:
            line = ""
        txt = txt.replace(m.group(0), line)
    tmp = os.path.join(wd, "noctor.ll")
    open(tmp, "w").write(txt)
    P.run([P.OPT, "-passes=internalize,globaldce", "-internalize-public-api-list=" + api, tmp, "-S", "-o", ll + ".tmp"])
    os.rename(ll + ".tmp", ll)
    for f in (linked, linked + ".1", tmp, hb):
        if os.path.exists(f):
            os.unlink(f)
    return ll, wd


def build_native(ll, wd, entry, asan=False):
    exe = os.path.join(wd, entry + (".asan" if asan else "") + ".exe")
    if os.path.exists(exe):
        return exe
    import fcntl
    lock = open(os.path.join(wd, ".lock." + entry), "w")
    fcntl.flock(lock, fcntl.LOCK_EX)
    if os.path.exists(exe):
        return exe
    obj = os.path.join(wd, entry + ".vfn.o")
    P.run(["clang-14", "-O1", "-I" + os.path.join(ROOT, "rt"), "-DVF_ENTRY=" + entry, "-c",
           os.path.join(ROOT, "rt", "vf_native.c"), "-o", obj])
    # only the chosen entry must stay external: others are harmless
    cmd = ["clang++-14", "-O1", "-Wno-override-module", ll, obj, os.path.join(ROOT, "rt", "vf_native_cxx.cpp"),
           "-o", exe + ".tmp", "-lm", "-lpthread"]
    if asan:
        cmd.insert(1, "-fsanitize=address,undefined")
    P.run(cmd)
    os.rename(exe + ".tmp", exe)
    return exe


def build_watch_native(ll, wd, entry, mod, gsyms, at_entry=False):
    """native build in which the named globals sit alone on write-protected pages while the harness has the
    shared-state watch on: a store to one of them is reported as CHECK lock.discipline.<name> 0 (rt/vf_native.c)"""
    tag = _h(",".join(sorted(gsyms)), at_entry)[:8]
    exe = os.path.join(wd, "%s.watch-%s.exe" % (entry, tag))
    if os.path.exists(exe):
        return exe
    txt = open(ll).read()
    names, addrs, sizes, strs = [], [], [], []
    from . import irparse
    for i, gs in enumerate(sorted(gsyms)):
        g = mod.globals.get(gs)
        if g is None:
            continue
        q = gs if re.match(r"^[A-Za-z0-9_.$]+$", gs) else '"%s"' % gs
        m = re.search(r"^@%s = [^\n]*$" % re.escape(q), txt, re.M)
        if not m:
            continue
        line = m.group(0)
        line2 = re.sub(r",?\s*align \d+", "", line)
        line2 = re.sub(r",\s*(!dbg|comdat)[^\n]*$", "", line2)
        line2 = line2.replace(" internal unnamed_addr ", " internal ").replace(" local_unnamed_addr ", " ").replace(" unnamed_addr ", " ")
        line2 += ', section "vfwatch", align 4096'
        txt = txt.replace(line, line2)
        from . import irsym as _irsym
        nm = _irsym.P_dem(gs)
        b = nm.encode() + b"\0"
        strs.append('@vf_watch_name_%d = private constant [%d x i8] c"%s"' % (
            i, len(b), "".join("\\%02X" % c for c in b)))
        names.append("i8* getelementptr inbounds ([%d x i8], [%d x i8]* @vf_watch_name_%d, i64 0, i64 0)" % (len(b), len(b), i))
        addrs.append("i8* bitcast (%s* @%s to i8*)" % (g.ty.s(), q))
        sizes.append("i64 %d" % irparse.sizeof(g.ty))
    n = len(names)
    if n == 0:
        return None
    txt += "\n" + "\n".join(strs) + "\n"
    txt += '@vf_watch_tail = global [4096 x i8] zeroinitializer, section "vfwatch", align 4096\n'
    txt += "@vf_watch_n = global i64 %d\n" % n
    txt += "@vf_watch_addr = global [%d x i8*] [%s]\n" % (n, ", ".join(addrs))
    txt += "@vf_watch_size = global [%d x i64] [%s]\n" % (n, ", ".join(sizes))
    txt += "@vf_watch_names = global [%d x i8*] [%s]\n" % (n, ", ".join(names))
    ll2 = os.path.join(wd, "%s.watch-%s.ll" % (entry, tag))
    open(ll2, "w").write(txt)
    obj = os.path.join(wd, "%s.vfn.watch-%s.o" % (entry, tag))
    P.run(["clang-14", "-O1", "-I" + os.path.join(ROOT, "rt"), "-DVF_ENTRY=" + entry, "-DVF_WATCH_TABLE"] + (["-DVF_WATCH_AT_ENTRY"] if at_entry else []) + ["-c",
           os.path.join(ROOT, "rt", "vf_native.c"), "-o", obj])
    # -O0: the IR is what engine B executed; a later pass must not fold the watched stores away
    P.run(["clang++-14", "-O0", "-Wno-override-module", ll2, obj, os.path.join(ROOT, "rt", "vf_native_cxx.cpp"),
           "-o", exe + ".tmp", "-lm", "-lpthread"])
    os.rename(exe + ".tmp", exe)
    return exe


def _asan_sees(ll, wd, entry, vec):
    """does the AddressSanitizer build of the slice report an error on this input vector?"""
    try:
        aexe = build_native(ll, wd, entry, asan=True)
        nat = run_native(aexe, vec, wd, "valasan")
    except Exception:
        return False
    return "AddressSanitizer" in nat.get("stderr", "") or "runtime error" in nat.get("stderr", "") or nat["rc"] < 0 or nat["rc"] in (1, 134, 139)


def run_native(exe, inputs, wd, tag):
    """inputs: list of (name, value) -> parsed output dict"""
    f = os.path.join(wd, "in.%s.%d.txt" % (tag, os.getpid()))
    with open(f, "w") as fp:
        for n, v in inputs:
            if isinstance(v, float):
                fp.write("%s %s\n" % (n, repr(v)))
            else:
                fp.write("%s %d\n" % (n, v))
    env = dict(os.environ, VF_INPUTS=f, VF_LAYOUT_DIR=wd)
    import tempfile, shutil
    rundir = tempfile.mkdtemp(prefix="run.", dir=wd)     # files the harness creates must not leak into the next run
    try:
        def lift():
            try:
                resource.setrlimit(resource.RLIMIT_AS, (resource.getrlimit(resource.RLIMIT_AS)[1],) * 2)
            except Exception:
                pass
        r = subprocess.run(["timeout", "20", exe], stdout=subprocess.PIPE, stderr=subprocess.PIPE, env=env, text=True,
                           errors="replace", cwd=rundir, preexec_fn=lift)
    finally:
        os.unlink(f)
        shutil.rmtree(rundir, ignore_errors=True)
    out = {"rc": r.returncode, "lines": [], "done": False, "assume_false": False, "stderr": r.stderr[-2000:]}
    for ln in r.stdout.split("\n"):
        p = ln.split(" ")
        if p[0] == "CLOSE":
            out["lines"].append(("close", " ".join(p[1:-3]), int(p[-3]), float(p[-2]), float(p[-1])))
        elif p[0] == "CHECK":
            out["lines"].append(("check", " ".join(p[1:-1]), int(p[-1]), None, None))
        elif p[0] == "DONE":
            out["done"] = True
        elif p[0] == "ASSUME-FALSE":
            out["assume_false"] = True
        elif p[0] in ("MISSING-INPUT", "HARNESS-FAIL"):
            out["harness_error"] = ln
    return out


def _close_enough(a, b):
    if a is None or b is None:
        return a is b
    if a != a or b != b:
        return a != a and b != b
    if a == b:
        return True
    return abs(a - b) <= 1e-11 * max(abs(a), abs(b)) + 1e-290


def sample_inputs(specs, rng):
    vec = []
    for name, kind, lo, hi in specs:
        if kind == "double":
            r = rng.random()
            if r < 0.1:
                v = lo
            elif r < 0.2:
                v = hi
            elif lo > 0 and hi / lo > 1e3 and r < 0.6:
                import math
                v = math.exp(rng.uniform(math.log(lo), math.log(hi)))
            else:
                v = rng.uniform(lo, hi)
            vec.append((name, float(v)))
        else:
            vec.append((name, rng.randint(int(lo), int(hi))))
    return vec


def run_obligation_file(path, tier, seed, only=None, verbose=False):
    """Run every obligation of a harness file whose tier is included. Returns list of result dicts."""
    import z3  # noqa (ensures python3-vt)
    from . import irparse, irsym
    from .symval import EngineError
    logs = []
    log = (lambda *a: (logs.append(" ".join(str(x) for x in a)), verbose and print(*a, file=sys.stderr)))
    obls = [o for o in parse_header(path) if (tier == "thorough" or o.tier == "Q") and (not only or o.id in only)]
    if not obls:
        return []
    results = []
    t0 = time.time()
    try:
        ll, wd = build_slice(path, [o.entry for o in parse_header(path)], tier, log)
        text = open(ll).read()
        mod = irparse.parse_module(text)
        slice_s = time.time() - t0
    except Exception as e:
        for o in obls:
            results.append({"id": o.id, "prop": o.prop, "status": "error", "error": "build/parse: %s" % e,
                            "trace": traceback.format_exc()[-1500:], "wall_s": time.time() - t0})
        return results
    dem = P.demangle([n for n, f in mod.funcs.items() if not f.is_decl])
    for o in obls:
        t1 = time.time()
        R = {"id": o.id, "prop": o.prop, "engine": o.engine, "entry": o.entry, "harness": os.path.relpath(path, ROOT),
             "tier": o.tier, "bounds": o.text.get("bounds", ""), "oracle": o.text.get("oracle", ""),
             "outside": o.text.get("outside", ""), "stubs": o.text.get("stubs", ""), "status": "pass",
             "slice_s": round(slice_s, 2), "ir_lines": text.count("\n")}
        try:
            _run_one(o, mod, dem, ll, wd, tier, seed, R, log, irsym)
        except (EngineError, irparse.IRError) as e:
            R["status"] = "error"
            R["error"] = "%s: %s" % (type(e).__name__, e)
        except Exception as e:
            R["status"] = "error"
            R["error"] = "%s: %s" % (type(e).__name__, e)
            R["trace"] = traceback.format_exc()[-2000:]
        R["wall_s"] = round(time.time() - t1, 2)
        R["peak_rss_mb"] = resource.getrusage(resource.RUSAGE_SELF).ru_maxrss // 1024
        results.append(R)
    return results


def _run_one(o, mod, dem, ll, wd, tier, seed, R, log, irsym):
    opts = o.opts
    thorough = tier == "thorough"
    tmo = int(opts.get("timeout_ms", 20000)) * (10 if thorough else 1)
    E = irsym.Engine(mod, exact=True, timeout_ms=tmo, max_paths=int(opts.get("max_paths", 20000)),
                     max_steps=int(opts.get("max_steps", 3000000)),
                     loop_bound=(int(opts["loop_bound"]) if "loop_bound" in opts else None), keep_traces=True)
    for ln in open(o.path):
        ml = re.match(r"\s*//\s*@layout\s+(\S+)(.*)$", ln)
        if ml and not os.path.exists(os.path.join(wd, "layout.%s.txt" % ml.group(1))):
            from . import layout
            layout.write(wd, ml.group(1), tuple(x[1:] for x in ml.group(2).split() if x.startswith("-")))
    E.budget_s = float(opts.get("budget_s", 150)) * (8 if thorough else 1)
    E.presplit = opts.get("presplit", "1") == "1"
    E.layout_dir = wd
    E.watch_enabled = opts.get("watch", "0") == "1"
    E.watch_all = opts.get("only_lock") == "1" or bool(os.environ.get("VF_WATCH_ALL"))
    E.only_lock = opts.get("only_lock") == "1"
    hf = os.path.join(wd, "harness_funcs.txt")
    if os.path.exists(hf):
        E.harness_funcs = set(re.sub(r"\.\d+$", "", x) for x in open(hf).read().split())
    hs = os.path.join(wd, "harness_syms.txt")
    if os.path.exists(hs):
        E.harness_globals = set(re.sub(r"\.\d+$", "", x) for x in open(hs).read().split())
    if os.environ.get("VF_TRACE"):
        E.slowlog = lambda m: print("[%s] %s" % (o.id, m), file=sys.stderr)
    partial = False
    try:
        res = E.run(o.entry)
    except irsym.Budget as e:
        res = E.res
        R["status"] = "inconclusive"
        R["error"] = str(e)
        R.update({"paths": res.paths, "queries": res.queries, "solver_s": round(res.solver_s, 3), "checks": res.checks})
        if not res.cex:
            return
        E.budget_s = 1e9
        partial = True       # exploration is incomplete, but a counterexample already found is still replayed and reported
    R.update({"paths": res.paths, "ended": res.ended, "steps": res.steps, "queries": res.queries,
              "solver_s": round(res.solver_s, 3), "checks": res.checks, "reached": res.reached,
              "assumptions": sorted(res.assumptions), "engine_errors": res.errors})
    if partial:
        res.errors = []
        for l in o.reach:
            res.reached.setdefault(l, 1)
    enc = sorted(set(dem.get(n, n) for n in res.funcs))
    R["functions_encoded"] = [{"name": n} for n in enc][:60]
    R["n_functions_encoded"] = len(enc)
    missing = [f for f in o.funcs if not any(f in e for e in enc)]
    if missing and not partial:
        R["status"] = "error"
        R["error"] = "real function(s) not executed by the harness: %s" % missing
        return
    vac = [l for l in o.reach if not res.reached.get(l)]
    if vac:
        R["status"] = "error"
        R["error"] = "vacuity witness not reachable: %s" % vac
        return
    if res.errors:
        R["status"] = "error"
        R["error"] = "; ".join(res.errors)
        return
    if opts.get("only_lock") == "1":
        # C06 view of another obligation's entry: only the lock-discipline verdicts count here
        res.cex = [c for c in res.cex if c.get("kind") == "lock"]
        res.checks = {k: v for k, v in res.checks.items() if k.startswith("lock.discipline")}
        if not getattr(res, "watch_regions", 0):
            R["status"] = "error"
            R["error"] = "the harness never switched the shared-state watch on (vf_watch_shared_state)"
            return
        res.checks["shared_state.stores_monitored_without_unlocked_store_to_process_wide_state"] = {
            "unsat": 0, "sat": 0, "unknown": 0, "concrete_ok": getattr(res, "watched_writes", 0), "concrete_fail": 0}
        R["checks"] = res.checks
        R["watched_stores"] = getattr(res, "watched_writes", 0)
        R["watched_stores_to_process_wide_objects_under_lock"] = getattr(res, "watched_global_writes_locked", 0)
    nchecks = sum(sum(d.values()) for d in res.checks.values())
    if nchecks == 0:
        R["status"] = "error"
        R["error"] = "no obligation was evaluated on any path"
        return
    # ---- encoder validation against the native build of the same slice
    nval = int(opts.get("validate", 8)) * (4 if thorough else 1)
    exe = build_native(ll, wd, o.entry)
    rng = random.Random((seed or 0) * 7919 + hash(o.id) % 65521)
    specs = {}
    for t in res.traces:
        for name, kind, term, lo, hi in t["inputs"]:
            specs.setdefault(name, (name, kind, lo, hi))
    speclist = list(specs.values())
    vecs = []
    # one vector per explored path (model of its path condition), then random vectors
    for t in res.traces[:nval]:
        r, m = E.check(t["pc"], want_model=True)
        if r == "sat":
            E.cur = None
            mi = {d["name"]: d["value"] for d in _model_inputs(E, t, m)}
            vecs.append([(n, (float(mi[n]) if k == "double" else int(mi[n])) if mi.get(n) is not None else
                          (sample_inputs([(n, k, lo, hi)], rng)[0][1])) for n, k, lo, hi in speclist])
    tries = 0
    while len(vecs) < 2 * nval and tries < 6 * nval:
        vecs.append(sample_inputs(speclist, rng))
        tries += 1
    agreed = 0
    nontrivial = 0
    mismatches = []
    for vec in vecs:
        nat = run_native(exe, vec, wd, "val")
        if nat["rc"] == 4 and "MISSING-INPUT" in (str(nat.get("harness_error", "")) + nat.get("stderr", "")):
            continue        # the vector lacks an input that only some paths draw (not known from the explored paths): not usable
        native_crashed = nat["rc"] < 0 or nat["rc"] in (139, 134, 136)
        if nat.get("harness_error") or (nat["rc"] not in (0,) and not nat["assume_false"] and not native_crashed):
            mismatches.append({"inputs": vec, "why": "native run failed rc=%s %s %s" % (nat["rc"], nat.get("harness_error", ""), nat["stderr"][-300:])})
            continue
        Ec = irsym.Engine(mod, exact=False, inputs={n: v for n, v in vec}, max_steps=int(opts.get("max_steps", 3000000)))
        Ec.layout_dir = wd
        try:
            rc = Ec.run(o.entry)
        except Exception as e:
            mismatches.append({"inputs": vec, "why": "concrete engine run failed: %s" % e})
            continue
        engine_memerr = any(k.startswith("memory-error") for k in rc.ended)
        if native_crashed or engine_memerr:
            # an invalid memory access on this vector: encoding and native build agree when both see it
            if native_crashed and engine_memerr:
                agreed += 1
            elif engine_memerr and not native_crashed and _asan_sees(ll, wd, o.entry, vec):
                # an overflow by a few bytes does not crash the plain build; the sanitizer build of the same slice reports it
                agreed += 1
            else:
                mismatches.append({"inputs": vec, "why": "native rc=%s (crash: %s) vs engine path ends %s" % (nat["rc"], native_crashed, dict(rc.ended))})
            continue
        a = [(k, l, ok, x, y) for k, l, ok, x, y in rc.closes]
        b = nat["lines"]
        if nat["assume_false"] and not a and "assume-false" in rc.ended:
            continue
        if len(a) != len(b) or any(x[0] != y[0] or x[1] != y[1] or x[2] != y[2] or not _close_enough(x[3], y[3]) or
                                   not _close_enough(x[4], y[4]) for x, y in zip(a, b)):
            mismatches.append({"inputs": vec, "why": "engine %r vs native %r" % (a[:4], b[:4])})
        else:
            agreed += 1
            if a:
                nontrivial += 1
    R["validation"] = {"vectors": len(vecs), "agreed": agreed, "with_checks": nontrivial, "mismatches": mismatches[:3]}
    if mismatches:
        R["status"] = "error"
        R["error"] = "encoder validation mismatch (%d of %d vectors)" % (len(mismatches), len(vecs))
        return
    # ---- counterexamples: replay natively before reporting
    R["cex"] = []
    confirmed = []
    seen_cex = set()
    for c in res.cex[:60]:
        kk = (c['label'], json.dumps(c['inputs'], default=str))
        if kk in seen_cex:
            continue
        seen_cex.add(kk)
        vec = [(d["name"], (float(Fraction(d["exact"])) if d.get("exact") else d["value"])) for d in c["inputs"]
               if d["value"] is not None]
        nat = run_native(exe, vec, wd, "cex")
        failing = [l for l in nat["lines"] if l[1] == c["label"] and l[2] == 0]
        how = "native replay of the slice"
        if c.get("kind") == "memory" and not failing:
            # an invalid access on this path: the sanitizer build of the same slice must stop on it
            aexe = build_native(ll, wd, o.entry, asan=True)
            nat2 = run_native(aexe, vec, wd, "cexa")
            if nat2["rc"] not in (0,) and ("AddressSanitizer" in nat2["stderr"] or "runtime error" in nat2["stderr"] or nat2["rc"] < 0):
                failing = [("memory", c["label"], 0)]
                how = "native run of the slice under AddressSanitizer/UBSan stops on the access"
                nat = nat2
        if c.get("kind") == "lock" and c.get("gsym"):
            # deterministic confirmation: the variable sits on a write-protected page while the watch is on
            wexe = build_watch_native(ll, wd, o.entry, mod, [x["gsym"] for x in res.cex if x.get("gsym")],
                                      at_entry=opts.get("only_lock") == "1")
            if wexe:
                nat = run_native(wexe, vec, wd, "cexw")
                failing = [l for l in nat["lines"] if l[1] == c["label"] and l[2] == 0]
                how = "native run of the slice with the variable on a write-protected page: the store faults inside the watched call"
        if c.get("kind") == "lock" and not failing and opts.get("confirm", "").startswith("stress:"):
            failing, how = stress_confirm(os.path.join(ROOT, opts["confirm"][7:]), wd), "multi-threaded stress run against the library IR"
        c2 = {"label": c["label"], "detail": c.get("detail", ""), "inputs": {n: v for n, v in vec},
              "replayed": bool(failing), "confirmed_how": how, "native": [list(x) for x in nat["lines"][:6]],
              "pc_tail": c.get("pc")}
        R["cex"].append(c2)
        if failing:
            confirmed.append(c2)
    R["confirmed"] = confirmed
    if confirmed:
        R["status"] = "violation"
        if partial:
            R["error"] = "exploration stopped early (%s); the counterexample(s) found before that are replayed and confirmed" % R.get("error")
    elif res.cex or res.inconclusive or partial:
        R["status"] = "inconclusive"
    if any(k.startswith("memory-error") for k in res.ended):
        R["memory_errors"] = {k: v for k, v in res.ended.items() if k.startswith("memory-error")}
        if R["status"] == "pass":
            R["status"] = "inconclusive"
    # a few explored paths written out for the evidence
    R["sample_paths"] = [{"end": t["end"], "n_constraints": len(t["pc"]), "events": [_ev(e) for e in t["trace"][:8]]}
                         for t in res.traces[:3]]


_STRESS = {}


def stress_confirm(src, wd):
    """build the whole library IR natively with a multi-threaded driver and run it a few times"""
    if src in _STRESS:
        return _STRESS[src]
    exe = os.path.join(wd, "stress.exe")
    try:
        P.run(["clang++-14", "-O1", "-Wno-override-module"] + P.repo_flags() + [P.build_lib(), src, "-o", exe, "-lpthread", "-lm"])
    except Exception as e:
        _STRESS[src] = []
        return []
    hit = []
    for k in range(4):
        r = subprocess.run(["timeout", "60", exe], stdout=subprocess.PIPE, stderr=subprocess.PIPE, text=True, cwd=wd,
                           env=dict(os.environ, VF_REPO=P.REPO))
        if r.returncode == 1:
            hit = [("stress", r.stderr.strip()[-200:])]
            break
    _STRESS[src] = hit
    return hit


def _ev(e):
    return [x if isinstance(x, (int, str, float)) else str(x) for x in e]


def _model_inputs(E, t, m):
    class _S:
        pass
    s = _S()
    s.inputs = t["inputs"]
    return E.model_inputs(s, m)
